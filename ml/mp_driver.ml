(* mp_driver.ml — runs the extracted MsgPack model on the line protocol of harness/drv_msgpack.cpp *)

let err_cat = function EParse -> "P" | EMismatch -> "M" | EOverflow -> "O" | EInvalidArg -> "IA" | EInternal -> "STD"

(* C++ double -> float under ConvertByPolicy (range test, then static_cast) and float -> double *)
let narrow (bits : n) : n option =
  let d = Int64.float_of_bits (Int64.of_string ("0x" ^ hex_of_n bits)) in
  let fmax = Int32.float_of_bits 0x7f7fffffl in
  if d >= (-. fmax) && d <= fmax then
    Some (n_of_hex (Printf.sprintf "%lx" (Int32.bits_of_float d)))
  else None
let widen (bits : n) : n =
  let f = Int32.float_of_bits (Int32.of_string ("0x" ^ hex_of_n bits)) in
  n_of_hex (Printf.sprintf "%Lx" (Int64.bits_of_float f))

let is_nan32 (b : n) = let v = int_of_n b in (v land 0x7f800000) = 0x7f800000 && (v land 0x7fffff) <> 0
let is_nan64 (b : n) =
  let v = Int64.of_string ("0x" ^ hex_of_n b) in
  Int64.logand v 0x7ff0000000000000L = 0x7ff0000000000000L && Int64.logand v 0xfffffffffffffL <> 0L

let pol c = if c = 'T' then PThrow else PSkip

let vtype_code = function
  | TUnknown -> 0 | TNil -> 1 | TBool -> 2 | TUInt -> 3 | TSInt -> 4 | TFloat -> 5 | TDouble -> 6 | TStr -> 7
  | TArr -> 8 | TBin -> 9 | TMap -> 10 | TExt -> 11 | TTimestamp -> 12

let ity_of s =
  let signed = (s.[0] = 's' || s.[0] = 'c') in
  let bits = int_of_string (String.sub s 1 (String.length s - 1)) in
  { i_signed = signed; i_bits = n_of_int bits }

let answer total (fmt : 'a -> string) (r : 'a rres) : string =
  match r with
  | ROk (v, rest) -> Printf.sprintf "OK %s %d" (fmt v) (total - List.length rest)
  | RNot rest -> Printf.sprintf "NOT %d" (total - List.length rest)
  | RErr e -> "ERR " ^ err_cat e
  | RFuel -> "FUEL"

let hexnum x = hex_of_n x

(* value trees of harness/drv_mpsave.cpp *)
let ikind_of = function
  | "u8" -> IU8 | "u16" -> IU16 | "u32" -> IU32 | "u64" -> IU64
  | "s8" -> IS8 | "s16" -> IS16 | "s32" -> IS32 | "s64" -> IS64 | _ -> failwith "ikind"

let parse_tree (t : string) : tv =
  let p = ref 0 in
  let token () =
    let q = ref !p in
    while !q < String.length t && not (List.mem t.[!q] [';'; ']'; '}'; '=']) do incr q done;
    let r = String.sub t !p (!q - !p) in p := !q; r in
  let rec go () : tv =
    let c = t.[!p] in incr p;
    match c with
    | 'n' -> TNil0
    | 'T' -> TBool0 true
    | 'F' -> TBool0 false
    | 'i' ->
      let tok = token () in
      let i = String.index tok ':' in
      TInt (ikind_of (String.sub tok 0 i), z_of_shex (String.sub tok (i + 1) (String.length tok - i - 1)))
    | 'f' -> TF32 (n_of_hex (token ()))
    | 'd' -> TF64 (n_of_hex (token ()))
    | 's' -> TStr0 (parse_hexbytes (token ()))
    | 'b' -> TBytes (parse_hexbytes (token ()))
    | '[' ->
      if t.[!p] = ']' then (incr p; TArr0 []) else begin
        let acc = ref [] in
        let fin = ref false in
        while not !fin do
          acc := go () :: !acc;
          (match t.[!p] with ';' -> incr p | ']' -> incr p; fin := true | _ -> failwith "bad array")
        done;
        TArr0 (List.rev !acc) end
    | '{' ->
      if t.[!p] = '}' then (incr p; TObj []) else begin
        let acc = ref [] in
        let fin = ref false in
        while not !fin do
          let k = go () in
          if t.[!p] <> '=' then failwith "bad object"; incr p;
          let v = go () in
          acc := (k, v) :: !acc;
          (match t.[!p] with ';' -> incr p | '}' -> incr p; fin := true | _ -> failwith "bad object")
        done;
        TObj (List.rev !acc) end
    | _ -> failwith "bad tree" in
  go ()

let () =
  try
    while true do
      let line = input_line stdin in
      let t = Array.of_list (split_on ' ' line) in
      (try
        if t.(0) = "sv" then begin
          (match save (parse_tree t.(2)) with
           | Some b -> print_endline (fmt_hexbytes b)
           | None -> print_endline "ERR R")
        end else if t.(0) = "rev" then begin
          let v = n_of_hex t.(2) in
          let b = match t.(1) with
            | "16" -> le_bytes (nat_of_int 2) (rev16 v)
            | "32" -> le_bytes (nat_of_int 4) (rev32 v)
            | _ -> le_bytes (nat_of_int 8) (rev64 v) in
          print_endline (fmt_hexbytes b)
        end else if t.(0) = "w" then begin
          let out : n list option =
            match t.(2) with
            | "nil" -> Some wr_nil
            | "bool" -> Some (wr_bool (t.(3) = "1"))
            | "u8" -> Some (wr_u8 (n_of_hex t.(3)))
            | "u16" -> Some (wr_u16 (n_of_hex t.(3)))
            | "u32" -> Some (wr_u32 (n_of_hex t.(3)))
            | "u64" -> Some (wr_u64 (n_of_hex t.(3)))
            | "i8" -> Some (wr_i8 (z_of_shex t.(3)))
            | "i16" -> Some (wr_i16 (z_of_shex t.(3)))
            | "i32" -> Some (wr_i32 (z_of_shex t.(3)))
            | "i64" -> Some (wr_i64 (z_of_shex t.(3)))
            | "f32" -> Some (wr_f32 (n_of_hex t.(3)))
            | "f64" -> Some (wr_f64 (n_of_hex t.(3)))
            | "str" -> wr_str (parse_hexbytes t.(3))
            | "strn" ->
              let len = int_of_string ("0x" ^ t.(3)) in
              (match wr_str_header (n_of_hex t.(3)) with
               | Some h -> Some (h @ List.init len (fun _ -> n_of_int 0x61))
               | None -> None)
            | "arr" -> wr_array_header (n_of_hex t.(3))
            | "map" -> wr_map_header (n_of_hex t.(3))
            | "bin" -> wr_bin_header (n_of_hex t.(3))
            | "ts" -> Some (wr_ts (z_of_shex t.(3)) (z_of_shex t.(4)))
            | _ -> failwith "unknown writer op" in
          (match out with
           | Some b -> print_endline (fmt_hexbytes b)
           | None -> print_endline "ERR R")
        end else if t.(0) = "r" || t.(0) = "q" then begin
          let o = { o_mismatch = pol t.(2).[0]; o_overflow = pol t.(2).[1] } in
          let data = parse_hexbytes t.(Array.length t - 1) in
          let total = List.length data in
          (* one read at the suffix [rest]; returns the answer and the new suffix (None after an error) *)
          let read1 (op : string) (ty : string) (rest : n list) : string * n list option =
            let fin fmt r =
              match r with
              | ROk (v, rest') -> (Printf.sprintf "OK %s %d" (fmt v) (total - List.length rest'), Some rest')
              | RNot rest' -> (Printf.sprintf "NOT %d" (total - List.length rest'), Some rest')
              | RErr e -> ("ERR " ^ err_cat e, None)
              | RFuel -> ("FUEL", None) in
            match op with
            | "int" ->
              let it = if ty = "u1" then { i_signed = false; i_bits = n_of_int 1 } else ity_of ty in
              fin shex_of_z (read_int o it rest)
            | "nil" -> fin (fun () -> "nil") (if t.(1) = "s" then read_nil_stream o rest else read_nil o rest)
            | "f32" -> fin (fun b -> if is_nan32 b then "nan" else hexnum b) (read_f32 narrow o rest)
            | "f64" -> fin (fun b -> if is_nan64 b then "nan" else hexnum b) (read_f64 widen o rest)
            | "str" -> fin fmt_hexbytes (read_str o rest)
            | "arr" -> fin hexnum (read_array_size o rest)
            | "map" -> fin hexnum (read_map_size o rest)
            | "bin" -> fin hexnum (read_bin_size o rest)
            | "byte" -> fin hexnum (read_binary rest)
            | "ts" -> fin (fun (s, ns) -> shex_of_z s ^ "," ^ shex_of_z ns) (read_ts o rest)
            | "skip" ->
              (match skip_value rest with
               | SOk rest' -> (Printf.sprintf "OK - %d" (total - List.length rest'), Some rest')
               | SErr e -> ("ERR " ^ err_cat e, None)
               | SFuel -> ("FUEL", None))
            | "type" ->
              (match read_value_type rest with
               | Inl v -> (Printf.sprintf "OK %d %d" (vtype_code v) (total - List.length rest), Some rest)
               | Inr e -> ("ERR " ^ err_cat e, None))
            | _ -> failwith "unknown reader op" in
          let s =
            if t.(0) = "r" then fst (read1 t.(3) (if Array.length t > 5 then t.(4) else "") data)
            else begin
              let ops = split_on ',' t.(3) in
              let rec go ops rest acc =
                match ops with
                | [] -> List.rev acc
                | op :: tl ->
                  let (name, ty) = (match String.index_opt op ':' with
                                    | Some i -> (String.sub op 0 i, String.sub op (i + 1) (String.length op - i - 1))
                                    | None -> (op, "")) in
                  let (ans, nxt) = read1 name ty rest in
                  (match nxt with
                   | Some r -> go tl r (ans :: acc)
                   | None -> List.rev (ans :: acc)) in
              String.concat ";" (go ops data [])
            end in
          print_endline s
        end else print_endline "UNSUPPORTED"
      with Failure m -> Printf.printf "EXC %s\n" m
         | Invalid_argument m -> Printf.printf "EXC %s\n" m
         | Not_found -> print_endline "EXC notfound")
    done
  with End_of_file -> ()
