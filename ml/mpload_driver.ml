(* mpload_driver.ml — runs the extracted typed-load specification (coq/MpLoadModel.v: load_bytes =
   reference decoder, then load_spec) on the line protocol of harness/drv_mpload.cpp:
     ld  <m|s> <pol> <shape> <hexdoc>           ->  OK <tree> | ERR <cat> | UNMODELLED
     ldp <m|s> <pol> <shape> <prior> <hexdoc>   the same into a target that holds <prior> (load_bytes_into)
   UNMODELLED: a map of the document that meets a std::map target has a key of another class than the
   target's key type, or two keys that are not different (`modelled` of MpLoadModel.v is false) *)

let err_cat = function EParse -> "P" | EMismatch -> "M" | EOverflow -> "O" | EInvalidArg -> "IA" | EInternal -> "STD"
let serr_cat = function SE e -> err_cat e | SERange -> "R"

let narrow (bits : n) : n option =
  let d = Int64.float_of_bits (Int64.of_string ("0x" ^ hex_of_n bits)) in
  let fmax = Int32.float_of_bits 0x7f7fffffl in
  if d >= (-. fmax) && d <= fmax then
    Some (n_of_hex (Printf.sprintf "%lx" (Int32.bits_of_float d)))
  else None
let widen (bits : n) : n =
  let f = Int32.float_of_bits (Int32.of_string ("0x" ^ hex_of_n bits)) in
  n_of_hex (Printf.sprintf "%Lx" (Int64.bits_of_float f))

let is_nan32 (b : n) = let v = int_of_n b in (v land 0x7f800000) = 0x7f800000 && (v land 0x7fffff) <> 0
let is_nan64 (b : n) =
  let v = Int64.of_string ("0x" ^ hex_of_n b) in
  Int64.logand v 0x7ff0000000000000L = 0x7ff0000000000000L && Int64.logand v 0xfffffffffffffL <> 0L

let pol c = if c = 'T' then PThrow else PSkip

let kind_of = function
  | "u8" -> IU8 | "u16" -> IU16 | "u32" -> IU32 | "u64" -> IU64
  | "s8" -> IS8 | "s16" -> IS16 | "s32" -> IS32 | "s64" -> IS64 | _ -> failwith "bad kind"
let kind_text = function
  | IU8 -> "u8" | IU16 -> "u16" | IU32 -> "u32" | IU64 -> "u64"
  | IS8 -> "s8" | IS16 -> "s16" | IS32 -> "s32" | IS64 -> "s64"

(* shape parser over the tree syntax *)
let parse_shape (t : string) : shape =
  let p = ref 0 in
  let token () =
    let q = ref !p in
    while !q < String.length t && not (List.mem t.[!q] [';'; ']'; '}'; '='; '>'; '|'; ')'; '$']) do incr q done;
    let r = String.sub t !p (!q - !p) in p := !q; r in
  let rec go () : shape =
    let c = t.[!p] in incr p;
    match c with
    | 'n' -> SNil
    | 'T' | 'F' -> SBool
    | 'i' -> let tok = token () in SInt (kind_of (String.sub tok 0 (String.index tok ':')))
    | 'f' -> ignore (token ()); SF32
    | 'd' -> ignore (token ()); SF64
    | 's' -> ignore (token ()); SStr
    | 'b' -> ignore (token ()); SBytes
    | '[' -> let e = go () in if t.[!p] <> ']' then failwith "a vector shape holds one element shape"; incr p; SVec e
    | 'v' -> SVecBool
    | '%' ->
      let a = go () in
      if t.[!p] <> ';' then failwith "bad pair shape"; incr p;
      let b = go () in
      if t.[!p] <> '$' then failwith "bad pair shape"; incr p;
      SClass [(parse_hexbytes "6b6579", a); (parse_hexbytes "76616c7565", b)]
    | '?' | '*' | '&' ->
      let e = go () in
      (match e with SNil | SOpt _ -> failwith "a wrapper holds a shape that is never nil" | _ -> SOpt e)
    | '^' ->
      if t.[!p] = '$' then (incr p; STuple []) else begin
        let ss = ref [] in
        let fin = ref false in
        while not !fin do
          let s = go () in
          ss := s :: !ss;
          if t.[!p] = ';' then incr p else if t.[!p] = '$' then (incr p; fin := true) else failwith "bad tuple shape"
        done;
        if List.length !ss > 4 then failwith "tuples of up to 4 components";
        STuple (List.rev !ss)
      end
    | '(' ->
      let cnt = int_of_string (token ()) in
      if cnt > 4096 || t.[!p] <> '|' then failwith "bad array shape";
      incr p;
      let e = go () in
      if t.[!p] <> ')' then failwith "bad array shape";
      incr p;
      SArr (nat_of_int cnt, e)
    | '#' | '@' ->
      let k = go () in
      let ks = (match k with SStr -> KSStr | SInt kind -> KSInt kind | _ -> failwith "set elements are strings or integers") in
      SSet (c = '@', ks)
    | '<' when !p + 1 < String.length t && t.[!p] = 'm' && t.[!p + 1] = '|' ->
      p := !p + 2;
      let k = go () in
      let ks = (match k with SStr -> KSStr | SInt kind -> KSInt kind | _ -> failwith "multimap keys are strings or integers") in
      if t.[!p] <> '=' then failwith "bad multimap shape";
      incr p;
      let e = go () in
      if t.[!p] <> '>' then failwith "bad multimap shape";
      incr p;
      SMMap (ks, e)
    | '<' ->
      let mode =
        if !p + 1 < String.length t && t.[!p + 1] = '|' && (t.[!p] = 'c' || t.[!p] = 'o' || t.[!p] = 'u') then begin
          let m = (match t.[!p] with 'o' -> MOnlyExist | 'u' -> MUpdate | _ -> MClean) in p := !p + 2; m end
        else MClean in
      let k = go () in
      let ks = (match k with SStr -> KSStr | SInt kind -> KSInt kind | _ -> failwith "map keys are strings or integers") in
      if t.[!p] <> '=' then failwith "bad map shape";
      incr p;
      let e = go () in
      if t.[!p] <> '>' then failwith "bad map shape";
      incr p;
      SMap (mode, ks, e)
    | '{' ->
      if t.[!p] = '}' then (incr p; SClass []) else begin
        let ms = ref [] in
        let fin = ref false in
        while not !fin do
          if t.[!p] <> 's' then failwith "member names are strings";
          incr p;
          let name = parse_hexbytes (token ()) in
          if t.[!p] <> '=' then failwith "bad class shape";
          incr p;
          let s = go () in
          ms := (name, s) :: !ms;
          if t.[!p] = ';' then incr p else if t.[!p] = '}' then (incr p; fin := true) else failwith "bad class shape"
        done;
        SClass (List.rev !ms)
      end
    | _ -> failwith "bad shape" in
  let s = go () in
  if !p <> String.length t then failwith "trailing shape text";
  s

(* the content of a target, in the tree syntax the drivers print, read along the shape *)
let parse_prior (s : shape) (t : string) : tv =
  let p = ref 0 in
  let token () =
    let q = ref !p in
    while !q < String.length t && not (List.mem t.[!q] [';'; ']'; '}'; '=']) do incr q done;
    let r = String.sub t !p (!q - !p) in p := !q; r in
  let expect c = if !p >= String.length t || t.[!p] <> c then failwith "bad prior"; incr p in
  let int_of tok = let c = String.index tok ':' in z_of_shex (String.sub tok (c + 1) (String.length tok - c - 1)) in
  let hexpart tok = parse_hexbytes (String.sub tok 1 (String.length tok - 1)) in
  let rec go (s : shape) : tv =
    match s with
    | SNil -> expect 'n'; TNil
    | SBool -> let k = token () in TBool (k = "T")
    | SInt k -> TInt (k, int_of (token ()))
    | SF32 -> let k = token () in TF32 (n_of_hex (String.sub k 1 (String.length k - 1)))
    | SF64 -> let k = token () in TF64 (n_of_hex (String.sub k 1 (String.length k - 1)))
    | SStr -> TStr (hexpart (token ()))
    | SBytes -> TBytes (hexpart (token ()))
    | SOpt e -> if !p < String.length t && t.[!p] = 'n' then (incr p; TNil) else go e
    | SSet (_, ks) ->
      TArr (items (fun () -> let k = token () in (match ks with KSStr -> TStr (hexpart k) | KSInt kind -> TInt (kind, int_of k))))
    | SMMap (ks, e) ->
      TArr (items (fun () ->
        expect '{'; ignore (token ()); expect '=';
        let k = token () in
        let key = (match ks with KSStr -> TStr (hexpart k) | KSInt kind -> TInt (kind, int_of k)) in
        expect ';'; ignore (token ()); expect '=';
        let x = go e in
        expect '}';
        TObj [(TStr (parse_hexbytes "6b6579"), key); (TStr (parse_hexbytes "76616c7565"), x)]))
    | SVec e -> TArr (items (fun () -> go e))
    | SVecBool -> TArr (items (fun () -> go SBool))
    | SArr (_, e) -> TArr (items (fun () -> go e))
    | STuple ss ->
      expect '[';
      let r = List.mapi (fun i s' -> if i > 0 then expect ';'; go s') ss in
      expect ']'; TArr r
    | SClass ms ->
      expect '{';
      let r = List.mapi (fun i (name, s') -> if i > 0 then expect ';'; ignore (token ()); expect '='; (TStr name, go s')) ms in
      expect '}'; TObj r
    | SMap (_, ks, e) ->
      expect '{';
      if t.[!p] = '}' then (incr p; TObj []) else begin
        let r = ref [] in
        let fin = ref false in
        while not !fin do
          let k = token () in
          expect '=';
          let key = (match ks with KSStr -> TStr (hexpart k) | KSInt kind -> TInt (kind, int_of k)) in
          let x = go e in
          r := (key, x) :: !r;
          if t.[!p] = ';' then incr p else (expect '}'; fin := true)
        done;
        TObj (List.rev !r)
      end
  and items (f : unit -> tv) : tv list =
    expect '[';
    if t.[!p] = ']' then (incr p; []) else begin
      let r = ref [] in
      let fin = ref false in
      while not !fin do
        r := f () :: !r;
        if t.[!p] = ';' then incr p else (expect ']'; fin := true)
      done;
      List.rev !r
    end in
  let v = go s in
  if !p <> String.length t then failwith "trailing prior text";
  v

let rec tree_text (v : tv) : string =
  match v with
  | TNil -> "n"
  | TBool b -> if b then "T" else "F"
  | TInt (k, z) -> "i" ^ kind_text k ^ ":" ^ shex_of_z z
  | TF32 b -> if is_nan32 b then "fnan" else "f" ^ hex_of_n b
  | TF64 b -> if is_nan64 b then "dnan" else "d" ^ hex_of_n b
  | TStr s -> "s" ^ fmt_hexbytes s
  | TBytes s -> "b" ^ fmt_hexbytes s
  | TArr l -> "[" ^ String.concat ";" (List.map tree_text l) ^ "]"
  | TObj l -> "{" ^ String.concat ";" (List.map (fun (k, x) -> tree_text k ^ "=" ^ tree_text x) l) ^ "}"

let () =
  try
    while true do
      let line = input_line stdin in
      let t = Array.of_list (split_on ' ' line) in
      (try
        if (Array.length t = 5 && t.(0) = "ld") || (Array.length t = 6 && t.(0) = "ldp") then begin
          let o = { o_mismatch = pol t.(2).[0]; o_overflow = pol t.(2).[1] } in
          let s = parse_shape t.(3) in
          let init = if t.(0) = "ldp" then parse_prior s t.(4) else default_of s in
          let data = parse_hexbytes t.(Array.length t - 1) in
          print_endline
            (match decode data with
             | Some (d, _) when not (modelled s d) -> "UNMODELLED"
             | _ ->
               (match load_bytes_into narrow widen o s init data with
                | LErr e -> "ERR " ^ serr_cat e
                | r -> "OK " ^ tree_text (keep init r)))
        end else print_endline "UNSUPPORTED"
      with Failure m -> Printf.printf "EXC %s\n" m
         | Invalid_argument m -> Printf.printf "EXC %s\n" m
         | Not_found -> print_endline "EXC notfound")
    done
  with End_of_file -> ()
