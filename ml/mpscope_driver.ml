(* mpscope_driver.ml — runs the extracted MsgPack scope model (coq/MpScopeModel.v) on the line
   protocol of harness/drv_mpscope.cpp:
     hist|ahist <kind> <pol> <hexdoc> <history>   ->  <tokens> END <pos> <sentinel> <fin> | <tokens> ERR <cat>
                                                      | FUEL | STALE
   (no destructor of the scopes lets an exception escape since /repo 3580349: the model has no terminate outcome)
   and, for testing the statement of the theorems, the specification's own answer:
     spec|aspec <kind> <pol> <hexdoc> <history>   ->  <tokens> END <clean 0|1> | <tokens> ERR <cat> <clean 0|1> | NODOC | BADDOC *)

let err_cat = function EParse -> "P" | EMismatch -> "M" | EOverflow -> "O" | EInvalidArg -> "IA" | EInternal -> "STD"
let serr_cat = function SE e -> err_cat e | SERange -> "R"

(* C++ double -> float under ConvertByPolicy (range test, then static_cast) and float -> double *)
let narrow (bits : n) : n option =
  let d = Int64.float_of_bits (Int64.of_string ("0x" ^ hex_of_n bits)) in
  let fmax = Int32.float_of_bits 0x7f7fffffl in
  if d >= (-. fmax) && d <= fmax then
    Some (n_of_hex (Printf.sprintf "%lx" (Int32.bits_of_float d)))
  else None
let widen (bits : n) : n =
  let f = Int32.float_of_bits (Int32.of_string ("0x" ^ hex_of_n bits)) in
  n_of_hex (Printf.sprintf "%Lx" (Int64.bits_of_float f))

let is_nan32 (b : n) = let v = int_of_n b in (v land 0x7f800000) = 0x7f800000 && (v land 0x7fffff) <> 0
let is_nan64 (b : n) =
  let v = Int64.of_string ("0x" ^ hex_of_n b) in
  Int64.logand v 0x7ff0000000000000L = 0x7ff0000000000000L && Int64.logand v 0xfffffffffffffL <> 0L

let pol c = if c = 'T' then PThrow else PSkip

let ity_of s =
  if s = "u1" then { i_signed = false; i_bits = n_of_int 1 } else
  let signed = (s.[0] = 's' || s.[0] = 'c') in
  let bits = int_of_string (String.sub s 1 (String.length s - 1)) in
  { i_signed = signed; i_bits = n_of_int bits }

let target_of s =
  match s with
  | "nil" -> TgNil | "f32" -> TgF32 | "f64" -> TgF64 | "str" -> TgStr | "ts" -> TgTs
  | "u1" | "u8" | "u16" | "u32" | "u64" | "c8" | "s8" | "s16" | "s32" | "s64" -> TgInt (ity_of s)
  | _ -> failwith "bad target"

let tail s = String.sub s 1 (String.length s - 1)

let key_of s =
  let b = tail s in
  match s.[0] with
  | 's' -> QStr (parse_hexbytes b)
  | 'u' -> QU (n_of_hex b)
  | 'i' -> QS (z_of_shex b)
  | 'f' -> QF32 (n_of_hex b)
  | 'd' -> QF64 (n_of_hex b)
  | 't' -> (match split_on '_' b with [a; c] -> QTs (z_of_shex a, z_of_shex c) | _ -> failwith "bad key")
  | _ -> failwith "bad key"

(* history parser: returns the items up to ")" or the end *)
let rec parse_obj (t : string list) : reqs * string list =
  match t with
  | [] -> (RNil, [])
  | ")" :: _ -> (RNil, t)
  | item :: rest ->
    let f = split_on ':' item in
    let (r, rest') =
      match f with
      | ["G"; k; tg] -> (RGet (key_of k, target_of tg), rest)
      | ["B"; k; n] -> (RBin (key_of k, nat_of_int (int_of_string n)), rest)
      | ["V"] -> (RVisit, rest)
      | ["O"; k] ->
        (match rest with
         | "(" :: r1 -> let (body, r2) = parse_obj r1 in
           (match r2 with ")" :: r3 -> (RObj (key_of k, body), r3) | _ -> failwith ") expected")
         | _ -> failwith "( expected")
      | ["A"; k] ->
        (match rest with
         | "(" :: r1 -> let (body, r2) = parse_arr r1 in
           (match r2 with ")" :: r3 -> (RArr (key_of k, body), r3) | _ -> failwith ") expected")
         | _ -> failwith "( expected")
      | ["E"] ->
        (match rest with
         | "(" :: r1 -> let (acts, r2) = parse_acts r1 in
           (match r2 with ")" :: r3 -> (REach acts, r3) | _ -> failwith ") expected")
         | _ -> failwith "( expected")
      | _ -> failwith "bad history item" in
    let (l, rest'') = parse_obj rest' in
    (RCons (r, l), rest'')
and parse_acts (t : string list) : vacts * string list =
  match t with
  | [] -> (VANil, [])
  | ")" :: _ -> (VANil, t)
  | item :: rest ->
    let f = split_on ':' item in
    let (a, rest') =
      match f with
      | ["k"] -> (VSkip, rest)
      | ["x"; c] -> (VThrow (SE (if c = "O" then EOverflow else EMismatch)), rest)
      | ["g"; tg] -> (VGet (target_of tg), rest)
      | ["b"; n] -> (VBin (nat_of_int (int_of_string n)), rest)
      | ["o"] ->
        (match rest with
         | "(" :: r1 -> let (body, r2) = parse_obj r1 in
           (match r2 with ")" :: r3 -> (VObj body, r3) | _ -> failwith ") expected")
         | _ -> failwith "( expected")
      | ["a"] ->
        (match rest with
         | "(" :: r1 -> let (body, r2) = parse_arr r1 in
           (match r2 with ")" :: r3 -> (VArr body, r3) | _ -> failwith ") expected")
         | _ -> failwith "( expected")
      | ["c"; n] ->
        (match rest with
         | "(" :: r1 -> let (body, r2) = parse_arr r1 in
           (match r2 with ")" :: r3 -> (VBinArr (nat_of_int (int_of_string n), body), r3) | _ -> failwith ") expected")
         | _ -> failwith "( expected")
      | _ -> failwith "bad callback action" in
    let (l, rest'') = parse_acts rest' in
    (VACons (a, l), rest'')
and parse_arr (t : string list) : areqs * string list =
  match t with
  | [] -> (ANil, [])
  | ")" :: _ -> (ANil, t)
  | item :: rest ->
    let f = split_on ':' item in
    let (a, rest') =
      match f with
      | ["g"; tg] -> (AGet (target_of tg), rest)
      | ["b"; n] -> (ABin (nat_of_int (int_of_string n)), rest)
      | ["e"] -> (AEnd, rest)
      | ["x"; c] -> (AThrow (match c with "R" -> SERange | "O" -> SE EOverflow | _ -> SE EMismatch), rest)
      | ["t"] ->
        (match rest with
         | "(" :: r1 -> let (body, r2) = parse_arr r1 in
           (match body, r2 with
            | ACons (a, ANil), ")" :: r3 -> (ATry a, r3)
            | _ -> failwith "t,(,one item,) expected")
         | _ -> failwith "( expected")
      | ["o"] ->
        (match rest with
         | "(" :: r1 -> let (body, r2) = parse_obj r1 in
           (match r2 with ")" :: r3 -> (AObj body, r3) | _ -> failwith ") expected")
         | _ -> failwith "( expected")
      | ["a"] ->
        (match rest with
         | "(" :: r1 -> let (body, r2) = parse_arr r1 in
           (match r2 with ")" :: r3 -> (AArr body, r3) | _ -> failwith ") expected")
         | _ -> failwith "( expected")
      | _ -> failwith "bad history item" in
    let (l, rest'') = parse_arr rest' in
    (ACons (a, l), rest'')

let f32_text b = if is_nan32 b then "nan" else hex_of_n b
let f64_text b = if is_nan64 b then "nan" else hex_of_n b

let key_text = function
  | KStr s -> "s" ^ fmt_hexbytes s
  | KInt z -> "i" ^ shex_of_z z
  | KF32 b -> "f" ^ f32_text b
  | KF64 b -> "d" ^ f64_text b
  | KTs (s, ns) -> "t" ^ shex_of_z s ^ "_" ^ shex_of_z ns

let value_text = function
  | VInt z -> shex_of_z z
  | VNil -> "nil"
  | VF32 b -> "f" ^ f32_text b
  | VF64 b -> "d" ^ f64_text b
  | VStr s -> "s" ^ fmt_hexbytes s
  | VTs (s, ns) -> "t" ^ shex_of_z s ^ "_" ^ shex_of_z ns

let tok_text = function
  | KVal v -> "T" ^ value_text v
  | KFalse -> "F"
  | KOpen -> "("
  | KClose -> ")"
  | KNone -> "n"
  | KByte b -> "x" ^ hex_of_n b
  | KKeys ks -> "K[" ^ String.concat ";" (List.map key_text ks) ^ "]"
  | KIsEnd b -> if b then "E1" else "E0"
  | KCaught -> "C"

let toks_text l = if l = [] then "-" else String.concat "," (List.map tok_text l)

let () =
  try
    while true do
      let line = input_line stdin in
      let t = Array.of_list (split_on ' ' line) in
      (try
        if Array.length t = 5 && (t.(0) = "hist" || t.(0) = "ahist") then begin
          let o = { o_mismatch = pol t.(2).[0]; o_overflow = pol t.(2).[1] } in
          let data = parse_hexbytes t.(3) in
          let total = List.length data in
          let items = if t.(4) = "-" then [] else split_on ',' t.(4) in
          let fin =
            if t.(0) = "hist" then begin
              let (h, rest) = parse_obj items in
              if rest <> [] then failwith "unbalanced )";
              run_obj_root narrow widen o data h
            end else begin
              let (h, rest) = parse_arr items in
              if rest <> [] then failwith "unbalanced )";
              run_arr_root narrow widen o data h
            end in
          let hidden = (t.(1) = "M" || t.(1) = "S") in
          print_endline
            (match fin with
             | Done (toks, rest, cf) ->
               let sent =
                 match read_int o s64 rest with
                 | ROk (v, _) -> "T" ^ shex_of_z v
                 | RNot _ -> "F"
                 | RErr e -> "ERR:" ^ err_cat e
                 | RFuel -> "FUEL" in
               Printf.sprintf "%s END %s %s %s" (toks_text toks)
                 (if hidden then "?" else string_of_int (total - List.length rest)) sent
                 (if hidden then (if cf then "ERR:P" else "OK") else (if cf then "CF1" else "CF0"))
             | Failed (toks, e) -> Printf.sprintf "%s ERR %s" (toks_text toks) (serr_cat e)
             | FFuel -> "FUEL"
             | FStale -> "STALE")
        end else if Array.length t = 5 && (t.(0) = "spec" || t.(0) = "aspec") then begin
          let o = { o_mismatch = pol t.(2).[0]; o_overflow = pol t.(2).[1] } in
          let data = parse_hexbytes t.(3) in
          let items = if t.(4) = "-" then [] else split_on ',' t.(4) in
          let show ((toks, e), clean) =
            match e with
            | None -> Printf.sprintf "%s END %d" (toks_text toks) (if clean then 1 else 0)
            | Some e -> Printf.sprintf "%s ERR %s %d" (toks_text toks) (serr_cat e) (if clean then 1 else 0) in
          let wrap ((toks, e), clean) = ((KOpen :: toks @ (if e = None then [KClose] else []), e), clean) in
          print_endline
            (match decode data with
             | None -> "NODOC"
             | Some (v, _) ->
               if not (doc_ok v) then "BADDOC" else
               (match v, t.(0) with
                | MMap kvs, "spec" -> let (h, _) = parse_obj items in show (wrap (spec_reqs narrow widen o kvs h))
                | MArr vs, "aspec" ->
                  let (h, _) = parse_arr items in
                  let (((toks, e), clean), left) = spec_areqs narrow widen o vs h in
                  show (wrap ((toks, e), clean && (e <> None || left = [])))
                | _ -> "NODOC"))
        end else print_endline "UNSUPPORTED"
      with Failure m -> Printf.printf "EXC %s\n" m
         | Invalid_argument m -> Printf.printf "EXC %s\n" m
         | Not_found -> print_endline "EXC notfound")
    done
  with End_of_file -> ()
