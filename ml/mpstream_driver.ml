(* mpstream_driver.ml — runs the extracted model of CMsgPackStreamReader (coq/MpStreamModel.v) on the
   reader lines of harness/drv_msgpack.cpp:
     r <kind> <pol> <op> [<int type>] <hexdata>        one call
     q <kind> <pol> <op,op,...> <hexdata>              a sequence of calls on one reader (int:<type>)
     p <kind> <pol> <op,op,...> <hexdata>              the same; an exception is answered ERR <cat> <position of the
                                                       reader after the throw> (kind s only: the string-reader model
                                                       of MpModel.v carries no position at a throw)
   kind s: the stream-reader programs, run three times: on the in-memory reader, on the chunked reader
           model with chunk size 8 and with chunk size 256 (over the modelled seekable istream).  The
           three must agree (T_C10mp_stream_equals_memory); the common answer is printed, otherwise
           MODEL-SPLIT with the three answers.
   kind s<K>: the stream-reader programs on the chunked reader model with chunk size K over the seekable stream: one
           run (also K < 8, where T_C10mp_stream_equals_memory does not hold: T_C10mp_small_chunk_witness).
   kind n<K>: the stream-reader programs on the chunked reader model with chunk size K over a stream WITHOUT seek
           support (stream_of data false): one run, the answer depends on K.
   kind m: the string-reader model (str_run), for reference.
     k n<K> <pol> <op,op,...> <hexdata>                the class of T_C10mp_nonseekable_outside: LOCAL when every SetPosition
                                                       of that run stays in the cached window (nonseek_ok), else NONLOCAL
   answers: OK <value> <position> | NOT <position> | ERR <cat>, joined by ';' for q lines *)

let err_cat = function EParse -> "P" | EMismatch -> "M" | EOverflow -> "O" | EInvalidArg -> "IA" | EInternal -> "STD"

(* C++ double -> float under ConvertByPolicy (range test, then static_cast) and float -> double *)
let narrow (bits : n) : n option =
  let d = Int64.float_of_bits (Int64.of_string ("0x" ^ hex_of_n bits)) in
  let fmax = Int32.float_of_bits 0x7f7fffffl in
  if d >= (-. fmax) && d <= fmax then
    Some (n_of_hex (Printf.sprintf "%lx" (Int32.bits_of_float d)))
  else None
let widen (bits : n) : n =
  let f = Int32.float_of_bits (Int32.of_string ("0x" ^ hex_of_n bits)) in
  n_of_hex (Printf.sprintf "%Lx" (Int64.bits_of_float f))

let is_nan32 (b : n) = let v = int_of_n b in (v land 0x7f800000) = 0x7f800000 && (v land 0x7fffff) <> 0
let is_nan64 (b : n) =
  let v = Int64.of_string ("0x" ^ hex_of_n b) in
  Int64.logand v 0x7ff0000000000000L = 0x7ff0000000000000L && Int64.logand v 0xfffffffffffffL <> 0L

let pol c = if c = 'T' then PThrow else PSkip

let vtype_code = function
  | TUnknown -> 0 | TNil -> 1 | TBool -> 2 | TUInt -> 3 | TSInt -> 4 | TFloat -> 5 | TDouble -> 6 | TStr -> 7
  | TArr -> 8 | TBin -> 9 | TMap -> 10 | TExt -> 11 | TTimestamp -> 12

let ity_of s =
  if s = "u1" then { i_signed = false; i_bits = n_of_int 1 } else
  let signed = (s.[0] = 's' || s.[0] = 'c') in
  let bits = int_of_string (String.sub s 1 (String.length s - 1)) in
  { i_signed = signed; i_bits = n_of_int bits }

let rop_of (name : string) (ty : string) : rop =
  match name with
  | "int" -> RdInt (ity_of ty)
  | "nil" -> RdNil | "f32" -> RdF32 | "f64" -> RdF64 | "str" -> RdStr | "arr" -> RdArr | "map" -> RdMap
  | "bin" -> RdBin | "byte" -> RdByte | "ts" -> RdTs | "type" -> RdType | "skip" -> RdSkip
  | "end" -> RdIsEnd
  | "seek" -> RdSetPos (n_of_int (int_of_string ty))
  | _ -> failwith "unknown reader op"

let fmt_val (name : string) (v : rval) : string =
  match name, v with
  | "int", VInt z -> shex_of_z z
  | "nil", VUnit -> "nil"
  | "f32", VNum b -> if is_nan32 b then "nan" else hex_of_n b
  | "f64", VNum b -> if is_nan64 b then "nan" else hex_of_n b
  | "str", VBytes l -> fmt_hexbytes l
  | ("arr" | "map" | "bin" | "byte"), VNum x -> hex_of_n x
  | "ts", VTs (s, ns) -> shex_of_z s ^ "," ^ shex_of_z ns
  | "type", VType t -> string_of_int (vtype_code t)
  | "skip", VUnit -> "-"
  | "seek", VUnit -> "-"
  | "end", VBool b -> if b then "1" else "0"
  | _ -> failwith "answer of the wrong kind"

let fmt_answers (names : string list) (l : ans list) : string =
  let rec go names l acc =
    match names, l with
    | _, [] -> List.rev acc
    | name :: tl, a :: rest ->
      let s = (match a with
               | AOkAt (v, p) -> Printf.sprintf "OK %s %d" (fmt_val name v) (int_of_n p)
               | ANotAt p -> Printf.sprintf "NOT %d" (int_of_n p)
               | AErrOf e -> "ERR " ^ err_cat e
               | AIOErr -> "ERR IO"
               | AFuelOut -> "FUEL") in
      go tl rest (s :: acc)
    | [], _ -> failwith "more answers than operations" in
  String.concat ";" (go names l [])

let () =
  try
    while true do
      let line = input_line stdin in
      let t = Array.of_list (split_on ' ' line) in
      (try
        if t.(0) = "r" || t.(0) = "q" || t.(0) = "p" || t.(0) = "k" then begin
          let errpos = (t.(0) = "p") in
          let o = { o_mismatch = pol t.(2).[0]; o_overflow = pol t.(2).[1] } in
          let data = parse_hexbytes t.(Array.length t - 1) in
          let fuel = nat_of_int (List.length data + 1) in
          let specs : (string * string) list =
            if t.(0) = "r" then [ (t.(3), if Array.length t > 5 then t.(4) else "") ]
            else List.map (fun op ->
                   match String.index_opt op ':' with
                   | Some i -> (String.sub op 0 i, String.sub op (i + 1) (String.length op - i - 1))
                   | None -> (op, "")) (split_on ',' t.(3)) in
          let names = List.map fst specs in
          let ops = List.map (fun (a, b) -> rop_of a b) specs in
          let show = function
            | Ok (l, pos) ->
              let s = fmt_answers names l in
              let threw = (match List.rev l with (AErrOf _ | AIOErr) :: _ -> true | _ -> false) in
              if errpos && threw then s ^ " " ^ string_of_int (int_of_n pos) else s
            | Fault -> "FAULT" in
          if t.(0) = "k" && t.(1) = "class" then begin
            (* k class <pol> <ops> <hex>: the client classes of T_C10mp_nonseekable_forward_client / _lookahead_client *)
            print_endline (if List.for_all forward_op ops then "FORWARD"
                           else if lookahead_free narrow widen data o ops data then "LOOKAHEAD-FREE" else "OTHER")
          end else if t.(0) = "k" then begin
            let k = int_of_string (String.sub t.(1) 1 (String.length t.(1) - 1)) in
            print_endline (if nonseek_ok narrow widen (nat_of_int k) data fuel o ops then "LOCAL" else "NONLOCAL")
          end else if t.(1) = "m" then begin
            if errpos then print_endline "UNSUPPORTED"
            else print_endline (fmt_answers names (str_run narrow widen data o ops))
          end else if t.(1).[0] = 's' && String.length t.(1) > 1 then begin
            let k = int_of_string (String.sub t.(1) 1 (String.length t.(1) - 1)) in
            print_endline (show (mps_run_bsr_pos narrow widen (nat_of_int k) (stream_of data true) fuel o ops))
          end else if t.(1).[0] = 'n' then begin
            let k = int_of_string (String.sub t.(1) 1 (String.length t.(1) - 1)) in
            print_endline (show (mps_run_bsr_pos narrow widen (nat_of_int k) (stream_of data false) fuel o ops))
          end else begin
            let a_mem = show (mps_run_mem_pos narrow widen (nat_of_int 256) data fuel o ops) in
            let a_k8 = show (mps_run_bsr_pos narrow widen (nat_of_int 8) (stream_of data true) fuel o ops) in
            let a_k256 = show (mps_run_bsr_pos narrow widen (nat_of_int 256) (stream_of data true) fuel o ops) in
            if a_mem = a_k8 && a_mem = a_k256 then print_endline a_mem
            else Printf.printf "MODEL-SPLIT mem=[%s] k8=[%s] k256=[%s]\n" a_mem a_k8 a_k256
          end
        end else print_endline "UNSUPPORTED"
      with Failure m -> Printf.printf "EXC %s\n" m
         | Invalid_argument m -> Printf.printf "EXC %s\n" m
         | Not_found -> print_endline "EXC notfound")
    done
  with End_of_file -> ()
