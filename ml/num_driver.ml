(* num_driver.ml — runs the extracted num model (and, with the prefix "spec", the extracted
   specification) on the line protocol of harness/drv_num.cpp *)

exception Unsupported
exception NoModel

(* arithmetic types of the protocol: the ten integer types and the two floating types *)
type aty = AInt of ity | AF32 | AF64
(* values: integers as Z, floats as Flocq binary32 / binary64 *)
type aval = VInt of z | V32 of binary32 | V64 of binary64

let ity_of = function
  | "bool" -> TBool | "char" -> TChar | "i8" -> TI8 | "u8" -> TU8 | "i16" -> TI16 | "u16" -> TU16
  | "i32" -> TI32 | "u32" -> TU32 | "i64" -> TI64 | "u64" -> TU64
  | "f32" | "f64" -> raise NoModel
  | _ -> raise Unsupported
let int_types = [ "bool"; "char"; "i8"; "u8"; "i16"; "u16"; "i32"; "u32"; "i64"; "u64" ]
let width_of = function "8" -> W8 | "16" -> W16 | "32" | "wc" -> W32 | _ -> raise Unsupported
let pol_of = function "S" -> PSkip | _ -> PThrow

let aty_of = function "f32" -> AF32 | "f64" -> AF64 | s -> AInt (ity_of s)

let pad n s = if String.length s >= n then s else String.make (n - String.length s) '0' ^ s
let fmt_aval = function
  | VInt v -> hex_of_z v
  | V32 x -> if f32_is_nan x then "NAN" else pad 8 (hex_of_z (bits_of_b32 x))
  | V64 x -> if f64_is_nan x then "NAN" else pad 16 (hex_of_z (bits_of_b64 x))
let fmt_val (t : ity) (v : z) = hex_of_z v
let fmt_cres (f : 'a -> string) (r : 'a cres) : string =
  match r with
  | COk v -> "OK " ^ f v
  | COutOfRange -> "OOR"
  | CInvalidArgument -> "INV"
  | COther -> "OTHER"
  | CUB -> "UB"
let fmt_load (f : 'a -> string) (old : 'a) (r : 'a load_res) : string =
  match r with
  | Loaded v -> "LOADED " ^ f v
  | NotLoaded o -> "NOTLOADED " ^ f o
  | Raised EOverflow -> "EXC Overflow " ^ f old
  | Raised EMismatchedTypes -> "EXC MismatchedTypes " ^ f old
  | Raised EParsingError -> "EXC ParsingError " ^ f old
  | LoadUB -> "UB"
let fmt_bool b = if b then "1" else "0"

let in_range t v = in_rangeb t v
let checked t v = if in_range t v then v else failwith "BADCASE range"

(* i-th value of a type counted from its minimum *)
let nth_value (t : ity) (i : int) : z = Z.add (lo t) (z_of_int i)

let map_cres (f : 'a -> 'b) (r : 'a cres) : 'b cres =
  match r with COk v -> COk (f v) | COutOfRange -> COutOfRange | CInvalidArgument -> CInvalidArgument
             | COther -> COther | CUB -> CUB

let aval_of (t : aty) (s : string) : aval =
  match t with
  | AInt i -> let v = z_of_hex s in if in_rangeb i v then VInt v else failwith "BADCASE range"
  | AF32 -> V32 (b32_of_bits (z_of_hex s))
  | AF64 -> V64 (b64_of_bits (z_of_hex s))

(* Convert::To<T>(S value) for every pair of arithmetic types, as the C++ dispatches it *)
let conv_any (s : aty) (t : aty) (v : aval) : aval cres =
  match s, t, v with
  | AInt a, AInt b, VInt z -> map_cres (fun x -> VInt x) (conv a b z)
  | AInt a, AF32, VInt z -> map_cres (fun x -> V32 x) (conv_int_f32 a z)
  | AInt a, AF64, VInt z -> map_cres (fun x -> V64 x) (conv_int_f64 a z)
  | AF32, AF32, _ | AF64, AF64, _ -> COk v                            (* std::is_same_v: plain copy *)
  | AF32, AF64, V32 x -> map_cres (fun y -> V64 y) (conv_f32_f64 x)
  | AF64, AF32, V64 x -> map_cres (fun y -> V32 y) (conv_f64_f32 x)
  | (AF32 | AF64), AInt _, _ -> CInvalidArgument                     (* throw std::invalid_argument *)
  | _ -> failwith "BADCASE value kind"

let op_conv spec s t v = if spec then fmt_cres hex_of_z (conv_spec t v) else fmt_cres hex_of_z (conv s t v)
let op_policy spec s t v old ovf mism =
  if spec then fmt_load hex_of_z old (policy_spec (conv_spec t v) old mism ovf)
  else fmt_load hex_of_z old (load_int s t v old mism ovf)
let op_parse spec t w units =
  match t with
  | TBool -> fmt_cres fmt_bool (if spec then bool_spec units else parse_bool units)
  | _ -> fmt_cres hex_of_z (if spec then classify_spec t units else parse_num t w units)
let op_tostr spec t w v out0 =
  if spec then
    (match t with
     | TBool -> "OK " ^ fmt_list (out0 @ bool_text (not (v = Z0)))
     | _ -> (match to_dec v with Some s -> "OK " ^ fmt_list (out0 @ s) | None -> "OUTOFFUEL"))
  else fmt_cres fmt_list (to_text t w v out0)
let op_stdfc t units =
  let r = from_chars_int t units in
  let ec = (match r.fc_ec with EcOk -> "ok" | EcInvalidArgument -> "inv" | EcResultOutOfRange -> "oor") in
  Printf.sprintf "%s %d %s" ec (int_of_nat r.fc_ptr) (match r.fc_val with Some v -> hex_of_z v | None -> "-")
let op_stdtc t cap v =
  match to_chars_int (nat_of_int cap) v with Some s -> "OK " ^ fmt_list s | None -> "TOOLARGE"

let nontrivial = ref 0
let fold h (ans : string) =
  String.iter (fun c -> hash_add h (Char.code c)) ans;
  hash_add h 0x100; hash_tick h;
  if not (starts_with "OK " ans || starts_with "LOADED " ans) then incr nontrivial

let hexint s = int_of_string ("0x" ^ s)

let run_line (line : string) : string =
  let t0 = Array.of_list (split_on ' ' line) in
  let spec = t0.(0) = "spec" in
  let t = if spec then Array.sub t0 1 (Array.length t0 - 1) else t0 in
  match t.(0) with
  | "conv" when (match aty_of t.(1), aty_of t.(2) with AInt _, AInt _ -> false | _ -> true) ->
    if spec then raise NoModel;
    let s = aty_of t.(1) and d = aty_of t.(2) in
    fmt_cres fmt_aval (conv_any s d (aval_of s t.(3)))
  | "policy" when (match aty_of t.(1), aty_of t.(2) with AInt _, AInt _ -> false | _ -> true) ->
    if spec then raise NoModel;
    let s = aty_of t.(1) and d = aty_of t.(2) in
    let old = aval_of d t.(4) in
    fmt_load fmt_aval old (convert_by_policy true (conv_any s d (aval_of s t.(3))) old (pol_of t.(6)) (pol_of t.(5)))
  | "policyx" when (match aty_of t.(1) with AInt _ -> false | _ -> true) ->
    if spec then raise NoModel;
    let d = aty_of t.(1) in
    let old = aval_of d t.(2) in
    fmt_load fmt_aval old (convert_by_policy false (COk old) old (pol_of t.(4)) (pol_of t.(3)))
  | "conv" ->
    let s = ity_of t.(1) and d = ity_of t.(2) in
    op_conv spec s d (checked s (z_of_hex t.(3)))
  | "policy" ->
    let s = ity_of t.(1) and d = ity_of t.(2) in
    op_policy spec s d (checked s (z_of_hex t.(3))) (checked d (z_of_hex t.(4))) (pol_of t.(5)) (pol_of t.(6))
  | "policyx" ->
    let d = ity_of t.(1) in
    let old = checked d (z_of_hex t.(2)) in
    let ovf = pol_of t.(3) and mism = pol_of t.(4) in
    if spec then fmt_load hex_of_z old (policy_spec_other_kind old mism)
    else fmt_load hex_of_z old (convert_by_policy false (COk Z0) old mism ovf)
  | "policys" ->
    let w = width_of t.(1) and d = ity_of t.(2) in
    let units = parse_list t.(3) in
    let old = checked d (z_of_hex t.(4)) in
    let ovf = pol_of t.(5) and mism = pol_of t.(6) in
    (match d with
     | TBool ->
       let r = (if spec then bool_spec units else parse_bool units) in
       let r' = (match r with COk b -> COk (if b then Zpos XH else Z0) | COutOfRange -> COutOfRange
                            | CInvalidArgument -> CInvalidArgument | COther -> COther | CUB -> CUB) in
       fmt_load hex_of_z old (if spec then policy_spec r' old mism ovf else convert_by_policy true r' old mism ovf)
     | _ ->
       let r = (if spec then classify_spec d units else parse_num d w units) in
       fmt_load hex_of_z old (if spec then policy_spec r old mism ovf else convert_by_policy true r old mism ovf))
  | "num.tostr" ->
    let d = ity_of t.(1) and w = width_of t.(2) in
    op_tostr spec d w (checked d (z_of_hex t.(3))) (parse_list t.(4))
  | "num.parse" -> op_parse spec (ity_of t.(1)) (width_of t.(2)) (parse_list t.(3))
  | "bool.parse" -> op_parse spec TBool (width_of t.(1)) (parse_list t.(2))
  | "stdfc" -> let d = ity_of t.(1) in if d = TBool then "UNSUPPORTED" else op_stdfc d (parse_list t.(2))
  | "stdtc" -> let d = ity_of t.(1) in if d = TBool then "UNSUPPORTED" else op_stdtc d (int_of_string t.(2)) (checked d (z_of_hex t.(3)))
  | "sweepconv" | "sweeppol" ->
    let s = ity_of t.(1) in
    let lo = hexint t.(2) and hi = hexint t.(3) in
    let h = hash_new () in
    nontrivial := 0;
    let one = Zpos XH in
    for i = lo to hi - 1 do
      let v = nth_value s i in
      List.iter (fun tn ->
        let d = ity_of tn in
        if t.(0) = "sweepconv" then fold h (op_conv false s d v)
        else for p = 0 to 3 do
          fold h (op_policy false s d v one (if p land 1 <> 0 then PThrow else PSkip) (if p land 2 <> 0 then PThrow else PSkip))
        done) int_types
    done;
    Printf.sprintf "H %d %d %d" h.h h.cnt !nontrivial
  | "sweeptext" ->
    let d = ity_of t.(1) and w = width_of t.(2) in
    let lo = hexint t.(3) and hi = hexint t.(4) in
    let h = hash_new () in
    nontrivial := 0;
    for i = lo to hi - 1 do
      let v = nth_value d i in
      let txt = to_text d w v [] in
      fold h (fmt_cres fmt_list txt);
      let units = (match txt with COk u -> u | _ -> []) in
      if d = TBool then fold h (op_parse false TBool w units)
      else List.iter (fun tn -> fold h (op_parse false (ity_of tn) w units)) [ "char"; "i8"; "u8"; "i16"; "u16" ]
    done;
    Printf.sprintf "H %d %d %d" h.h h.cnt !nontrivial
  | "sweepstd" ->
    let d = ity_of t.(1) in
    if d = TBool then "UNSUPPORTED" else begin
      let lo = hexint t.(2) and hi = hexint t.(3) in
      let h = hash_new () in
      nontrivial := 0;
      for i = lo to hi - 1 do
        let v = nth_value d i in
        let txt = (match to_chars_int (nat_of_int 42) v with Some s -> s | None -> []) in
        fold h ("OK " ^ fmt_list txt);
        List.iter (fun tn -> if tn <> "bool" then fold h (op_stdfc (ity_of tn) txt)) int_types
      done;
      Printf.sprintf "H %d %d %d" h.h h.cnt !nontrivial
    end
  | "fp.rt" | "fp.parse" | "sweepfp" -> raise NoModel
  | _ -> raise Unsupported

let () =
  try
    while true do
      let line = input_line stdin in
      let ans =
        (try run_line line
         with Unsupported -> "UNSUPPORTED"
            | NoModel -> "NOMODEL"
            | Failure m -> if starts_with "BADCASE" m then m else "EXC " ^ m
            | Invalid_argument m -> "EXC " ^ m
            | Not_found -> "EXC not_found") in
      print_string ans; print_char '\n'
    done
  with End_of_file -> ()
