(* stream_driver.ml — runs the extracted stream models on the line protocol of harness/drv_stream.cpp.
   The stream kind (s / c<k> / n<k>) only selects seekable or not: how the streambuf delivers its
   bytes is not observable in the model (is_read), which is exactly what the implementation driver
   tests with its short-read streambufs. *)

let seekable_of kind = kind.[0] <> 'n'

let type_name = function
  | Utf8 -> "utf8" | Utf16le -> "utf16le" | Utf16be -> "utf16be" | Utf32le -> "utf32le" | Utf32be -> "utf32be"
let type_of = function
  | "utf8" -> Utf8 | "utf16le" -> Utf16le | "utf16be" -> Utf16be | "utf32le" -> Utf32le | "utf32be" -> Utf32be
  | _ -> failwith "type"
let width_of_int = function 8 -> W8 | 16 -> W16 | 32 -> W32 | _ -> failwith "width"
let hexbyte x = Printf.sprintf "%02x" (int_of_n x)

let tail s = String.sub s 1 (String.length s - 1)

(* ---- is *)
let op_is kind data ops =
  if ops = "-" then "-" else begin
    let st = ref (stream_of data (seekable_of kind)) in
    let one o =
      match o.[0] with
      | 'r' ->
        let n = int_of_string (tail o) in
        let (got, s1) = is_read (nat_of_int n) !st in
        st := s1;
        Printf.sprintf "r:%s:%d" (fmt_hexbytes got) (int_of_nat s1.is_gcount)
      | 'p' -> let (b, s1) = is_peek !st in st := s1; (match b with Some x -> "p:" ^ hexbyte x | None -> "p:-")
      | 's' -> st := is_seekg (z_of_int (int_of_string (tail o))) !st; "s"
      | 't' -> let (z, s1) = is_tellg !st in st := s1; Printf.sprintf "t:%d" (int_of_z z)
      | 'c' -> st := is_clear !st; "c"
      | 'e' -> if !st.is_eof then "e:1" else "e:0"
      | 'f' -> if !st.is_fail then "f:1" else "f:0"
      | _ -> failwith "is op" in
    String.concat " " (List.map one (split_on ',' ops))
  end

(* ---- bsr *)
let parse_bop o =
  match o.[0] with
  | 'e' -> OIsEnd | 'f' -> OIsFailed | 'g' -> OGetPos | 's' -> OSetPos (n_of_dec (tail o))
  | 'p' -> OPeek | 'n' -> OGoto | 'b' -> OReadByte | 'k' -> OSolid (n_of_dec (tail o)) | 'c' -> OChunks (n_of_dec (tail o))
  | _ -> failwith "bsr op"

let fmt_bres op r =
  match op, r with
  | OIsEnd, RBool b -> if b then "e:1" else "e:0"
  | OIsFailed, RBool b -> if b then "f:1" else "f:0"
  | OGetPos, RPos p -> Printf.sprintf "g:%d" (int_of_nat p)
  | OSetPos _, RBool b -> if b then "s:1" else "s:0"
  | OPeek, RByte o -> (match o with Some x -> "p:" ^ hexbyte x | None -> "p:-")
  | OGoto, RUnit -> "n"
  | OReadByte, RByte o -> (match o with Some x -> "b:" ^ hexbyte x | None -> "b:-")
  | OSolid _, RBlock l -> "k:" ^ fmt_hexbytes l
  | OChunks _, RBlock l -> "c:" ^ fmt_hexbytes l
  | _ -> "?"

(* parse an implementation answer token back into a result (for the judge op) *)
let parse_bres tok =
  let v = if String.length tok > 2 then String.sub tok 2 (String.length tok - 2) else "" in
  match tok.[0] with
  | 'e' | 'f' | 's' -> RBool (v = "1")
  | 'g' -> RPos (nat_of_int (int_of_string v))
  | 'p' | 'b' -> RByte (if v = "-" then None else Some (n_of_hex v))
  | 'n' -> RUnit
  | 'k' | 'c' -> RBlock (parse_hexbytes v)
  | _ -> failwith "bres"

let op_bsr k kind data ops =
  if ops = "-" then "-" else begin
    let bops = List.map parse_bop (split_on ',' ops) in
    match bsr_run (nat_of_int k) (stream_of data (seekable_of kind)) bops with
    | Fault -> "FAULT"
    | Ok rs -> String.concat " " (List.map2 fmt_bres bops rs)
  end

let op_blob k kind data skip n =
  let kk = nat_of_int k in
  let s0 = bsr_new kk (stream_of data (seekable_of kind)) in
  let (ok, s1) = bsr_set_position kk s0 (n_of_int skip) in
  if not ok then "SEEKFAIL" else
  match bsr_read_blob kk (nat_of_int (n + 1)) s1 (n_of_int n) [] with
  | Fault -> "FAULT"
  | Ok (None, _) -> "END"
  | Ok (Some acc, s2) -> Printf.sprintf "OK %s %d" (fmt_hexbytes acc) (int_of_nat (bsr_get_position s2))

(* ---- esr *)
let op_esr k tgt pol kind data =
  let cap = 4 * List.length data + 16 in
  let w = width_of_int tgt in
  match esr_run (nat_of_int k) w pol (default_mark w) (nat_of_int cap) (stream_of data (seekable_of kind)) with
  | RunFault -> "FAULT"
  | RunHang -> "HANG"
  | RunDone (rs, out, ty) ->
    let rc = String.concat "" (List.map (function ChSuccess -> "S" | ChDecodeError -> "D" | ChEndFile -> "E") rs) in
    Printf.sprintf "%s %s %s" rc (fmt_list out) (type_name ty)

let rec take n l = if n = 0 then [] else match l with [] -> [] | x :: t -> x :: take (n - 1) t

let fold_line h s = String.iter (fun c -> hash_add h (Char.code c)) s; hash_tick h

(* ---- esw *)
let op_esw enc bom pol pieces =
  let ps = if pieces = "-" then [] else
    List.map (fun p ->
      let i = String.index p ':' in
      (width_of_int (int_of_string (String.sub p 0 i)), parse_list (String.sub p (i + 1) (String.length p - i - 1))))
      (split_on '|' pieces) in
  let (cs, out) = esw_run (type_of enc) bom pol ps in
  let codes = String.concat "" (List.map (function Success -> "S" | InvalidSequence -> "I" | UnexpectedEnd -> "U" | OutOfFuel -> "F") cs) in
  Printf.sprintf "%s %s" (if codes = "" then "-" else codes) (fmt_hexbytes out)

let supported_k k = k = 32 || k = 64 || k = 256

let () =
  try
    while true do
      let line = input_line stdin in
      let t = Array.of_list (split_on ' ' line) in
      (try
        match t.(0) with
        | "is" -> print_endline (op_is t.(1) (parse_hexbytes t.(2)) t.(3))
        | "bsr" -> print_endline (op_bsr (int_of_string t.(1)) t.(2) (parse_hexbytes t.(3)) t.(4))
        | "blob" -> print_endline (op_blob (int_of_string t.(1)) t.(2) (parse_hexbytes t.(3)) (int_of_string t.(4)) (int_of_string t.(5)))
        | "bsrjudge" ->
          (* bsrjudge <K> <hex> <ops> <answer tokens...>: does the reference in-memory reader accept this trace? *)
          let k = int_of_string t.(1) and data = parse_hexbytes t.(2) in
          let bops = if t.(3) = "-" then [] else List.map parse_bop (split_on ',' t.(3)) in
          let rs = if t.(3) = "-" then [] else List.map parse_bres (Array.to_list (Array.sub t 4 (Array.length t - 4))) in
          print_endline (if List.length rs = List.length bops && mem_accepts (nat_of_int k) data mem_start bops rs then "ACCEPT" else "REJECT")
        | "detect" ->
          (match detect (parse_hexbytes t.(1)) with
           | Fault -> print_endline "FAULT"
           | Ok (e, off) -> Printf.printf "%s %d\n" (type_name e) (int_of_nat off))
        | "detect.stream" | "detect.at" ->
          let at = t.(0) = "detect.at" in
          let s0 = stream_of (parse_hexbytes t.(if at then 4 else 3)) (seekable_of t.(2)) in
          let s0 = if at then snd (is_read (nat_of_int (int_of_string t.(3))) s0) else s0 in
          (match detect_stream (t.(1) = "1") s0 with
           | Fault -> print_endline "FAULT"
           | Ok (e, s) ->
             let eof = s.is_eof and fail = s.is_fail in
             let (z, s1) = is_tellg s in
             let (got, _) = is_read (nat_of_int 4) s1 in
             Printf.printf "%s e:%d f:%d t:%d r:%s\n" (type_name e) (if eof then 1 else 0) (if fail then 1 else 0) (int_of_z z) (fmt_hexbytes got))
        | "esr" ->
          let k = int_of_string t.(1) in
          if not (supported_k k) then print_endline "UNSUPPORTED" else
          print_endline (op_esr k (int_of_string t.(2)) (if t.(3) = "S" then Skip else ThrowError) t.(4) (parse_hexbytes t.(5)))
        | "esrcuts" ->
          let k = int_of_string t.(1) in
          if not (supported_k k) then print_endline "UNSUPPORTED" else begin
            let tgt = int_of_string t.(2) and pol = (if t.(3) = "S" then Skip else ThrowError) in
            let data = parse_hexbytes t.(5) in
            let lo = int_of_string t.(6) and hi = int_of_string t.(7) in
            let h = hash_new () and nontrivial = ref 0 in
            let len = List.length data in
            let n = ref lo in
            while !n < hi && !n <= len do
              let a = op_esr k tgt pol t.(4) (take !n data) in
              if String.length a < 2 || String.sub a 0 2 <> "SE" then incr nontrivial;
              fold_line h a;
              incr n
            done;
            Printf.printf "H %d %d %d\n" h.h h.cnt !nontrivial
          end
        | "esw" -> print_endline (op_esw t.(1) (t.(2) = "1") (if t.(3) = "S" then Skip else ThrowError) t.(4))
        | _ -> print_endline "UNSUPPORTED"
      with Failure m -> Printf.printf "EXC %s\n" m
         | Invalid_argument m -> Printf.printf "EXC %s\n" m
         | Not_found -> print_endline "EXC notfound")
    done
  with End_of_file -> ()
