(* utf_driver.ml — runs the extracted UTF model on the line protocol of harness/drv_utf.cpp *)

let width_of_int = function 8 -> W8 | 16 -> W16 | 32 -> W32 | _ -> failwith "width"
let code_char = function Success -> 'S' | InvalidSequence -> 'I' | UnexpectedEnd -> 'U' | OutOfFuel -> 'F'

let default_mark = function W8 -> List.map n_of_int [0xE2; 0x98; 0x90] | _ -> [n_of_int 0x2610]

exception Unsupported

(* class name -> (width, endian) *)
let cls_of s =
  match s with
  | "8" -> (W8, LE) | "16" | "16le" -> (W16, LE) | "16be" -> (W16, BE)
  | "32" | "32le" -> (W32, LE) | "32be" -> (W32, BE) | _ -> raise Unsupported

let dispatch op x y pol mark_kind mark out0 inp : result =
  match op with
  | "tr" ->
    let s = width_of_int (int_of_string x) and d = width_of_int (int_of_string y) in
    let m = (match mark_kind with 0 -> default_mark d | 1 -> [] | _ -> mark) in
    transcode s d pol m inp out0
  | "dec" ->
    let (s, e) = cls_of x and d = width_of_int (int_of_string y) in
    if s = W8 && d = W8 then raise Unsupported;
    let m = (match mark_kind with 0 -> default_mark d | 1 -> [] | _ -> mark) in
    class_decode s e d pol m inp out0
  | "enc" ->
    let (d, e) = cls_of x and s = width_of_int (int_of_string y) in
    if s = W8 && d = W8 then raise Unsupported;
    let m = (match mark_kind with 0 -> default_mark d | 1 -> [] | _ -> mark) in
    class_encode d e s pol m inp out0
  | _ -> raise Unsupported

let src_width op x y =
  match op with
  | "tr" -> width_of_int (int_of_string x)
  | "dec" -> fst (cls_of x)
  | _ -> width_of_int (int_of_string y)
let src_swapped op x = op = "dec" && String.length x > 2 && String.sub x (String.length x - 2) 2 = "be"

let swap_unit w u =
  match w with
  | W16 -> ((u land 0xFF) lsl 8) lor ((u lsr 8) land 0xFF)
  | W32 -> ((u land 0xFF) lsl 24) lor ((u land 0xFF00) lsl 8) lor ((u lsr 8) land 0xFF00) lor ((u lsr 24) land 0xFF)
  | W8 -> u

let a16 = [| 0x0; 0x41; 0x7F; 0x80; 0x7FF; 0x800; 0xD7FF; 0xD800; 0xD801; 0xDBFE; 0xDBFF; 0xDC00; 0xDC01; 0xDFFE; 0xDFFF; 0xE000; 0xFFFD; 0xFFFE; 0xFFFF |]
let a32 = [| 0x0; 0x41; 0x7F; 0x80; 0x7FF; 0x800; 0xD7FF; 0xD800; 0xDBFF; 0xDC00; 0xDFFF; 0xE000; 0xFFFF; 0x10000; 0x10FFFF; 0x110000; 0x1FFFFF; 0x200000; 0x7FFFFFFF; 0x80000000; 0xFFFFFFFF |]

let nontrivial = ref 0
let fold h (r : result) =
  if r.r_code <> Success || int_of_nat r.r_cnt <> 0 || List.length r.r_out <> int_of_nat r.r_pos then incr nontrivial;
  hash_add h (Char.code (code_char r.r_code)); hash_add h (int_of_nat r.r_pos); hash_add h (int_of_nat r.r_cnt);
  hash_add h (List.length r.r_out);
  List.iter (fun x -> hash_add h (int_of_n x)) r.r_out;
  hash_tick h

let () =
  try
    while true do
      let line = input_line stdin in
      let t = Array.of_list (split_on ' ' line) in
      (try
        let op = t.(0) in
        if op = "sweepcp" || op = "sweepu" then begin
          let sop = t.(1) and x = t.(2) and y = t.(3) in
          let pol = if t.(4) = "S" then Skip else ThrowError in
          let sw = src_width sop x y and swp = src_swapped sop x in
          let h = hash_new () in
          nontrivial := 0;
          let run units =
            let units = if swp then List.map (swap_unit sw) units else units in
            fold h (dispatch sop x y pol 0 [] [] (List.map n_of_int units)) in
          if op = "sweepcp" then begin
            let lo = int_of_string ("0x" ^ t.(5)) and hi = int_of_string ("0x" ^ t.(6)) in
            for c = lo to hi - 1 do
              if not (c >= 0xD800 && c < 0xE000) then
                run (List.map int_of_n (enc sw (n_of_int c)))
            done
          end else begin
            let len = int_of_string t.(5) in
            let lo = int_of_string ("0x" ^ t.(6)) and hi = int_of_string ("0x" ^ t.(7)) in
            for i = lo to hi - 1 do
              let a = Array.make len 0 in
              let v = ref i in
              for k = len - 1 downto 0 do
                (match sw with
                 | W8 -> a.(k) <- !v mod 256; v := !v / 256
                 | W16 -> a.(k) <- a16.(!v mod Array.length a16); v := !v / Array.length a16
                 | W32 -> a.(k) <- a32.(!v mod Array.length a32); v := !v / Array.length a32)
              done;
              run (Array.to_list a)
            done
          end;
          Printf.printf "H %d %d %d\n" h.h h.cnt !nontrivial
        end else begin
          let pol = if t.(3) = "S" then Skip else ThrowError in
          let mark_kind = (match t.(4) with "d" -> 0 | "n" -> 1 | _ -> 2) in
          let mark = if mark_kind = 2 then parse_list t.(4) else [] in
          let r = dispatch op t.(1) t.(2) pol mark_kind mark (parse_list t.(5)) (parse_list t.(6)) in
          Printf.printf "%c %d %d %s\n" (code_char r.r_code) (int_of_nat r.r_pos) (int_of_nat r.r_cnt) (fmt_list r.r_out)
        end
      with Unsupported -> print_string "UNSUPPORTED\n"
         | Failure m -> Printf.printf "EXC %s\n" m
         | Invalid_argument m -> Printf.printf "EXC %s\n" m)
    done
  with End_of_file -> ()
