"""C01 — save then load reproduces the value, in every archive and output configuration; load-save-load is a fixed point.

Decision structure (DESIGN.md 4, C01):
  * theorems T_C01_* (coq/Properties_C01.v): round trip on the MODELS of the library's own codecs (MsgPack value and tree level,
    CSV table level for every separator / quoting, UTF encoded stream writer+reader for every encoding/BOM/chunk size, integer
    text), and the JSON/XML adapter models of the jx family; each model is tied to /repo by its own family's correspondence
    (C06/C07, C09, C13, C11, C16, C08), which this check does not repeat;
  * this run: the property itself as the oracle on the real implementation, end to end through the PUBLIC API
    (SaveObject / LoadObject) for a catalogue of ~55 types x 4 archives x {string, stream} x 5 encodings x BOM x formatting x
    CSV separators, values from a seeded generator that stays inside what each format can carry, built with ASan+UBSan;
    second half of the property: documents (the library's own output re-rendered by independent writers: other number
    widths, escapes, white space, quoting) are loaded, saved and loaded again.
Known findings are decidable classes (feature letter x archive x types x answer); their witnesses are replayed on every run."""
import json as pyjson
import re
import mp_common as M

LEVEL = "proof"
EXTRA_PROPERTIES = ["C01mp", "C01s", "C01jx", "C01enum"]     # MsgPack typed load/save round trip (mpscope family), JSON / XML adapter round trip (jx family), enum <-> name conversion (enum family)
TRUSTED_BASE = [
    "Coq 8.16.1 kernel incl. vm_compute; theorems of coq/Properties_C01.v (assumptions printed per theorem in this evidence)",
    "the models are tied to /repo by the correspondences of their own families, run by the checks C06/C07 (MsgPack writer, reader, typed save), C09 (CSV), C13/C11 (encoded streams, UTF), C16 (number text), C08 (JSON/XML adapters); C01 does not repeat them",
    "NOT modelled: the generic serialization layer for std containers / classes / optional / smart pointers / tuple / chrono on the LOAD side for archives other than MsgPack, RapidJSON and pugixml themselves (third party; the jx family models only the adapter code around them): for those the round trip is decided by the end-to-end exploration of the implementation only (property as its own oracle) - partial",
    "harness/drv_rt.cpp (generators, equality: bit patterns for float/double in MsgPack; any-NaN = any-NaN in the text formats), built from /repo's working tree with -fsanitize=address,undefined",
    "independent re-renderers for the load-save-load half: props/mp_common.py (MessagePack encoder with random format widths), python json / xml.dom.minidom, a CSV re-quoter in this file",
]
import C01enum as _C01enum
TRUSTED_BASE = TRUSTED_BASE + list(_C01enum.TRUSTED_BASE_ENUM)
ASSUMPTIONS = [
    "values restricted to what the format can carry (property text): no NUL in text, XML 1.0 Char and XML names as map keys in XML, finite floats in the text formats unless the save throws, CSV = non-empty flat table of a class with scalar members",
    "platform x86-64 Linux, GCC 12, wchar_t 32 bit",
    "equality of loaded and saved value is operator== of the type, with float/double compared by bit pattern (MsgPack) or bit pattern / both-NaN (text formats)",
]

TYPES = list(range(0, 55))
SCALAR_ROOT = set(range(0, 15))
# types of the catalogue whose values contain text / optionals of text / pointers / sub-second chrono values (see harness/drv_rt.cpp)
HAS_TEXT = {11, 12, 13, 14, 17, 24, 25, 26, 28, 29, 30, 31, 32, 33, 37, 38, 42, 45, 53}
KNOWN_CLASSES = {
    # id: (feature, arch, types, allowed non-OK answers)
    "F29n": ("e", "xml", {29, 37, 38, 42, 53}, {"DIFF"}),
    "F53": ("w", "xml", {29, 42, 53}, {"DIFF"}),
    "F52": ("c", "xml", HAS_TEXT, {"DIFF"}),
    "F50": ("d", "json", SCALAR_ROOT, {"LOAD-EXC:SER1"}),        # the class text says: the document is rejected
}


def drivers(vlib):
    return vlib.build_cpp("drv_rt", ["drv_rt.cpp"] + vlib.repo_sources("src/msgpack/*.cpp", "src/csv/*.cpp", "src/common/*.cpp"),
                          libs=["-lpugixml"])


def cfgs(arch):
    pr = [0, 1, 2, 3] if arch in ("json", "xml") else [0]
    c = ["m00%d" % p for p in pr]
    if arch == "mp":
        return c + ["s000"]
    for enc in range(5):
        for bom in (0, 1):
            for p in (pr if enc in (0, 1) else pr[:2]):
                c.append("s%d%d%d" % (enc, bom, p))
    return c


def rt_cases(seeds, feat="", archs=("mp", "json", "xml", "csv"), seed0=0, types=None):
    out = []
    for arch in archs:
        if arch == "csv":
            for ty in range(3):
                for k in range(seeds * 4):
                    sd = seed0 + k
                    enc, bom, sep = sd % 5, (sd // 5) % 2, (sd // 10) % 5
                    st = sd % 2
                    out.append("rt csv %d %s%d%d%d %d memb %s" % (ty, "ms"[st], enc if st else 0, bom if st else 0, sep, sd, feat))
            continue
        cs = cfgs(arch)
        for ty in (types or TYPES):
            for root in (("root", "memb") if arch != "xml" else ("memb",)):
                for k in range(seeds):
                    sd = seed0 + k
                    cf = cs[(sd * 7 + ty) % len(cs)]
                    out.append(("rt %s %d %s %d %s %s" % (arch, ty, cf, sd, root, feat)).rstrip())
    return out


# ------------------------------------------------------------------ independent re-renderers (load-save-load half)

def rerender_mp(doc, rng):
    try:
        v, i = M.dec_value(doc, 0)
        if i != len(doc):
            return None
        return M.enc_value(v, rng)
    except Exception:
        return None


def rerender_json(doc, rng):
    try:
        v = pyjson.loads(doc.decode("utf-8"))
    except Exception:
        return None
    mode = rng.randint(0, 3)
    if mode == 0:
        s = pyjson.dumps(v, ensure_ascii=True)
    elif mode == 1:
        s = pyjson.dumps(v, ensure_ascii=False, indent=3)
    elif mode == 2:
        s = pyjson.dumps(v, ensure_ascii=False, separators=(" ,\t", " :\n"))
    else:
        s = "\n \t" + pyjson.dumps(v, ensure_ascii=True, indent=1) + "  \n"
    return s.encode("utf-8")


def rerender_xml(doc, rng):
    try:
        from xml.dom import minidom
        d = minidom.parseString(doc)
        return d.toxml(encoding="utf-8")
    except Exception:
        return None


def rerender_csv(doc, rng, sep):
    try:
        t = doc.decode("utf-8")
    except Exception:
        return None
    # quote every unquoted field of the library's output, CRLF line ends; fields containing quotes/separators are left as they are
    rows, row, cur, inq, i = [], [], "", False, 0
    while i < len(t):
        ch = t[i]
        if inq:
            if ch == '"':
                if i + 1 < len(t) and t[i + 1] == '"':
                    cur += '""'; i += 2; continue
                inq = False; cur += ch
            else:
                cur += ch
        elif ch == '"':
            inq = True; cur += ch
        elif ch == sep:
            row.append(cur); cur = ""
        elif ch == "\n" or (ch == "\r" and i + 1 < len(t) and t[i + 1] == "\n"):
            if ch == "\r":
                i += 1
            row.append(cur); rows.append(row); row, cur = [], ""
        else:
            cur += ch
        i += 1
    if cur or row:
        row.append(cur); rows.append(row)
    out = []
    for r in rows:
        out.append(sep.join(f if f.startswith('"') else '"' + f + '"' for f in r))
    return ("\r\n".join(out) + "\r\n").encode("utf-8")


SEPS = [",", ";", "\t", " ", "|"]


def lsl_cases(impl, vlib, rng, n):
    """documents = the library's own output for generated values, re-rendered independently"""
    src = []
    for arch in ("mp", "json", "xml", "csv"):
        if arch == "csv":
            for ty in range(3):
                for sd in range(n):
                    src.append("doc csv %d m00%d %d memb" % (ty, sd % 5, 1000 + sd))
            continue
        for ty in TYPES:
            for root in (("root", "memb") if arch != "xml" else ("memb",)):
                for sd in range(max(1, n // 4)):
                    src.append("doc %s %d m000 %d %s" % (arch, ty, 1000 + sd, root))
    outs = vlib.run_driver(impl, src)
    cases, kinds = [], {}
    for line, o in zip(src, outs):
        if not o.startswith("DOC "):
            continue
        t = line.split(" ")
        doc = bytes.fromhex(o[4:]) if len(o) > 4 else b""
        arch = t[1]
        if arch == "mp":
            d2 = rerender_mp(doc, rng)
        elif arch == "json":
            d2 = rerender_json(doc, rng)
        elif arch == "xml":
            d2 = rerender_xml(doc, rng)
        else:
            d2 = rerender_csv(doc, rng, SEPS[int(t[3][3])])
        for d, tag in ((doc, "own"), (d2, "rerendered")):
            if d is None or not d:
                continue
            cases.append("lsl %s %s %s %s %s" % (arch, t[2], t[3], d.hex(), t[5]))
            kinds[arch + " " + tag] = kinds.get(arch + " " + tag, 0) + 1
    return cases, kinds


def ok_answer(o):
    return o in ("OK", "UNSUPPORTED") or o.startswith("SAVE-EXC:")


def run(ctx, vlib):
    impl = drivers(vlib)
    rng = ctx["rng"]
    thorough = ctx["tier"] == "thorough"
    seed0 = rng.randint(0, 10 ** 6) * 1000
    n = 400 if thorough else 24
    failing, classes, known_lines, diffs = [], {}, [], []
    kn = {k["id"]: k for k in vlib.load_known("C01") if k.get("status") == "known"}

    def count(key):
        classes[key] = classes.get(key, 0) + 1

    # (1) corpus (earlier failures, fixed findings' witnesses) + clean sweep: every answer must be OK / SAVE-EXC
    corpus = []
    try:
        import utf_common as U
        corpus = U.load_corpus("C01")
    except Exception:
        corpus = []
    clean = corpus + rt_cases(n, "", seed0=0) + rt_cases(n, "", seed0=seed0)
    outs = vlib.run_driver(impl, clean)
    nt = 0
    for line, o in zip(clean, outs):
        t = line.split(" ")
        count("%s %s -> %s" % (t[0], t[1], o if len(o) < 24 else o[:24]))
        if o == "OK":
            nt += 1
        if not ok_answer(o):
            if len(failing) < 20:
                failing.append(dict(driver="rt", case=line, implementation=o, judge="FAIL",
                                    why="a generated value inside the format's range did not come back equal (or the saved document was rejected)"))
    evaluations = len(clean)

    # (2) non-finite floats: JSON must throw on save, the other formats must carry them
    nf = rt_cases(max(4, n // 4), "n", seed0=seed0, types=[9, 10, 19, 26, 28, 29, 30, 32, 47, 48])
    outs = vlib.run_driver(impl, nf)
    evaluations += len(nf)
    for line, o in zip(nf, outs):
        t = line.split(" ")
        count("%s %s n -> %s" % (t[0], t[1], o[:24]))
        if not ok_answer(o):
            if len(failing) < 20:
                failing.append(dict(driver="rt", case=line, implementation=o, judge="FAIL", why="NaN/Infinity neither round-tripped nor refused by the save"))

    # (3) single-feature sweeps: failures must lie inside the listed known class of that feature
    for fid, (feat, arch, types, answers) in sorted(KNOWN_CLASSES.items()):
        fc = rt_cases(max(4, n // 3), feat, archs=(arch,), seed0=seed0)
        outs = vlib.run_driver(impl, fc)
        evaluations += len(fc)
        hits = []
        for line, o in zip(fc, outs):
            t = line.split(" ")
            if ok_answer(o):
                continue
            count("%s %s %s -> %s" % (t[0], t[1], feat, o[:24]))
            if fid in kn and int(t[2]) in types and o in answers:
                hits.append((line, o))
            elif len(failing) < 20:
                failing.append(dict(driver="rt", case=line, implementation=o, judge="FAIL",
                                    why="failure with feature '%s' outside the listed known class %s" % (feat, fid)))
        if fid in kn:
            w = kn[fid].get("case")
            wo = vlib.run_driver(impl, [w], jobs=1)[0] if w else None
            evaluations += 1
            if w and wo == kn[fid].get("implementation"):      # exactly the recorded answer (a crash on the witness is not the known finding)
                known_lines.append("%s: %s [witness: %s -> %s; %d more inputs of this class in this run]" % (fid, kn[fid]["what"], w, wo, len(hits)))
            elif w:
                diffs.append(dict(driver="rt", case=w, implementation=wo, model=kn[fid].get("implementation"), judge="KNOWN-FINDING-CHANGED",
                                  why="listed known finding %s no longer reproduces as recorded" % fid))
    # known findings outside the feature scheme (fixed witness only)
    for fid, k in sorted(kn.items()):
        if fid in KNOWN_CLASSES or not k.get("case") or k.get("driver") == "enum":
            continue
        wo = vlib.run_driver(impl, [k["case"]], jobs=1)[0]
        evaluations += 1
        if wo == k.get("implementation"):
            known_lines.append("%s: %s [witness: %s -> %s]" % (fid, k["what"], k["case"], wo))
        else:
            diffs.append(dict(driver="rt", case=k["case"], implementation=wo, model=k.get("implementation"), judge="KNOWN-FINDING-CHANGED",
                              why="listed known finding %s no longer reproduces as recorded" % fid))

    # (4) load-save-load on accepted documents
    lc, kinds = lsl_cases(impl, vlib, rng, 40 if thorough else 8)
    outs = vlib.run_driver(impl, lc)
    evaluations += len(lc)
    for line, o in zip(lc, outs):
        t = line.split(" ")
        key = "lsl %s -> %s" % (t[1], "REJECT" if o.startswith("REJECT") else o[:24])
        count(key)
        if o.startswith("REJECT-EXC:") and not o.endswith("NONSTD"):
            continue
        if not ok_answer(o):
            if len(failing) < 20:
                failing.append(dict(driver="rt", case=line[:4000], implementation=o, judge="FAIL",
                                    why="a document the loader accepted is not a fixed point of load-save-load"))
    # (5) MsgPack typed load: extracted load model (decode + load_spec) vs LoadObject<MsgPackArchive> vs an independent
    #     Python evaluation, on saved documents, re-encoded documents and perturbed documents (mpscope family)
    import C01mp
    ml = C01mp.run_mpload(ctx, vlib)
    evaluations += ml.get("evaluations", 0)
    failing += [f for f in ml.get("failing", [])][: max(0, 20 - len(failing))]
    diffs += ml.get("diffs", [])
    for k, v in ml.get("classes", {}).items():
        classes["mpload " + k] = v
    # (6) enums: the extracted model of convert_enum.h (registry lookups, the four string widths, enum members and enum map keys
    #     through MsgPack / JSON) against the implementation, registries dumped from the implementation itself (enum family)
    import C01enum
    en = C01enum.run_enum(ctx, vlib)
    evaluations += en.get("evaluations", 0)
    nt += en.get("distinct_nontrivial", 0)
    failing += [f for f in en.get("failing", [])][: max(0, 20 - len(failing))]
    diffs += en.get("diffs", [])
    known_lines += en.get("known_lines", [])
    for k, v in en.get("classes", {}).items():
        classes["enum " + k] = v
    samples = [dict(case=clean[i][:200], outcome="OK") for i in (0, len(clean) // 2, len(clean) - 1)]
    return dict(evaluations=evaluations, distinct_nontrivial=nt, samples=samples, classes=classes, failing=failing, diffs=diffs,
                known_lines=known_lines, extra=dict(lsl_documents=kinds),
                rule="clean generator: %d seeds x (55 catalogue types x {root, member} x MsgPack/JSON/XML + 3 CSV row classes) with the output configuration rotating over memory/stream x 5 encodings x BOM x 4 formatting settings x 5 separators, twice (fixed seeds 0.. and seeds derived from VERIF_SEED); non-finite floats; one sweep per known-finding feature (failures must stay inside the listed class); load-save-load on the library's own documents and their independent re-renderings; oracle = the property (answer must be OK or SAVE-EXC; REJECT allowed for foreign documents); non-trivial = case that saved, loaded and compared equal" % n,
                broken="end-to-end round trip drv_rt")


def replay(rp, vlib):
    if rp.get("driver") == "mpload" or str(rp.get("case", "")).startswith("ld "):
        import C01mp
        return C01mp.replay_mpload(rp, vlib)
    if rp.get("driver") == "enum":
        import C01enum
        return C01enum.replay_enum(rp, vlib)
    impl = drivers(vlib)
    o = vlib.run_driver(impl, [rp["case"]], jobs=1)[0]
    return dict(case=rp["case"], implementation=o, holds=ok_answer(o) or o.startswith("REJECT-EXC:"))
