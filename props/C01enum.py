"""Enum half of C01: the enum conversion code of conversion_detail/convert_enum.h inside the model.

run_enum(ctx, vlib) — to be called from props/C01.py — compares the public API (Convert::To<E>(text) /
ToString / ToWString / To<std::u16string> / To<std::u32string> / TryTo for the four character widths, and
class{E} / std::map<E,int> saved and loaded through MsgPackArchive and JsonArchive; harness/drv_enum.cpp)
with the extracted model of coq/EnumModel.v (ml/enum_driver.ml).  The registries are DATA: the C++ driver
dumps each EnumRegistry<E> as the library holds it (op `reg`), and exactly that dump is put on every case
line for the model (the C++ driver answers REGDRIFT when the line's dump is not its own).  std::tolower is
validated value by value (op `tl`).  On registries that are well formed and ASCII every answer is also judged
by an independent Python evaluation (a case-insensitive dictionary)."""
import itertools

TRUSTED_BASE_ENUM = [
    "coq/EnumModel.v: hand-written Gallina mirror of convert_enum.h (GetEnumMetadata by value / by name, Convert::Detail::To both ways, the four character widths with char signed and wchar_t a signed 32-bit type) and of the enum branch of serialization_base_types.h (save = registered name or UnregisteredEnum, load = Convert of the string under the mismatched-types policy) and std::map<E,int> keys; tied to /repo by this correspondence (drv_enum: public API only)",
    "std::tolower is external to the library: EnumModel.tolower_c states the assumed behaviour (\"C\" locale, glibc: 'A'..'Z' lowered, -128..-2 answered c+256, EOF and everything outside -128..255 unchanged); validated on every run by op `tl` on -130..300 exhaustively and on boundary / random values of int; the program never calls setlocale",
    "the registries used in the correspondence are the ones the library holds (op `reg` dumps EnumRegistry<E>::cbegin()..cend()); REGISTER_ENUM / Register itself (memcpy into a static array, second registration ignored) is not modelled beyond 'the registry is the list of descriptors in order'",
    "code units are exchanged as unsigned bit patterns (wchar_t by its uint32_t pattern); names are the bytes of the C string literal (no NUL inside a name: const char* ends at the first NUL)",
    "glue: harness/drv_enum.cpp, ml/enum_driver.ml, ml/glue_enum.ml, props/C01enum.py (independent Python judge for well-formed ASCII registries)",
]

IDS = ["plain", "mixed", "dup", "utf", "edge", "unreg"]
WIDTHS = ["8", "16", "32", "w"]
WMAX = {"8": 1 << 8, "16": 1 << 16, "32": 1 << 32, "w": 1 << 32}
CRASHY = ("CRASH", "SANITIZER", "HANG", "TERMINATE")


def shex(v):
    return ("-%x" % -v) if v < 0 else ("+%x" % v)


def unshex(s):
    m = int(s[1:], 16)
    return -m if s[0] == "-" else m


def units(l):
    return ",".join("%x" % u for u in l) if l else "-"


def hx(b):
    return b.hex() if b else "-"


def drivers(vlib):
    src = vlib.repo_sources("src/msgpack/*.cpp", "src/common/*.cpp")
    impl = vlib.build_cpp("drv_enum", ["drv_enum.cpp"] + src)
    model = vlib.build_model("enum")
    return impl, model


def parse_dump(d):
    if d == "-":
        return []
    r = []
    for e in d.split(";"):
        v, n = e.split(":")
        r.append((unshex(v), b"" if n == "-" else bytes.fromhex(n)))
    return r


def fold(b):
    return bytes(c + 32 if 65 <= c <= 90 else c for c in b)


def well_formed(reg):
    vs = [v for v, _ in reg]
    ns = [fold(n) for _, n in reg]
    return len(set(vs)) == len(vs) and len(set(ns)) == len(ns)


def ascii_names(reg):
    return all(c < 128 for _, n in reg for c in n)


def rt_hyp(w, reg):
    """hypothesis of T_C01enum_roundtrip for width w (EnumProofs.rt_ok): char16_t needs ASCII names"""
    return well_formed(reg) and (ascii_names(reg) if w == "16" else True)


def widen(w, b):
    if b < 128 or w == "8":
        return b
    return b + (0xFF00 if w == "16" else 0xFFFFFF00)


# ---------------------------------------------------------------- generators

def case_perms(rng, name, limit):
    idx = [i for i, c in enumerate(name) if 65 <= (c & ~32) <= 90 and c < 128]
    out = []
    if len(idx) <= limit:
        for mask in itertools.product((0, 1), repeat=len(idx)):
            l = list(name)
            for i, m in zip(idx, mask):
                l[i] = (l[i] & ~32) if m else (l[i] | 32)
            out.append(l)
    else:
        for _ in range(1 << limit):
            l = list(name)
            for i in idx:
                if rng.random() < 0.5:
                    l[i] ^= 32
            out.append(l)
    return out


def near_misses(rng, name, w):
    top = WMAX[w]
    out = [[], name + [0x20], [0x20] + name, name + [0], name[:-1], name[1:], name + name[-1:], name + name]
    for i in range(len(name)):
        for d in (1, -1, 32, -32, 0x80, 0x100, 0x10000, 0xFFFFFF00, 0xFFFFFFE0, 0xFF00, -0x20 + 0x100):
            l = list(name)
            u = l[i] + d
            if 0 <= u < top:
                l[i] = u
                out.append(l)
        l = list(name)
        l[i] = rng.randrange(0, top)
        out.append(l)
        l = list(name)
        l[i] = rng.choice([0, 0x40, 0x41, 0x5A, 0x5B, 0x60, 0x61, 0x7A, 0x7B, 0x7F, 0x80, 0xC0, 0xE0, 0xFF, top - 1, top - 0x3D, top // 2, top // 2 - 1])
        out.append(l)
    return [l for l in out if all(0 <= u < top for u in l)]


def gen_cases(rng, tier, dumps):
    thorough = tier != "quick"
    cases, meta = [], []

    def add(cls, line, rid):
        cases.append(line)
        meta.append((cls, rid))
    for rid in IDS:
        d = dumps[rid]
        reg = parse_dump(d)
        vals = sorted(set(v for v, _ in reg))
        others = [-(1 << 31), (1 << 31) - 1, 0x5EA6, -1, 0, 1, 7] + [v + 1 for v in vals] + [v - 1 for v in vals]
        others = sorted(set(v for v in others if v not in vals and -(1 << 31) <= v < (1 << 31)))
        for w in WIDTHS:
            for v in vals:
                add("to registered", "to %s %s %s %s" % (w, rid, d, shex(v)), rid)
                add("rt registered", "rt %s %s %s %s" % (w, rid, d, shex(v)), rid)
            for v in others:
                add("to unregistered", "to %s %s %s %s" % (w, rid, d, shex(v)), rid)
                add("rt unregistered", "rt %s %s %s %s" % (w, rid, d, shex(v)), rid)
            texts = []
            for _, n in reg:
                base = [widen(w, b) for b in n]
                for l in case_perms(rng, base, 10 if thorough else 6):
                    texts.append(("name in a case permutation", l))
                raw = list(n)
                if raw != base:
                    for l in case_perms(rng, raw, 3):
                        texts.append(("name bytes as units (not widened)", l))
                for l in near_misses(rng, base, w):
                    texts.append(("near miss", l))
                if thorough:
                    for p in case_perms(rng, base, 3):
                        for l in near_misses(rng, p, w):
                            texts.append(("near miss", l))
            for _ in range(200 if thorough else 30):
                n = rng.choice([0, 1, 1, 2, 3, 4, 5, 9])
                texts.append(("random text", [rng.choice([rng.randrange(0x41, 0x7B), rng.randrange(0, 0x100), rng.randrange(0, WMAX[w])]) for _ in range(n)]))
            texts.append(("empty text", []))
            for cls, l in texts:
                op = "try" if rng.random() < 0.25 else "from"
                add(cls, "%s %s %s %s %s" % (op, w, rid, d, units(l)), rid)
        # the archives
        for fmt in "mj":
            for v in vals + others[:6]:
                add("archive save", "svn %s %s %s %s" % (fmt, rid, d, shex(v)), rid)
            texts = []
            for _, n in reg:
                if b"\xff" in n and fmt == "j":
                    continue       # not UTF-8: what a JSON document does with it is not the enum code's business
                for l in case_perms(rng, list(n), 5 if thorough else 3):
                    texts.append(bytes(l))
                for l in near_misses(rng, list(n), "8"):
                    if all(0 < u < 128 for u in l):
                        texts.append(bytes(l))
            texts.append(b"")
            for tx in texts:
                add("archive load", "ldn %s %s %s %s %s" % (fmt, rid, d, rng.choice("tts"), hx(tx)), rid)
            for _ in range(40 if thorough else 10):
                ks = [rng.choice(vals) for _ in range(rng.choice([0, 1, 2, 3, 5]))] if vals else []
                if rng.random() < 0.2 or not vals:
                    ks.insert(rng.randrange(0, len(ks) + 1), rng.choice(others))
                add("archive map keys", "mp %s %s %s %s" % (fmt, rid, d, ",".join(shex(k) for k in ks) if ks else "-"), rid)
    return cases, meta


# ---------------------------------------------------------------- independent judge (well-formed ASCII registries only)

def expected(line, reg):
    """answer demanded by the property on a registry with distinct values, names distinct up to ASCII case and ASCII names
    (the registration is then a bijection between values and case-folded names); None = not judged"""
    if not (well_formed(reg) and ascii_names(reg)):
        return None
    t = line.split(" ")
    by_name = dict((fold(n), v) for v, n in reg)
    by_val = dict((v, n) for v, n in reg)
    op = t[0]
    if op in ("from", "try"):
        us = [] if t[4] == "-" else [int(x, 16) for x in t[4].split(",")]
        v = by_name.get(fold(bytes(us))) if all(u < 128 for u in us) else None
        if v is not None:
            return "OK " + shex(v)
        return "NONE" if op == "try" else "EXC:invalid_argument"
    if op == "to":
        n = by_val.get(unshex(t[4]))
        return "EXC:invalid_argument" if n is None else "OK " + units(list(n))
    if op == "rt":
        return "OK " + t[4] if unshex(t[4]) in by_val else "EXC-TO:invalid_argument"
    if op == "svn":
        n = by_val.get(unshex(t[4]))
        return "EXC:UnregisteredEnum" if n is None else "OK " + hx(n)
    if op == "ldn":
        tx = b"" if t[5] == "-" else bytes.fromhex(t[5])
        v = by_name.get(fold(tx))
        if v is not None:
            return "OK " + shex(v)
        return "EXC:MismatchedTypes" if t[4] == "t" else "KEPT"
    if op == "mp":
        ks = [] if t[4] == "-" else [unshex(x) for x in t[4].split(",")]
        if any(k not in by_val for k in ks):
            return None          # an unregistered key: which exception escapes is not part of the property
        m = {}
        for i, k in enumerate(ks):
            m[k] = i
        return "OK " + (";".join("%s=%d" % (shex(k), m[k]) for k in sorted(m)) if m else "-")
    return None


TL_POINTS = list(range(-130, 301)) + [0xFF00, 0xFFC3, 0xFFFF, 0x10000, 0x10041, (1 << 31) - 1, -(1 << 31), -(1 << 31) + 0x41, -0x3D - 256, -65, -97]


def run_enum(ctx, vlib):
    impl, model = drivers(vlib)
    rng = ctx["rng"]
    failing, diffs, classes = [], [], {}
    # (0) std::tolower as assumed by the model
    tl = ["tl " + shex(c) for c in TL_POINTS + [rng.randrange(-(1 << 31), 1 << 31) for _ in range(200)]]
    ti = vlib.run_driver(impl, tl, jobs=1)
    tm = vlib.run_driver(model, tl, jobs=1)
    for line, a, b in zip(tl, ti, tm):
        if a != b and len(diffs) < 20:
            diffs.append(dict(driver="enum", case=line, implementation=a, model=b, judge="UNKNOWN", why="std::tolower does not behave as EnumModel.tolower_c assumes"))
    classes["tolower points"] = len(tl)
    # (1) the registries as the library holds them
    regs = vlib.run_driver(impl, ["reg " + rid for rid in IDS], jobs=1)
    dumps = {}
    for rid, o in zip(IDS, regs):
        if not o.startswith("REG "):
            return dict(evaluations=len(tl), distinct_nontrivial=0, samples=[], classes=classes, diffs=diffs, known_lines=[],
                        failing=[dict(driver="enum", case="reg " + rid, implementation=o, judge="FAIL", why="the registry cannot be listed")],
                        rule="registry dump", broken="correspondence enum conversion model vs Convert / archives (drv_enum)")
        dumps[rid] = o[4:]
    cases, meta = gen_cases(rng, ctx["tier"], dumps)
    corpus = []
    try:
        import os
        p = os.path.join(os.path.dirname(os.path.abspath(__file__)), "..", "corpus", "C01enum.cases")
        for l in open(p):
            l = l.rstrip("\n")
            if l and not l.startswith("#"):
                t = l.split(" ")
                # corpus lines carry the registry id; the dump is refreshed from the library (token 3 written as @)
                if len(t) > 3 and t[3] == "@" and t[2] in dumps:
                    t[3] = dumps[t[2]]
                corpus.append((" ".join(t), t[2] if len(t) > 2 else "?"))
    except OSError:
        pass
    cases = [c for c, _ in corpus] + cases
    meta = [("corpus", rid) for _, rid in corpus] + meta
    oi = vlib.run_driver(impl, cases)
    om = vlib.run_driver(model, cases)
    known = [k for k in vlib.load_known("C01") if k.get("driver") == "enum" and k.get("status") == "known"]
    known_cases = set(k["case"] for k in known)
    seen, nontrivial, verdicts = set(), 0, {}
    outside = 0
    for line, (cls, rid), a, b in zip(cases, meta, oi, om):
        t = line.split(" ")
        key = "%s %s %s" % (t[0], t[1], cls)
        classes[key] = classes.get(key, 0) + 1
        classes["registry " + rid] = classes.get("registry " + rid, 0) + 1
        if line not in seen:
            seen.add(line)
            # non-trivial = a lookup that succeeded on the implementation (a value or a name was found and converted)
            if a.startswith("OK ") and a != "OK -":
                nontrivial += 1
        reg = parse_dump(dumps.get(rid, "-")) if rid in dumps else []
        exp = expected(line, reg)
        verdict, why = "UNKNOWN", "outside the judged domain (registry not well formed or not ASCII)"
        if a.startswith(CRASHY):
            verdict, why = "FAIL", "crash"
        elif exp is not None:
            verdict, why = ("HOLD", "as the independent evaluation") if a == exp else ("FAIL", "the property demands: %s" % exp[:200])
        elif t[0] == "rt" and well_formed(reg) and any(v == unshex(t[4]) for v, _ in reg):
            # a registered value of a registry with distinct values and names: the round trip must reproduce it
            if a == "OK " + t[4]:
                verdict, why = "HOLD", "round trip"
            elif rt_hyp(t[1], reg):
                verdict, why = "FAIL", "save then load must reproduce the value %s" % t[4]
            else:
                outside += 1
                verdict, why = "UNKNOWN", "outside the hypothesis of T_C01enum_roundtrip (non-ASCII name in a char16_t string: T_C01enum_roundtrip_all_refuted)"
        verdicts[verdict] = verdicts.get(verdict, 0) + 1
        if verdict == "FAIL" or a != b:
            rec = dict(driver="enum", case=line, implementation=a, model=b, judge=verdict, why=why)
            if verdict == "FAIL" and line not in known_cases:
                if len(failing) < 20:
                    failing.append(rec)
            elif verdict != "FAIL" and len(diffs) < 20:
                diffs.append(rec)
    classes["round trips outside the proved hypothesis (non-ASCII name, char16_t)"] = outside
    known_lines = []
    outs = vlib.run_driver(impl, [k["case"] for k in known], jobs=1) if known else []
    for k, out in zip(known, outs):
        if out == k["implementation"]:
            known_lines.append("%s: %s [case: %s -> %s]" % (k["id"], k["what"], k["case"], out))
        elif len(diffs) < 20:
            diffs.append(dict(driver="enum", case=k["case"], implementation=out, model=k["implementation"], judge="KNOWN-FINDING-CHANGED",
                              why="listed known finding %s no longer reproduces as recorded" % k["id"]))
    step = max(1, len(cases) // 3)
    samples = [dict(case=cases[i][:300], implementation=oi[i][:200], model=om[i][:200]) for i in range(0, len(cases), step)][:3]
    return dict(evaluations=len(cases) + len(tl), distinct_nontrivial=nontrivial, samples=samples, classes=classes, failing=failing, diffs=diffs,
                known_lines=known_lines, extra=dict(enum_verdicts=verdicts, enum_registries=dumps),
                rule="enum conversion through the public API on six registered enum types (plain with negative / large values; mixed-case names incl. the characters next to the letter ranges @ ` [ {; duplicate values and names equal up to case; non-ASCII UTF-8 names incl. the byte 0xFF; empty name and names with blanks; an unregistered type), registries dumped from the library and handed to the model as data: Convert::To<E>(text) / TryTo for char, char16_t, char32_t, wchar_t on every registered name in every case permutation (up to 2^6 quick / 2^10 thorough per name, random flips beyond), the name bytes unwidened, near misses (each unit changed by +-1, +-32, +0x80, +0x100, +0x10000, sign-extension patterns, random and boundary units; prefix, suffix, doubled, extra blank, NUL appended), random and empty texts; Convert::ToString / ToWString / To<u16string> / To<u32string> and the to-from round trip on every registered value and on unregistered neighbours and int limits; class{E} saved / loaded against class{string} and std::map<E,int> through MsgPackArchive and JsonArchive under both mismatched-types policies; std::tolower validated on -130..300 and boundary / random ints; compared with the extracted model, and with an independent Python dictionary evaluation on the well-formed ASCII registries; non-trivial = distinct case whose lookup succeeded",
                broken="correspondence enum conversion model vs Convert / archives (drv_enum)")


def replay_enum(rp, vlib):
    impl, model = drivers(vlib)
    line = rp["case"]
    a = vlib.run_driver(impl, [line], jobs=1)[0]
    b = vlib.run_driver(model, [line], jobs=1)[0]
    return dict(case=line, implementation=a, model=b, agree=(a == b))
