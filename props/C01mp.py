"""MsgPack half of C01 at the typed level: LOADING whole value trees through the public API.

run_mpload(ctx, vlib) — called from props/C01.py — compares LoadObject<MsgPackArchive> into a dynamic
target of a given static shape (harness/drv_mpload.cpp) with the extracted specification load_bytes =
reference decoder + load_spec (coq/MpLoadModel.v via ml/mpload_driver.ml), on documents produced by the
implementation's own SaveObject (harness/drv_mpsave.cpp) and by the independent Python encoder of
mp_common with random format widths, plus documents with extra / permuted / missing members and values
of other kinds; every answer is also judged by an independent Python evaluation of the load."""
import math, struct
import mp_common as M

TRUSTED_BASE_MPLOAD = [
    "coq/MpLoadModel.v: shapes of load targets, load_spec (what the generic layer makes of the scopes' answers), the request programs elem_prog / member_prog; hand-written from serialization_base_types.h / generic_container.h; tied to /repo by this correspondence (drv_mpload: LoadObject through the public API)",
    "std::map<K,V> targets (K = std::string or an integer type, MapLoadMode::Clean) are modelled for archive keys of K's class (string / integer) that convert to pairwise different K; documents whose maps meet a std::map target with a key of another class (text <-> number conversions, float / double / timestamp keys) or with equal keys are answered UNMODELLED by the model driver and only required not to crash (counted in the evidence as class 'unmodelled')",
    "the target's prior content (op ldp) is given in the tree syntax the driver prints and built into the dynamic target before LoadObject; MapLoadMode reaches SerializeMapImpl(ar, map, mode) the way user code passes it",
    "not modelled: validation; documents with keys of unsupported kinds or duplicate keys are outside the specification (the object scope throws on an unsupported key kind)",
    "glue: harness/drv_mpload.cpp (dynamic node tree; an element reset to value_type() is printed as the value-initialised element of the static element type), ml/mpload_driver.ml, props/C01mp.py (independent Python evaluation of the load)",
]

IKINDS = {"u8": (0, 1 << 8), "u16": (0, 1 << 16), "u32": (0, 1 << 32), "u64": (0, 1 << 64),
          "s8": (-128, 128), "s16": (-(1 << 15), 1 << 15), "s32": (-(1 << 31), 1 << 31), "s64": (-(1 << 63), 1 << 63)}
FLT_MAX = struct.unpack(">f", (0x7f7fffff).to_bytes(4, "big"))[0]


def shex(v):
    return ("-%x" % -v) if v < 0 else ("+%x" % v)


def drivers(vlib):
    src = vlib.repo_sources("src/msgpack/*.cpp", "src/common/*.cpp")
    impl = vlib.build_cpp("drv_mpload", ["drv_mpload.cpp"] + src)
    saver = vlib.build_cpp("drv_mpsave", ["drv_mpsave.cpp"] + src)
    model = vlib.build_model("mpload")
    return impl, saver, model


# ---------------------------------------------------------------- shapes: ('n',) ('B',) ('i',kind) ('f',) ('d',) ('s',) ('b',) ('[',e) ('{',[(name,shape)]) ('<',kshape,vshape,mode) ('(',n,e) ('v',) ('^',[shape..]) ('?',w,e) with w in '?*&' = optional / unique_ptr / shared_ptr, ('M',kshape,vshape) multimap, ('S',multi,kshape) set / multiset;  mode in 'cou' = MapLoadMode Clean / OnlyExistKeys / UpdateKeys

def rand_shape(rng, depth=0):
    k = rng.random()
    if depth >= 3:
        k *= 0.62
    if k < 0.22:
        return ("i", rng.choice(list(IKINDS)))
    if k < 0.28:
        return ("B",)
    if k < 0.31:
        return ("n",)
    if k < 0.37:
        return ("f",)
    if k < 0.43:
        return ("d",)
    if k < 0.53:
        return ("s",)
    if k < 0.62:
        return ("b",)
    if k < 0.72:
        return ("[", rand_shape(rng, depth + 1))
    if k < 0.76:
        return ("(", rng.choice([0, 1, 2, 3, 5]), rand_shape(rng, depth + 1))
    if k < 0.78:
        return ("v",)
    if k < 0.82:
        return ("^", [rand_shape(rng, depth + 1) for _ in range(rng.choice([0, 1, 2, 2, 3, 4]))])
    if k < 0.84:
        # std::pair: the class with the members "key" and "value"
        return ("{", [(b"key", rand_shape(rng, depth + 1)), (b"value", rand_shape(rng, depth + 1))], "pair")
    if k < 0.88:
        e = rand_shape(rng, depth + 1)
        while e[0] in "n?":          # a wrapper holds a shape that is never nil
            e = rand_shape(rng, depth + 1)
        return ("?", rng.choice("?*&"), e)
    if k < 0.905:
        return ("M", ("s",) if rng.random() < 0.5 else ("i", rng.choice(list(IKINDS))), rand_shape(rng, depth + 1))
    if k < 0.92:
        return ("S", rng.random() < 0.5, ("s",) if rng.random() < 0.5 else ("i", rng.choice(list(IKINDS))))
    if k < 0.95:
        ks = ("s",) if rng.random() < 0.5 else ("i", rng.choice(list(IKINDS)))
        return ("<", ks, rand_shape(rng, depth + 1), rng.choice("cccou"))
    n = rng.choice([0, 1, 2, 3, 4, 6]) if depth < 2 else rng.randrange(0, 3)
    names = []
    while len(names) < n:
        nm = bytes(rng.choice(b"abcdefghijklmnopqrstuvwxyz_") for _ in range(rng.choice([1, 1, 2, 3, 8, 33])))
        if nm not in names:
            names.append(nm)
    return ("{", [(nm, rand_shape(rng, depth + 1)) for nm in names])


def shape_text(s):
    t = s[0]
    if t == "n":
        return "n"
    if t == "B":
        return "F"
    if t == "i":
        return "i%s:+0" % s[1]
    if t == "f":
        return "f0"
    if t == "d":
        return "d0"
    if t == "s":
        return "s-"
    if t == "b":
        return "b-"
    if t == "[":
        return "[" + shape_text(s[1]) + "]"
    if t == "<":
        return "<" + ("" if s[3] == "c" else s[3] + "|") + shape_text(s[1]) + "=" + shape_text(s[2]) + ">"
    if t == "(":
        return "(%d|%s)" % (s[1], shape_text(s[2]))
    if t == "v":
        return "v"
    if t == "^":
        return "^" + ";".join(shape_text(x) for x in s[1]) + "$"
    if t == "?":
        return s[1] + shape_text(s[2])
    if t == "M":
        return "<m|" + shape_text(s[1]) + "=" + shape_text(s[2]) + ">"
    if t == "S":
        return ("@" if s[1] else "#") + shape_text(s[2])
    if len(s) == 3 and s[2] == "pair":
        return "%" + shape_text(s[1][0][1]) + ";" + shape_text(s[1][1][1]) + "$"
    return "{" + ";".join("s%s=%s" % (M.hx(nm), shape_text(x)) for nm, x in s[1]) + "}"


def key_text(ks, k):
    return "s" + M.hx(k) if ks[0] == "s" else "i%s:%s" % (ks[1], shex(k))


def rand_map_keys(rng, ks, n):
    keys = set()
    tries = 0
    while len(keys) < n and tries < 100:
        tries += 1
        if ks[0] == "s":
            keys.add(bytes(rng.choice(b"abAB\x01\x7f\x80\xff_z") for _ in range(rng.choice([0, 1, 1, 2, 3, 5, 32]))))
        else:
            lo, hi = IKINDS[ks[1]]
            z = rng.choice([lo, hi - 1, 0, 1, -1, 127, 128, 255, 256, rng.randrange(lo, hi)])
            if lo <= z < hi:
                keys.add(z)
    return sorted(keys)      # std::less: integers by value, strings bytewise unsigned with a proper prefix first = Python's order on bytes


def rand_value(rng, s, depth=0):
    """(tree text for the save driver, tree text as the load drivers print it, abstract document value) of a value of shape s"""
    t = s[0]
    if t == "n":
        return "n", "n", None
    if t == "B":
        b = rng.random() < 0.5
        return ("T" if b else "F"), ("T" if b else "F"), b
    if t == "i":
        lo, hi = IKINDS[s[1]]
        z = rng.choice([lo, hi - 1, 0, 1, 127, 128, 255, 256, -1, -32, -33, M.rand_int(rng)])
        if not (lo <= z < hi):
            z = rng.randrange(lo, hi)
        x = "i%s:%s" % (s[1], shex(z))
        return x, x, z
    if t == "f":
        b = M.rand_f32(rng)
        return "f%x" % b, fmt_f32(b), ("f32", b)
    if t == "d":
        b = M.rand_f64(rng)
        return "d%x" % b, fmt_f64(b), ("f64", b)
    if t == "s":
        x = bytes(rng.randrange(1, 256) for _ in range(rng.choice([0, 1, 5, 31, 32, 33, 255, 256, rng.randrange(0, 40)])))
        return "s" + M.hx(x), "s" + M.hx(x), x
    if t == "b":
        x = M.rand_bytes(rng, 300) if rng.random() < 0.1 else M.rand_bytes(rng)
        return "b" + M.hx(x), "b" + M.hx(x), ("bin", x)
    if t == "[":
        n = rng.choice([0, 1, 2, 3, 15, 16, 17]) if depth < 2 else rng.randrange(0, 3)
        items = [rand_value(rng, s[1], depth + 1) for _ in range(n)]
        return "[" + ";".join(a for a, _, _ in items) + "]", "[" + ";".join(b for _, b, _ in items) + "]", [v for _, _, v in items]
    if t == "(":
        items = [rand_value(rng, s[2], depth + 1) for _ in range(s[1])]
        return "[" + ";".join(a for a, _, _ in items) + "]", "[" + ";".join(b for _, b, _ in items) + "]", [v for _, _, v in items]
    if t == "?":
        if rng.random() < 0.3:
            return "n", "n", None
        return rand_value(rng, s[2], depth)
    if t == "M":
        n = rng.choice([0, 1, 2, 3, 5]) if depth < 2 else rng.randrange(0, 3)
        base = rand_map_keys(rng, s[1], max(1, n))
        keys = sorted(rng.choice(base) for _ in range(n)) if base else []        # equal keys allowed
        items = [(k, rand_value(rng, s[2], depth + 1)) for k in keys]
        pair = lambda k, x: "{s6b6579=%s;s76616c7565=%s}" % (key_text(s[1], k), x)
        return ("[" + ";".join(pair(k, a) for k, (a, _, _) in items) + "]", "[" + ";".join(pair(k, b) for k, (_, b, _) in items) + "]",
                [("map", [(b"key", k), (b"value", v)]) for k, (_, _, v) in items])
    if t == "S":
        n = rng.choice([0, 1, 2, 3, 6])
        base = rand_map_keys(rng, s[2], max(1, n))
        keys = sorted(rng.choice(base) for _ in range(n)) if (s[1] and base) else base[:n]
        x = "[" + ";".join(key_text(s[2], k) for k in keys) + "]"
        return x, x, list(keys)
    if t == "^":
        items = [rand_value(rng, x, depth + 1) for x in s[1]]
        return "[" + ";".join(a for a, _, _ in items) + "]", "[" + ";".join(b for _, b, _ in items) + "]", [v for _, _, v in items]
    if t == "v":
        items = [rng.random() < 0.5 for _ in range(rng.choice([0, 1, 2, 3, 9, 17]))]
        x = "[" + ";".join("T" if b else "F" for b in items) + "]"
        return x, x, list(items)
    if t == "<":
        n = rng.choice([0, 1, 2, 3, 5, 16]) if depth < 2 else rng.randrange(0, 3)
        keys = rand_map_keys(rng, s[1], n)
        items = [(k, rand_value(rng, s[2], depth + 1)) for k in keys]
        return ("{" + ";".join("%s=%s" % (key_text(s[1], k), a) for k, (a, _, _) in items) + "}",
                "{" + ";".join("%s=%s" % (key_text(s[1], k), b) for k, (_, b, _) in items) + "}",
                ("map", [(k, v) for k, (_, _, v) in items]))
    items = [(nm, rand_value(rng, x, depth + 1)) for nm, x in s[1]]
    return ("{" + ";".join("s%s=%s" % (M.hx(nm), a) for nm, (a, _, _) in items) + "}",
            "{" + ";".join("s%s=%s" % (M.hx(nm), b) for nm, (_, b, _) in items) + "}",
            ("map", [(nm, v) for nm, (_, _, v) in items]))


def f32_of(bits):
    return struct.unpack(">f", bits.to_bytes(4, "big"))[0]


def f64_of(bits):
    return struct.unpack(">d", bits.to_bytes(8, "big"))[0]


def fmt_f32(b):
    return "fnan" if math.isnan(f32_of(b)) else "f%x" % b


def fmt_f64(b):
    return "dnan" if math.isnan(f64_of(b)) else "d%x" % b


# ---------------------------------------------------------------- independent evaluation of a load

class Stop(Exception):
    def __init__(self, cat):
        self.cat = cat


class Unjudged(Exception):
    pass


NOT = object()      # Serialize(...) returned false: the target keeps what it holds


class Reset:
    """Serialize(...) returned false, but the target now holds x (a wrapper that was reset to empty)"""
    def __init__(self, x):
        self.x = x


def loaded(r):
    return r is not NOT and not isinstance(r, Reset)


def after(i0, r):
    """what a target that held i0 holds after the result r"""
    if r is NOT:
        return i0
    return r.x if isinstance(r, Reset) else r

# target values: None | bool | int | ("f", bits) | ("d", bits) | bytes (string) | ("b", bytes) | list | ("o", [(name, value)]) | dict (map)


def default_val(s):
    t = s[0]
    if t == "n":
        return None
    if t == "B":
        return False
    if t == "i":
        return 0
    if t == "f":
        return ("f", 0)
    if t == "d":
        return ("d", 0)
    if t == "s":
        return b""
    if t == "b":
        return ("b", b"")
    if t in "[v":
        return []
    if t == "?":
        return None
    if t in "MS":
        return []
    if t == "<":
        return {}
    if t == "(":
        return [default_val(s[2]) for _ in range(s[1])]
    if t == "^":
        return [default_val(x) for x in s[1]]
    return ("o", [(nm, default_val(x)) for nm, x in s[1]])


def show(s, x):
    """the tree text the drivers print for a target of shape s holding x"""
    t = s[0]
    if t == "n":
        return "n"
    if t == "B":
        return "T" if x else "F"
    if t == "i":
        return "i%s:%s" % (s[1], shex(x))
    if t == "f":
        return fmt_f32(x[1])
    if t == "d":
        return fmt_f64(x[1])
    if t == "s":
        return "s" + M.hx(x)
    if t == "b":
        return "b" + M.hx(x[1])
    if t == "[":
        return "[" + ";".join(show(s[1], y) for y in x) + "]"
    if t == "(":
        return "[" + ";".join(show(s[2], y) for y in x) + "]"
    if t == "v":
        return "[" + ";".join("T" if y else "F" for y in x) + "]"
    if t == "^":
        return "[" + ";".join(show(y, z) for y, z in zip(s[1], x)) + "]"
    if t == "<":
        return "{" + ";".join("%s=%s" % (key_text(s[1], k), show(s[2], x[k])) for k in sorted(x)) + "}"
    if t == "?":
        return "n" if x is None else show(s[2], x)
    if t == "M":
        return "[" + ";".join("{s6b6579=%s;s76616c7565=%s}" % (key_text(s[1], k), show(s[2], y)) for k, y in x) + "]"
    if t == "S":
        return "[" + ";".join(key_text(s[2], k) for k in x) + "]"
    return "{" + ";".join("s%s=%s" % (M.hx(nm), show(sh, y)) for (nm, sh), (_, y) in zip(s[1], x[1])) + "}"


def py_load(pol, s, init, v):
    """what a target of shape s holding init holds after the load of the document value v, or NOT when the target is
    not loaded (it keeps init); raises Stop(cat)"""
    def mism():
        if pol[0] == "T":
            raise Stop("M")
        return NOT

    def ovf():
        if pol[1] == "T":
            raise Stop("O")
        return NOT
    t = s[0]
    if t == "?":
        # optional / unique_ptr / shared_ptr: an empty one gets a fresh value, the value is loaded; false: reset to empty
        r = py_load(pol, s[2], default_val(s[2]) if init is None else init, v)
        return r if loaded(r) else Reset(None)
    if t in "[{b<(v^MS" and v is None:
        return NOT
    if t == "M":
        # SerializeMultiMapImpl: clear; per element a fresh pair loaded as the class { key; value }; inserted (behind equal keys) if that returned true
        if not isinstance(v, list):
            return mism()
        pshape = ("{", [(b"key", s[1]), (b"value", s[2])])
        out = []
        for x in v:
            r = py_load(pol, pshape, default_val(pshape), x)
            if loaded(r):
                out.append((r[1][0][1], r[1][1][1]))
        return sorted(out, key=lambda kv: kv[0])         # stable: equal keys keep the order of the document
    if t == "S":
        # SerializeSetImpl: clear; per element a fresh K is loaded (the result is ignored) and inserted
        if not isinstance(v, list):
            return mism()
        out = []
        for x in v:
            r = py_load(pol, s[2], default_val(s[2]), x)
            k = r if loaded(r) else default_val(s[2])
            if s[1] or k not in out:
                out.append(k)
        return sorted(out)
    if t == "[":
        # SerializeContainer: resized to the count, each element loaded into what is there (or a fresh one), RESET if not loaded
        if not isinstance(v, list):
            return mism()
        out = []
        for i, x in enumerate(v):
            i0 = init[i] if i < len(init) else default_val(s[1])
            r = py_load(pol, s[1], i0, x)
            out.append(r if loaded(r) else default_val(s[1]))
        return out
    if t == "(":
        # SerializeFixedSizeArray: elements while both sides have one (kept if not loaded), then OutOfRange unless both are exhausted
        if not isinstance(v, list):
            return mism()
        out = list(init) + [default_val(s[2])] * max(0, s[1] - len(init))
        for i, x in enumerate(v[:s[1]]):
            out[i] = after(out[i], py_load(pol, s[2], out[i], x))
        if len(v) != s[1]:
            raise Stop("R")
        return out
    if t == "^":
        # SerializeArray(std::tuple): components while the array has elements; a shorter array leaves the rest as they are
        if not isinstance(v, list):
            return mism()
        out = list(init) + [default_val(x) for x in s[1][len(init):]]
        for i, x in enumerate(s[1]):
            if i >= len(v):
                if pol[0] == "T":
                    raise Stop("M")
                break
            out[i] = after(out[i], py_load(pol, x, out[i], v[i]))
        if len(v) > len(s[1]) and pol[0] == "T":
            raise Stop("M")
        return out
    if t == "v":
        # std::vector<bool>: one local bool is loaded and assigned, loaded or not
        if not isinstance(v, list):
            return mism()
        out, cur = [], False
        for x in v:
            r = py_load(pol, ("B",), False, x)
            if loaded(r):
                cur = r
            out.append(cur)
        return out
    if t == "b":
        if isinstance(v, tuple) and v[0] == "bin":
            return ("b", v[1])
        if not isinstance(v, list):
            return mism()
        out = bytearray()
        for x in v:
            r = py_load(pol, ("i", "u8"), 0, x)
            out.append(r if loaded(r) else 0)
        return ("b", bytes(out))
    if t == "<":
        # SerializeMapImpl: Clean clears; per member in document order convert the key, then
        #   Clean / UpdateKeys: the element under the key (a fresh one if there is none) is loaded; OnlyExistKeys: only if it is there
        if not (isinstance(v, tuple) and v[0] == "map"):
            return mism()
        cur = {} if s[3] == "c" else dict(init)
        seen = set()
        for k, x in v[1]:
            if isinstance(k, bool) or k is None or isinstance(k, list) or (isinstance(k, tuple) and k[0] in ("bin", "map")):
                raise Unjudged("key of an unsupported kind")
            if s[1][0] == "s":
                if not isinstance(k, bytes):
                    raise Unjudged("key of another class than the map's key type")
            else:
                if not isinstance(k, int):
                    raise Unjudged("key of another class than the map's key type")
                lo, hi = IKINDS[s[1][1]]
                if not (lo <= k < hi):
                    if pol[1] == "T":
                        raise Stop("O")
                    continue
            if k in seen or sum(1 for k2, _ in v[1] if k2 == k and type(k2) is type(k)) > 1:
                raise Unjudged("duplicate keys")
            seen.add(k)
            if s[3] == "o" and k not in cur:
                continue
            i0 = cur[k] if k in cur else default_val(s[2])
            cur[k] = after(i0, py_load(pol, s[2], i0, x))
        return cur
    if t == "{":
        if not (isinstance(v, tuple) and v[0] == "map"):
            return mism()
        for k, _ in v[1]:
            if isinstance(k, bool) or k is None or isinstance(k, list) or (isinstance(k, tuple) and k[0] in ("bin", "map")):
                raise Unjudged("key of an unsupported kind")
        out = []
        for (nm, x), (_, i0) in zip(s[1], init[1]):
            found = [val for k, val in v[1] if isinstance(k, bytes) and k == nm]
            if len(found) > 1:
                raise Unjudged("duplicate keys")
            # an absent member: the keyed load returns false; a wrapper has been reset to empty by then
            r = py_load(pol, x, i0, found[0]) if found else (Reset(None) if x[0] == "?" else NOT)
            out.append((nm, after(i0, r)))
        return ("o", out)
    # one typed read
    if v is None:
        return None if t == "n" else NOT
    if t == "n":
        return mism()
    if t in "Bi":
        if isinstance(v, bool) or isinstance(v, int):
            z = int(v)
            lo, hi = (0, 2) if t == "B" else IKINDS[s[1]]
            if not (lo <= z < hi):
                return ovf()
            return bool(z) if t == "B" else z
        return mism()
    if isinstance(v, bool) or isinstance(v, int):
        return mism()
    if t == "s":
        return v if isinstance(v, bytes) else mism()
    if t == "f":
        if isinstance(v, tuple) and v[0] == "f32":
            return ("f", v[1])
        if isinstance(v, tuple) and v[0] == "f64":
            d = f64_of(v[1])
            if -FLT_MAX <= d <= FLT_MAX:
                return ("f", struct.unpack(">I", struct.pack(">f", d))[0])
            return ovf()
        return mism()
    if t == "d":
        if isinstance(v, tuple) and v[0] == "f64":
            return ("d", v[1])
        if isinstance(v, tuple) and v[0] == "f32":
            f = f32_of(v[1])
            return ("d", 0x7ff8000000000000) if math.isnan(f) else ("d", struct.unpack(">Q", struct.pack(">d", f))[0])
        return mism()
    raise ValueError(s)


def expected(pol, s, data, init=None):
    try:
        v, i = M.dec_value(data)
    except M.Bad:
        return None
    if i != len(data):
        return None
    if init is None:
        init = default_val(s)
    try:
        r = py_load(pol, s, init, v)
    except Stop as e:
        return "ERR " + e.cat
    except Unjudged:
        return None
    return "OK " + show(s, after(init, r))


def clean_maps(s):
    t = s[0]
    if t == "<":
        return s[3] == "c" and clean_maps(s[2])
    if t == "[":
        return clean_maps(s[1])
    if t == "(":
        return clean_maps(s[2])
    if t == "^":
        return all(clean_maps(x) for x in s[1])
    if t == "?" or t == "M":
        return clean_maps(s[2])
    if t == "{":
        return all(clean_maps(x) for _, x in s[1])
    return True


def rand_prior(rng, s):
    """a content for a target of shape s: what loading a random document of that shape into a fresh target gives
    (so maps hold other keys, containers other sizes than the document that is loaded afterwards)"""
    _, _, val = rand_value(rng, s)
    try:
        r = py_load("SS", s, default_val(s), val)
    except (Stop, Unjudged):
        return default_val(s)
    return scrub(s, after(default_val(s), r))


def scrub(s, x):
    """NaN floats print as fnan / dnan, which cannot be read back as a prior: replace them"""
    t = s[0]
    if t == "f":
        return ("f", 0x3fc00000) if math.isnan(f32_of(x[1])) else x
    if t == "d":
        return ("d", 0x3ff8000000000000) if math.isnan(f64_of(x[1])) else x
    if t == "?":
        return None if x is None else scrub(s[2], x)
    if t == "M":
        return [(k, scrub(s[2], y)) for k, y in x]
    if t == "[":
        return [scrub(s[1], y) for y in x]
    if t == "(":
        return [scrub(s[2], y) for y in x]
    if t == "^":
        return [scrub(y, z) for y, z in zip(s[1], x)]
    if t == "<":
        return dict((k, scrub(s[2], y)) for k, y in x.items())
    if t == "{":
        return ("o", [(nm, scrub(sh, y)) for (nm, sh), (_, y) in zip(s[1], x[1])])
    return x


# ---------------------------------------------------------------- documents that differ from the saved value

def other_value(rng):
    return rng.choice([None, True, 5, -7, 300, 1 << 40, ("f32", 0x3f800000), ("f64", 0x4005000000000000), b"xy", ("bin", b"\x01\x02"),
                       [1, 2, 300], [b"a"], [], ("map", []), ("map", [(b"q", 1)])])


def perturb(rng, s, v, depth=0):
    """a document value that no longer matches the shape everywhere: members permuted / dropped / added, values of other kinds"""
    if rng.random() < 0.12:
        return other_value(rng)
    t = s[0]
    if t == "?":
        return perturb(rng, s[2], v, depth) if v is not None else rng.choice([None, None, other_value(rng)])
    if t == "M" and isinstance(v, list):
        pshape = ("{", [(b"key", s[1]), (b"value", s[2])])
        out = [perturb(rng, pshape, x, depth + 1) for x in v]
        if rng.random() < 0.6:
            rng.shuffle(out)
        if rng.random() < 0.3:
            out.insert(rng.randrange(len(out) + 1), other_value(rng))
        return out
    if t == "S" and isinstance(v, list):
        out = [other_value(rng) if rng.random() < 0.15 else x for x in v]
        if out and rng.random() < 0.4:
            out.append(rng.choice(out))
        rng.shuffle(out)
        return out
    if t == "[" and isinstance(v, list):
        out = [perturb(rng, s[1], x, depth + 1) for x in v]
        if rng.random() < 0.2:
            out.append(other_value(rng))
        return out
    if t == "(" and isinstance(v, list):
        out = [perturb(rng, s[2], x, depth + 1) for x in v]
        r = rng.random()
        if r < 0.15:
            out.append(other_value(rng))
        elif r < 0.3 and out:
            out.pop()
        return out
    if t == "^" and isinstance(v, list):
        out = [perturb(rng, x, y, depth + 1) for x, y in zip(s[1], v)]
        r = rng.random()
        if r < 0.25 and out:
            out = out[:rng.randrange(0, len(out))]
        elif r < 0.4:
            out.append(other_value(rng))
        return out
    if t == "v" and isinstance(v, list):
        out = [other_value(rng) if rng.random() < 0.25 else x for x in v]
        if rng.random() < 0.2:
            out.insert(0, rng.choice([None, b"x", 7]))
        return out
    if t == "<" and isinstance(v, tuple):
        kvs = [(k, perturb(rng, s[2], x, depth + 1)) for k, x in v[1]]
        if rng.random() < 0.6:
            rng.shuffle(kvs)
        have = set(k for k, _ in kvs)
        for _ in range(rng.choice([0, 0, 1, 2])):
            if s[1][0] == "s":
                ek = rng.choice([b"zz%d" % rng.randrange(100), b"", b"\xff"])
            else:
                ek = rng.choice([rng.randrange(-300, 70000), 1 << 40, -(1 << 40), (1 << 64) - 1, -(1 << 63), rng.randrange(-5, 5)])
            if rng.random() < 0.08:     # a key of another class: the model answers UNMODELLED
                ek = rng.choice([b"12", 7, ("f64", 0x3ff0000000000000), ("f32", 0x7fc00000)])
            if ek not in have:
                have.add(ek)
                kvs.insert(rng.randrange(len(kvs) + 1), (ek, perturb(rng, s[2], rand_value(rng, s[2], 3)[2], depth + 1) if rng.random() < 0.7 else other_value(rng)))
        return ("map", kvs)
    if t == "{" and isinstance(v, tuple):
        kvs = [(k, perturb(rng, dict(s[1])[k], x, depth + 1)) for k, x in v[1]]
        r = rng.random()
        if r < 0.5:
            rng.shuffle(kvs)
        if rng.random() < 0.4 and kvs:
            kvs.pop(rng.randrange(len(kvs)))
        names = set(k for k, _ in kvs) | set(k for k, _ in s[1])
        for _ in range(rng.choice([0, 0, 1, 2])):
            ek = rng.choice([b"zz%d" % rng.randrange(100), rng.randrange(-50, 1000), ("f64", 0x3ff0000000000000 + rng.randrange(100))])
            if ek not in names:
                names.add(ek)
                kvs.insert(rng.randrange(len(kvs) + 1), (ek, other_value(rng)))
        return ("map", kvs)
    return v


def gen_cases(rng, tier):
    n = 6000 if tier == "quick" else 80000
    trees = []
    for _ in range(n):
        s = rand_shape(rng)
        if s[0] not in "[{" and rng.random() < 0.7:
            s = ("{", [(b"m", s), (b"v", ("[", rand_shape(rng, 2)))])
        text, shown, val = rand_value(rng, s)
        trees.append((s, text, shown, val))
    return trees


def run_mpload(ctx, vlib):
    impl, saver, model = drivers(vlib)
    known = [k for k in vlib.load_known("C01") if k.get("driver") == "mpload" and k.get("status") == "known"]
    rng = ctx["rng"]
    trees = gen_cases(rng, ctx["tier"])
    saved = vlib.run_driver(saver, ["sv %s %s" % (rng.choice("ms"), text) for _, text, _, _ in trees])
    cases, meta = [], []

    def add(cls, text, s, kind, pol, hexdoc):
        """half of the loads go into a fresh target, half into a target that already holds something"""
        st = shape_text(s)
        if rng.random() < 0.5:
            cases.append("ld %s %s %s %s" % (kind, pol, st, hexdoc))
            meta.append((cls, text, s, None))
        else:
            init = rand_prior(rng, s)
            cases.append("ldp %s %s %s %s %s" % (kind, pol, st, show(s, init), hexdoc))
            meta.append((cls + " populated", text, s, init))
    for (s, _, text, val), sv in zip(trees, saved):
        pol = rng.choice(["TT", "TT", "SS", "ST", "TS"])
        if not sv.startswith("ERR") and sv != "UNSUPPORTED":
            # the implementation's own output, loaded back: must reproduce the tree (whatever the target holds, maps in Clean)
            for kind in "ms":
                add("saved", text, s, kind, pol, sv)
        # the independent encoder with random format widths
        add("encoded", text, s, rng.choice("ms"), pol, M.hx(M.enc_value(val, rng)))
        # members permuted / dropped / added, values of other kinds
        for _ in range(2):
            pol2 = rng.choice(["SS", "SS", "TT", "ST", "TS"])
            add("perturbed", None, s, rng.choice("ms"), pol2, M.hx(M.enc_value(perturb(rng, s, val), rng)))
    oi = vlib.run_driver(impl, cases)
    om = vlib.run_driver(model, cases)
    failing, diffs = [], []
    classes, verdicts = {}, {}
    seen, nontrivial = set(), 0
    for line, (cls, text, s, init), a, b in zip(cases, meta, oi, om):
        t = line.split(" ")
        key = "%s %s %s" % (cls, t[1], t[2])
        classes[key] = classes.get(key, 0) + 1
        if "<o|" in t[3] or "<u|" in t[3]:
            classes["map load modes"] = classes.get("map load modes", 0) + 1
        if line not in seen:
            seen.add(line)
            if len(t[-1]) > 4:
                nontrivial += 1
        if b == "UNMODELLED":
            # outside `modelled` (key of another class than the map's key type, equal keys): only no crash is required
            classes["unmodelled"] = classes.get("unmodelled", 0) + 1
            if a.startswith(("CRASH", "SANITIZER", "HANG", "TERMINATE")) and len(failing) < 20:
                failing.append(dict(driver="mpload", case=line, implementation=a, model=b, judge="FAIL", why="crash on a document outside the modelled domain"))
            verdicts["UNKNOWN"] = verdicts.get("UNKNOWN", 0) + 1
            continue
        exp = expected(t[2], s, bytes.fromhex(t[-1]) if t[-1] != "-" else b"", init)
        # save then load reproduces the value whatever the target holds, when every map is loaded with Clean (T_C01_mp_load_save_into)
        rt_ok = text is None or not clean_maps(s) or a == "OK " + text
        if exp is None:
            verdict, why = "UNKNOWN", "outside the judged domain"
        elif a == exp and rt_ok:
            verdict, why = "HOLD", "as the independent evaluation"
        elif not rt_ok:
            verdict, why = "FAIL", "save then load must reproduce the value: %s" % text[:200]
        else:
            verdict, why = "FAIL", "the independent evaluation expects: %s" % exp[:300]
        verdicts[verdict] = verdicts.get(verdict, 0) + 1
        if verdict == "FAIL" or a != b:
            rec = dict(driver="mpload", case=line, implementation=a, model=b, judge=verdict, why=why)
            if verdict == "FAIL" and len(failing) < 20:
                failing.append(rec)
            elif verdict != "FAIL" and len(diffs) < 20:
                diffs.append(rec)
    known_lines = []
    outs = vlib.run_driver(impl, [k["case"] for k in known], jobs=1) if known else []
    for k, out in zip(known, outs):
        if out == k["implementation"]:
            known_lines.append("%s: %s [case: %s -> %s]" % (k["id"], k["what"], k["case"], out))
        elif len(diffs) < 20:
            diffs.append(dict(driver="mpload", case=k["case"], implementation=out, model=k["implementation"], judge="KNOWN-FINDING-CHANGED",
                              why="listed known finding %s no longer reproduces as recorded" % k["id"]))
    step = max(1, len(cases) // 3)
    samples = [dict(case=cases[i][:400], implementation=oi[i][:200], model=om[i][:200]) for i in range(0, len(cases), step)][:3]
    return dict(evaluations=len(cases), distinct_nontrivial=nontrivial, samples=samples, classes=classes, failing=failing, diffs=diffs,
                known_lines=known_lines, extra=dict(mpload_verdicts=verdicts),
                rule="typed load of whole value trees through LoadObject<MsgPackArchive> (string and istream): random shapes (all integer kinds, bool, nullptr, float, double, string, byte container, nested vectors, classes with up to 6 string-named members, std::map<std::string, V> and std::map<integer type, V> for all eight integer types, std::array<V, N> with N in 0..5, std::vector<bool>, std::tuple of 0..4 components, std::optional / std::unique_ptr / std::shared_ptr of any of these, std::pair, std::multimap<K, V> and std::set<K> / std::multiset<K> with K = std::string or an integer type, depth <= 4); documents = the implementation's own SaveObject output of a random value of the shape, the independent Python encoder's output with random format widths, and perturbed documents (members permuted / dropped / added, map entries permuted and added with keys in and out of the key type's range and occasionally of another class, values of other kinds, extra elements) under the four policy combinations; std::map targets in the three MapLoadModes; half of the loads into a fresh target, half into a target that already holds the result of loading another random document of the shape; compared with the extracted specification load_bytes_into and with an independent Python evaluation; saved documents must load back to the saved tree whatever the target holds (maps in Clean)",
                broken="correspondence MsgPack typed load specification vs LoadObject<MsgPackArchive> (drv_mpload)")


def replay_mpload(rp, vlib):
    impl, saver, model = drivers(vlib)
    line = rp["case"]
    a = vlib.run_driver(impl, [line], jobs=1)[0]
    b = vlib.run_driver(model, [line], jobs=1)[0]
    return dict(case=line, implementation=a, model=b, agree=(a == b))
