"""C02 — no input can crash, hang or exhaust the loaders / string converters.

The property is its own oracle on the implementation: every call must end in OK or in an exception
derived from std::exception.  The sanitizer-built driver (ASan+UBSan, per-case watchdog, allocation cap)
turns everything else into an abnormal process exit, which vlib.run_driver reports as
CRASH / SANITIZER(..) / TERMINATE / HANG for exactly the case that caused it."""
import os
import mp_common as M
import utf_common as U

LEVEL = "proof"
TRUSTED_BASE = [
    "Coq 8.16.1 kernel; axioms: none (T_C02_* closed under the global context)",
    "the theorems are about the executable models (UTF transcoders, MsgPack reader) tied to /repo by the correspondence checks of C05/C07/C11/C12; they carry termination, in-bounds positions and ordinary outcomes for every input",
    "observed, not proved: memory safety / UB / stack / allocation of the real C++ under ASan+UBSan with a 10 s per-case watchdog and a 512 MB single-allocation cap (harness/drv_fuzz.cpp, public API LoadObject<MsgPack|CSV|JSON|XML> and Convert::To)",
    "trusted glue: harness/drv_fuzz.cpp, tools/vlib.py crash isolation, this generator",
]
ASSUMPTIONS = [
    "PARTIAL: C++ lifetime/memory safety is outside any Gallina model; it is explored, not proved",
    "known-finding classes: F17 = std::terminate while loading MsgPack (exception leaving ~CMsgPackReadObjectScope, the only throwing destructor on a read path per the C20 inventory); F19 = stack overflow on documents nested deeper than 1000 levels; F20 = single allocation above the cap requested from a declared element count larger than the input",
]

ASAN = "detect_leaks=1:abort_on_error=0:allocator_may_return_null=0:max_allocation_size_mb=512:malloc_context_size=5"

JSON_SEEDS = [b'5', b'"abc"', b'[1,2,3]', b'["a","b"]', b'{"a":1,"b":2}',
              b'{"i8":1,"u64":2,"f":1.5,"str":"x","wstr":"y","vec":[1,2],"mp":{"k":1},"inner":{"a":1,"s":"q"},"inners":[{"a":1,"s":"z"}],"opt":null,"ptr":{"a":2,"s":""},"tup":[1,"x"],"arr":[1,2,3],"tp":"2023-01-01T00:00:00Z","dur":"PT5S","color":"Green"}',
              b'[{"a":1,"s":"x"},{"a":2,"s":"y"}]', b'[[{"k":[1,2]}]]', b'1.5', b'[1,"x",[1,2]]']
XML_SEEDS = [b'<root>5</root>', b'<root>abc</root>', b'<array><value>1</value><value>2</value></array>', b'<array><value>a</value></array>',
             b'<root><a>1</a><b>2</b></root>',
             b'<root><i8>1</i8><str>x</str><vec><value>1</value></vec><inner><a>1</a><s>q</s></inner><tp>2023-01-01T00:00:00Z</tp></root>',
             b'<array><object><a>1</a><s>x</s></object></array>', b'<array><array><object><k><value>1</value></k></object></array></array>',
             b'<root>1.5</root>', b'<array><value>1</value><value>x</value><array><value>1</value></array></array>']
CSV_SEEDS = [b'id,name,score,flag\r\n1,a,1.5,true\r\n2,"b,c",2,false\r\n'] * 2 + [b'a,s\n1,x\n2,"y""z"\n']
CONV_KINDS = ['i8', 'u8', 'i16', 'u16', 'i32', 'u32', 'i64', 'u64', 'f32', 'f64', 'bool', 'tp_ns', 'tp_s', 'tp_d', 'dur_ns', 'dur_s', 'dur_h32', 'time_t', 'enum', 'u16s']
CONV_TEXTS = [b'', b'0', b'-1', b' 12', b'300', b'1e400', b'99999999999999999999999', b'true', b'TRUE', b'2023-01-01T00:00:00Z',
              b'-9999999999999-01-01T00:00:00Z', b'+292277026596-12-04T15:30:07Z', b'-292277022657-01-27T08:29:52Z', b'PT5S', b'P1W2DT3H4M5.5S',
              b'-P99999999999999999999D', b'PT0.0000000001S', b'Green', b'\xff\xfe', b'1.5', b'.5', b'0x10', b'+5', b'nan', b'inf', b'-inf',
              b'1970-01-01T00:00:00.123456789Z', b'9999-99-99T99:99:99Z', b'0000-01-01T00:00:00Z', b'-0001-12-31T23:59:59Z',
              b'1677-09-21T00:12:43.145224192Z', b'1677-09-21T00:12:43Z', b'2262-04-11T23:47:16.854775807Z', b'-32768-01-01T00:00:00Z',
              b'P106751DT23H47M16.854775807S', b'-P106751DT23H47M16.854775808S', b'PT2562047788015215H', b'P', b'PT', b'1', b'9223372036854775808']


def hx(b):
    return b.hex() if b else "-"


def mp_seed(t, rng):
    V = [5, b'abc', [1, 2, 3], [b'a', b'b'], ('map', [(b'a', 1), (b'b', 2)]),
         ('map', [(b'i8', 1), (b'u64', 2), (b'f', ('f32', 0x3fc00000)), (b'str', b'x'), (b'vec', [1, 2]), (b'mp', ('map', [(b'k', 1)])),
                  (b'inner', ('map', [(b'a', 1), (b's', b'q')])), (b'inners', [('map', [(b'a', 1), (b's', b'z')])]), (b'opt', None),
                  (b'tup', [1, b'x']), (b'arr', [1, 2, 3]), (b'tp', ('ext', 0xff, (1672531200).to_bytes(4, 'big'))), (b'color', b'Green'),
                  (b'bytes', ('bin', b'\x01\x02'))]),
         [('map', [(b'a', 1), (b's', b'x')])], [[('map', [(b'k', [1, 2])])]], ('f64', 0x3ff8000000000000), [1, b'x', [1, 2]]]
    return M.enc_value(V[t], rng)


def mutate(d, rng):
    k = rng.random()
    if k < 0.3 and len(d) > 0:
        return d[:rng.randrange(len(d))]
    if k < 0.6 and len(d) > 0:
        i = rng.randrange(len(d))
        return d[:i] + bytes([rng.randrange(256)]) + d[i + 1:]
    if k < 0.75:
        i = rng.randrange(len(d) + 1)
        return d[:i] + bytes(rng.randrange(256) for _ in range(rng.randrange(1, 5))) + d[i:]
    if k < 0.9 and len(d) > 2:
        i = rng.randrange(len(d)); j = rng.randrange(i, len(d))
        return d[:i] + d[i:j] * 2 + d[j:]
    return bytes(rng.randrange(256) for _ in range(rng.randrange(0, 40)))


def gen_cases(rng, tier):
    n = 6000 if tier == "quick" else 120000
    cases = []
    for _ in range(n):
        a = rng.choice(['mp', 'mp', 'json', 'xml', 'csv'])
        t = rng.randrange(0, 10) if a != 'csv' else rng.randrange(0, 3)
        d = {'mp': lambda t: mp_seed(t, rng), 'json': lambda t: JSON_SEEDS[t], 'xml': lambda t: XML_SEEDS[t], 'csv': lambda t: CSV_SEEDS[t]}[a](t)
        if rng.random() < 0.8:
            d = mutate(d, rng)
        if rng.random() < 0.3:
            d = mutate(d, rng)
        t2 = t if rng.random() < 0.7 else (rng.randrange(0, 10) if a != 'csv' else rng.randrange(0, 3))
        cases.append("load %s %d %s %s %s" % (a, t2, rng.choice('ms'), rng.choice(['TT', 'SS', 'TS', 'STS']), hx(d)))
    # every truncation of the seed documents
    for a, seeds in (('json', JSON_SEEDS), ('xml', XML_SEEDS), ('csv', CSV_SEEDS)):
        for t, s in enumerate(seeds):
            for k in range(0, len(s), 1 if tier != "quick" else 3):
                cases.append("load %s %d %s TT %s" % (a, t, rng.choice('ms'), hx(s[:k])))
    for t in range(10):
        s = mp_seed(t, None)
        for k in range(len(s)):
            cases.append("load mp %d %s %s %s" % (t, rng.choice('ms'), rng.choice(['TT', 'SS']), hx(s[:k])))
    # boundary families
    for hdr in (b'\xdd\xff\xff\xff\xff', b'\xdc\xff\xff', b'\xdf\xff\xff\xff\xff', b'\xdb\xff\xff\xff\xff', b'\xc6\xff\xff\xff\xff', b'\xdd\x00\x10\x00\x00'):
        for t in (1, 2, 3, 4, 5):
            cases.append("load mp %d m SS %s" % (t, hx(hdr + b'\x01\x02')))
            cases.append("load mp %d s SS %s" % (t, hx(hdr + b'\x01\x02')))
    for depth in (100, 1000, 60000):
        cases.append("load mp 7 m SS %s" % hx(b'\x91' * depth + b'\x00'))
        cases.append("load mp 0 m SS %s" % hx(b'\x91' * depth + b'\x00'))
        cases.append("load mp 0 s SS %s" % hx(b'\x91' * depth + b'\x00'))
        cases.append("load json 7 m SS %s" % hx(b'[' * depth * 4 + b']' * depth * 4))
        cases.append("load xml 7 m SS %s" % hx(b'<array>' * depth + b'</array>' * depth))
    for enc in ("utf-16-le", "utf-16-be", "utf-32-le"):
        txt = 'id,name\r\n1,€\U0001F600\r\n'.encode(enc)
        for cut in range(0, len(txt) + 1):
            cases.append("load csv 0 s TT %s" % hx(txt[:cut]))
            cases.append("load csv 0 s STS %s" % hx(txt[:cut]))
    for k in CONV_KINDS:
        for s in CONV_TEXTS:
            cases.append("conv %s %s" % (k, hx(s)))
        for _ in range(30 if tier == "quick" else 400):
            base = rng.choice(CONV_TEXTS)
            cases.append("conv %s %s" % (k, hx(mutate(base, rng))))
    return cases


def nesting_depth(a, data):
    if a == 'mp':
        return max([0] + [len(run) for run in _runs(data, lambda c: 0x90 <= c <= 0x9f or 0x80 <= c <= 0x8f or c in (0xdc, 0xdd, 0xde, 0xdf))])
    if a == 'json':
        return max(data.count(b'['), data.count(b'{'))
    return data.count(b'<')


def _runs(data, pred):
    cur = bytearray()
    for c in data:
        if pred(c):
            cur.append(c)
        else:
            if cur:
                yield cur
            cur = bytearray()
    if cur:
        yield cur


def classify(line, out):
    """OK: property holds; else (finding id | None, description)"""
    if out == "OK" or out == "UNSUPPORTED":
        return "ok", None
    if out.startswith("EXC:"):
        if out == "EXC:NONSTD":
            return "bad", "exception not derived from std::exception"
        if out in ("EXC:BADALLOC", "EXC:LENGTH"):
            return "alloc", out
        return "ok", None
    t = line.split(" ")
    a = t[1] if t[0] == "load" else "conv"
    data = bytes.fromhex(t[-1]) if t[-1] != "-" else b""
    if out == "TERMINATE" and a == "mp":
        return "F17", "std::terminate while loading MsgPack"
    if "stack-overflow" in out and t[0] == "load" and nesting_depth(a, data) >= 1000:
        return "F19", "stack overflow on deeply nested document"
    if ("allocation-size-too-big" in out or "out-of-memory" in out or "requested" in out) and a == "mp":
        return "F20", "allocation request out of proportion to the input"
    return "bad", out


def run(ctx, vlib):
    impl = vlib.build_cpp("drv_fuzz", ["drv_fuzz.cpp"] + vlib.repo_sources("src/msgpack/*.cpp", "src/csv/*.cpp", "src/common/*.cpp"), libs=["-lpugixml"])
    rng = ctx["rng"]
    cases = U.load_corpus("C02") + gen_cases(rng, ctx["tier"])
    outs = vlib.run_driver(impl, cases, asan_options=ASAN, timeout=1200)
    failing, classes, known_hits = [], {}, {}
    seen = set()
    nt = 0
    for line, o in zip(cases, outs):
        t = line.split(" ")
        key = "%s %s" % (t[0], t[1])
        cls, why = classify(line, o)
        okey = key + " -> " + (o.split(":")[0] if o.startswith("EXC") else o if cls in ("ok",) else cls)
        classes[okey] = classes.get(okey, 0) + 1
        if line not in seen:
            seen.add(line)
            if o != "OK" and o != "UNSUPPORTED":
                nt += 1
        if cls == "bad" or cls == "alloc" and False:
            if len(failing) < 20:
                failing.append(dict(driver="fuzz", case=line, implementation=o, judge="FAIL", why=why))
        elif cls in ("F17", "F19", "F20"):
            known_hits.setdefault(cls, []).append((line, o))
    known_lines = []
    kn = {k["id"]: k for k in vlib.load_known("C02") if k.get("status") == "known"}
    for fid, hits in sorted(known_hits.items()):
        if fid in kn:
            line, o = min(hits, key=lambda x: len(x[0]))
            known_lines.append("%s: %s [%d inputs of this class in this run, e.g.: %s -> %s]" % (fid, kn[fid]["what"], len(hits), line[:120], o))
        else:
            for line, o in hits[:5]:
                failing.append(dict(driver="fuzz", case=line, implementation=o, judge="FAIL", why="class %s is not a listed known finding" % fid))
    # listed witnesses must still reproduce (otherwise the finding file is stale: reported as a difference)
    diffs = []
    wl = [k for k in kn.values() if k.get("case")]
    if wl:
        wo = vlib.run_driver(impl, [k["case"] for k in wl], asan_options=ASAN, jobs=1, timeout=120)
        for k, o in zip(wl, wo):
            if classify(k["case"], o)[0] != k["id"]:
                diffs.append(dict(driver="fuzz", case=k["case"], implementation=o, model=k["implementation"], judge="KNOWN-FINDING-CHANGED",
                                  why="listed known finding %s no longer reproduces as recorded" % k["id"]))
            elif k["id"] not in known_hits:
                known_lines.append("%s: %s [case: %s -> %s]" % (k["id"], k["what"], k["case"][:120], o))
    samples = [dict(case=cases[i], outcome=outs[i]) for i in (0, len(cases) // 3, 2 * len(cases) // 3, len(cases) - 1)]
    return dict(evaluations=len(cases), distinct_nontrivial=nt, samples=samples, classes=classes, failing=failing, diffs=diffs,
                known_lines=known_lines,
                rule="structure-aware mutations (truncate, flip, insert, duplicate slice, random) of valid MsgPack/JSON/XML/CSV documents for 10 target shapes (scalar, string, vectors, map, large class with every member kind, nested containers, tuple), every truncation of every seed, arbitrary bytes, boundary families (declared counts 2^16-1 / 2^32-1, nesting depth 100..240000, UTF-16/32 CSV streams cut at every byte), memory and stream, 4 policy settings; plus Convert::To for 20 target kinds on boundary and mutated strings; oracle = the property itself (outcome must be OK or an exception derived from std::exception); non-trivial = distinct case that did not simply succeed",
                broken="robustness exploration drv_fuzz")


def replay(rp, vlib):
    impl = vlib.build_cpp("drv_fuzz", ["drv_fuzz.cpp"] + vlib.repo_sources("src/msgpack/*.cpp", "src/csv/*.cpp", "src/common/*.cpp"), libs=["-lpugixml"])
    o = vlib.run_driver(impl, [rp["case"]], asan_options=ASAN, jobs=1)[0]
    return dict(case=rp["case"], implementation=o, classification=classify(rp["case"], o))
