"""C03 — named fields load correctly in any request order, with absent and unread fields (MsgPack
archive), plus the scope-level half of C05 (array / object scopes keep their element counters in step
with the reader when a value is skipped).

Correspondence: request histories interpreted with real scope calls (harness/drv_mpscope.cpp) against
the extracted scope model (coq/MpScopeModel.v via ml/mpscope_driver.ml); every disagreement and every
implementation answer is judged by an independent Python evaluation of the history over the document
as decoded by the independent Python decoder of mp_common."""
import itertools, json, math, os, struct
import mp_common as M
import utf_common as U

LEVEL = "proof"
EXTRA_PROPERTIES = ["C03s", "C03csv", "C03jx"]     # C03jx: the JSON / XML instance (jx family); C03csv: the CSV instance (by-name requests on a row in any order; csv family); the scopes as an adaptive client of the reader interface: stream = memory at the scope level (coq/MpScopeClient.v, Properties_C03s.v)
TRUSTED_BASE = [
    "Coq 8.16.1 kernel incl. vm_compute (witnesses of the _refuted theorems, Examples, byte-class sweeps); no native_compute",
    "axioms: none (every theorem prints 'Closed under the global context')",
    "hand-written Gallina model coq/MpScopeModel.v of CVariableKey::operator==, CMsgPackReadObjectScope (ReadKey, FindValueByKey, ResetKey, SerializeValue, Open*Scope, OnFinishChildScope, VisitKeys, destructor), CMsgPackReadArrayScope, CMsgPackReadBinaryScope in include/bitserializer/msgpack_archive.h, over the reader model coq/MpModel.v (family mp: C05/C06/C07); specification coq/MpScopeSpec.v (association-list semantics of request histories) over the reference decoder coq/MpSpec.v",
    "modelled, not verified: C++ operator== on float/double = IEEE equality on bit patterns (ieee_eq32/64); RAII destruction order (child scope destroyed before the parent continues; during unwinding the derived destructor body runs, then ~CMsgPackScopeBase notifies the parent); the destructors' try { } catch (...) { } = a failing skip stops the loop and leaves the reader where SkipValue threw (skip_at); no destructor of the scopes lets an exception escape (the model has no terminate outcome; an implementation TERMINATE is a disagreement); double->float / float->double conversions supplied by the driver; string_view keys of the stream reader alias the reader's buffer (not modelled: the model compares key values)",
    "the stream reader under the scopes: for keyed value / object / array requests, array element requests, VisitKeys and VisitKeys callbacks (RGet / RObj / RArr / AGet / AObj / AArr / AEnd / RVisit / REach with VSkip / VGet / VObj / VArr; nested, any order) on a seekable stream T_C03_stream_equals_memory (Properties_C03s.v: the scope model re-expressed as a client of the reader interface, coq/MpScopeClient.v, composed with T_C10mp_adaptive_stream_equals_memory of the mpstream family and its models coq/MpStreamModel.v / StreamModel.v); for byte arrays, guarded / throwing requests, histories ending in an error and non-seekable streams the stream reader (kinds s, S) is tied to the same model by this correspondence run only",
    "CSV instance (Properties_C03csv.v): hand-written model coq/CsvModel.v of src/csv/csv_readers.cpp (ReadValue(key): ++mValueIndex then search, per-row cursor, the stream reader's in-place unescape cache) with request programs per row (csv_load_hist / csv_load_stream_hist / csv_load_chunks_hist); tied by harness/drv_csv.cpp op csvh + ml/csv_driver.ml + props/C03csv.py (independent Python reading as judge); UTF-16/32 CSV streams are composed through the chunks theorem, not run with histories; typed (non-string) targets are C09's",
    "JSON / XML instance (Properties_C03jx.v): hand-written model coq/JxHistModel.v of the object / array / attribute scopes of rapidjson_archive.h and pugixml_archive.h over the DOM the adapter model (coq/JxModel.v) assigns to the document text; RapidJSON's FindMember and pugixml's child(name) / attribute(name) are MODELLED as first-match searches from the start (validated on every run incl. duplicate names); 'a not-loaded target is unchanged' is observed by the driver's sentinel targets, not stated in Coq; tied by harness/drv_jx.cpp op jx.hist + ml/jx_driver.ml + props/C03jx.py",
    "extraction: ExtrOcamlBasic only; trusted glue ml/glue.ml ml/glue_mpscope.ml ml/mpscope_driver.ml harness/drv_mpscope.cpp props/C03.py props/mp_common.py (independent Python encoder/decoder + history evaluator used for input generation and for judging)",
]
ASSUMPTIONS = [
    "input bytes are < 256 (C++ char); reader positions are modelled as suffixes of the immutable input, mStartPos as the suffix at the first member",
    "documents of the theorems: every value the reference decoder accepts whose maps (at every depth) have keys of the supported kinds (string, integer, float, double, timestamp 32/64/96), pairwise different under the library's key equality; timestamp 96 is read in the library's field order (known finding F08 of C06/C07)",
    "guarded requests (array item t,(,item,): the DRIVER wraps the item in try / catch (SerializationException of code OutOfRange); no library code does since 9e55af6, M02 fixed): the model and the independent evaluation catch every OutOfRange, as a C++ catch does; the Coq specification's ATry catches only the exhaustion of the array the request is made on, so histories in which something raised further inside is caught are outside T_C03_mp_refines (the specification ends in the error) and are compared implementation vs model vs independent evaluation only",
    "requests from inside a VisitKeys callback (history item E: the i-th action under the i-th visited key, what SerializeMapImpl does): the callback gets a copy of the visited key (d346324; known finding M01, fixed), so the request is the ordinary keyed one; NaN keys are inside the theorem and the judged domain",
    "the reader's mCloseScopeFailed flag (8d03f7f) is observed directly for kinds m, s (IsCloseScopeFailed() after the root scope is gone) and through MsgPackReadRootScope::Finalize() for kinds M, S, called after an error-free history as LoadObject does; after an exception the flag is not observed (LoadObject does not call Finalize() then)",
    "request keys are passed as std::string, uint64_t, int64_t, float, double or CBinTimestamp; targets are the ReadValue overloads (bool, char, (u)int8..64, nullptr_t, float, double, string_view, CBinTimestamp); container targets of the archive layer (vector, map, tuple, classes) reach the scopes through exactly these calls but are not themselves part of this check (C18/C17 own the archive layer)",
    "after an exception thrown from inside a value by a typed read the reader position is not determined by the model; the unwinding destructors cannot throw (all their reads stand inside try/catch since 0863f96 / 49f9936 / 3580349), so the answer is the exception in every case and TERMINATE never agrees with the model",
    "stream reader (kinds s, S) on ILL-FORMED documents: only 'no crash / sanitizer report / hang / terminate' is required, because the stream reader's position at a throw (and so where a guarded destructor leaves the reader) differs from the string reader's; on every document the reference decoder accepts the comparison is exact",
]

DRIVER = "mpscope"
KINDS = ["m", "s", "M", "S"]
INT_TARGETS = ["u1", "u8", "u16", "u32", "u64", "c8", "s8", "s16", "s32", "s64"]
TARGETS = INT_TARGETS + ["nil", "f32", "f64", "str", "ts"]
INT_RANGE = {"u1": (0, 2), "u8": (0, 1 << 8), "u16": (0, 1 << 16), "u32": (0, 1 << 32), "u64": (0, 1 << 64),
             "c8": (-128, 128), "s8": (-128, 128), "s16": (-(1 << 15), 1 << 15), "s32": (-(1 << 31), 1 << 31), "s64": (-(1 << 63), 1 << 63)}

def drivers(vlib):
    impl = vlib.build_cpp("drv_mpscope", ["drv_mpscope.cpp"] + vlib.repo_sources("src/msgpack/*.cpp", "src/common/*.cpp"))
    model = vlib.build_model("mpscope")
    return impl, model


# ---------------------------------------------------------------- keys, values (Python side, independent)

def shex(v):
    return ("-%x" % -v) if v < 0 else ("+%x" % v)


def f32_of(bits):
    return struct.unpack(">f", bits.to_bytes(4, "big"))[0]


def f64_of(bits):
    return struct.unpack(">d", bits.to_bytes(8, "big"))[0]


def ts_lib(payload):
    """the library's reading of a timestamp payload (12 bytes: seconds first — finding F08)"""
    if len(payload) == 4:
        return int.from_bytes(payload, "big"), 0
    if len(payload) == 8:
        d = int.from_bytes(payload, "big")
        return d & ((1 << 34) - 1), d >> 34
    if len(payload) == 12:
        return int.from_bytes(payload[:8], "big", signed=True), int.from_bytes(payload[8:], "big", signed=True)
    return None


def ts_payload_lib(secs, nanos, rng):
    opts = []
    if nanos == 0 and 0 <= secs < 1 << 32:
        opts.append(secs.to_bytes(4, "big"))
    if 0 <= secs < 1 << 34 and 0 <= nanos < 1 << 30:
        opts.append(((nanos << 34) | secs).to_bytes(8, "big"))
    opts.append(secs.to_bytes(8, "big", signed=True) + nanos.to_bytes(4, "big", signed=True))
    return rng.choice(opts)


def key_of_value(v):
    """key denoted by a decoded document value, or None if its kind is not a supported key kind"""
    if isinstance(v, bool) or v is None:
        return None
    if isinstance(v, int):
        return ("i", v)
    if isinstance(v, bytes):
        return ("s", v)
    if isinstance(v, tuple):
        if v[0] == "f32":
            return ("f", v[1])
        if v[0] == "f64":
            return ("d", v[1])
        if v[0] == "ext" and v[1] == 0xFF:
            t = ts_lib(v[2])
            return ("t",) + t if t else None
    return None


def key_eq(a, b):
    if a[0] != b[0]:
        return False
    if a[0] == "f":
        return f32_of(a[1]) == f32_of(b[1])
    if a[0] == "d":
        return f64_of(a[1]) == f64_of(b[1])
    return a[1:] == b[1:]


def key_text(k, rng=None):
    """request-key syntax of the drivers for a key tuple"""
    if k[0] == "s":
        return "s" + M.hx(k[1])
    if k[0] == "i":
        z = k[1]
        if z >= 0 and (z >= 1 << 63 or rng is None or rng.random() < 0.5):
            return "u%x" % z
        return "i" + shex(z)
    if k[0] == "f":
        return "f%x" % k[1]
    if k[0] == "d":
        return "d%x" % k[1]
    return "t%s_%s" % (shex(k[1]), shex(k[2]))


def parse_key(s):
    b = s[1:]
    if s[0] == "s":
        return ("s", bytes.fromhex(b) if b != "-" else b"")
    if s[0] == "u":
        return ("i", int(b, 16))
    if s[0] == "i":
        return ("i", int(b[1:], 16) * (-1 if b[0] == "-" else 1))
    if s[0] == "f":
        return ("f", int(b, 16))
    if s[0] == "d":
        return ("d", int(b, 16))
    a, c = b.split("_")
    return ("t", int(a[1:], 16) * (-1 if a[0] == "-" else 1), int(c[1:], 16) * (-1 if c[0] == "-" else 1))


def visit_key_text(k):
    if k[0] == "s":
        return "s" + M.hx(k[1])
    if k[0] == "i":
        return "i" + shex(k[1])
    if k[0] == "f":
        return "f" + ("nan" if math.isnan(f32_of(k[1])) else "%x" % k[1])
    if k[0] == "d":
        return "d" + ("nan" if math.isnan(f64_of(k[1])) else "%x" % k[1])
    return "t%s_%s" % (shex(k[1]), shex(k[2]))


FLT_MAX = f32_of(0x7f7fffff)


class Stop(Exception):
    """the program ends with an exception of the given category"""
    def __init__(self, cat):
        self.cat = cat


class Unjudged(Exception):
    pass


def typed(pol, tg, v):
    """what a target of kind tg receives from document value v: token text, or raises Stop(cat)"""
    def mism():
        if pol[0] == "T":
            raise Stop("M")
        return "F"

    def ovf():
        if pol[1] == "T":
            raise Stop("O")
        return "F"
    if v is None:
        return "Tnil" if tg == "nil" else "F"
    if tg in INT_RANGE:
        if isinstance(v, bool) or isinstance(v, int):
            z = int(v)
            lo, hi = INT_RANGE[tg]
            return "T" + shex(z) if lo <= z < hi else ovf()
        return mism()
    if isinstance(v, bool) or isinstance(v, int):
        return mism()
    if tg == "str":
        return "Ts" + M.hx(v) if isinstance(v, bytes) else mism()
    if tg == "f32":
        if isinstance(v, tuple) and v[0] == "f32":
            return "Tf" + ("nan" if math.isnan(f32_of(v[1])) else "%x" % v[1])
        if isinstance(v, tuple) and v[0] == "f64":
            d = f64_of(v[1])
            if -FLT_MAX <= d <= FLT_MAX:
                return "Tf%x" % struct.unpack(">I", struct.pack(">f", d))[0]
            return ovf()
        return mism()
    if tg == "f64":
        if isinstance(v, tuple) and v[0] == "f64":
            return "Td" + ("nan" if math.isnan(f64_of(v[1])) else "%x" % v[1])
        if isinstance(v, tuple) and v[0] == "f32":
            f = f32_of(v[1])
            return "Td" + ("nan" if math.isnan(f) else "%x" % struct.unpack(">Q", struct.pack(">d", f))[0])
        return mism()
    if tg == "ts":
        if isinstance(v, tuple) and v[0] == "ext" and v[1] == 0xFF:
            t = ts_lib(v[2])
            if t is None:
                raise Unjudged("timestamp of an invalid size")
            return "Tt%s_%s" % (shex(t[0]), shex(t[1]))
        return mism()
    if tg == "nil":
        return mism()
    raise ValueError(tg)


# ---------------------------------------------------------------- history syntax

def parse_history(s):
    toks = [] if s == "-" else s.split(",")
    pos = [0]

    def items():
        out = []
        while pos[0] < len(toks) and toks[pos[0]] != ")":
            f = toks[pos[0]].split(":")
            pos[0] += 1
            nd = {"k": f[0]}
            if f[0] == "G":
                nd["key"], nd["tg"] = f[1], f[2]
            elif f[0] == "B":
                nd["key"], nd["n"] = f[1], int(f[2])
            elif f[0] in ("O", "A"):
                nd["key"] = f[1]
            elif f[0] == "g":
                nd["tg"] = f[1]
            elif f[0] in ("b", "c"):
                nd["n"] = int(f[1])
            elif f[0] == "x":
                nd["tg"] = f[1]
            if f[0] in "OAoaEct":
                assert toks[pos[0]] == "("
                pos[0] += 1
                nd["body"] = items()
                assert toks[pos[0]] == ")"
                pos[0] += 1
            out.append(nd)
        return out
    r = items()
    assert pos[0] == len(toks)
    return r


def fmt_history(items):
    out = []

    def go(items):
        for nd in items:
            k = nd["k"]
            if k == "G":
                out.append("G:%s:%s" % (nd["key"], nd["tg"]))
            elif k == "B":
                out.append("B:%s:%d" % (nd["key"], nd["n"]))
            elif k in ("O", "A"):
                out.append("%s:%s" % (k, nd["key"]))
            elif k == "g":
                out.append("g:" + nd["tg"])
            elif k in ("b", "c"):
                out.append("%s:%d" % (k, nd["n"]))
            elif k == "x":
                out.append("x:" + nd["tg"])
            else:
                out.append(k)
            if k in "OAoaEct":
                out.append("(")
                go(nd["body"])
                out.append(")")
    go(items)
    return ",".join(out) if out else "-"


# ---------------------------------------------------------------- independent evaluation of a history

class Eval:
    """association-list semantics: no cursor, no positions"""

    def __init__(self, pol):
        self.pol = pol
        self.toks = []
        self.partial = False     # an array / byte-array child was left with elements unread (class of F14)
        self.nested_range = False   # a try item caught an OutOfRange raised INSIDE its request: outside the Coq specification of ATry

    def lookup(self, kvs, key):
        for k, v in kvs:
            kk = key_of_value(k)
            if kk is None:
                raise Unjudged("key of an unsupported kind")
            if key_eq(kk, key):
                return True, v
        return False, None

    def not_container(self, v):
        if v is None or self.pol[0] == "S":
            self.toks.append("n")
        else:
            raise Stop("M")

    def bytes_child(self, bs, n):
        self.toks.append("(")
        for i in range(n):
            if i >= len(bs):
                raise Stop("R")
            self.toks.append("x%x" % bs[i])
        self.toks.append(")")
        if n < len(bs):
            self.partial = True

    def obj(self, kvs, items):
        keys = []
        for k, _ in kvs:
            kk = key_of_value(k)
            if kk is None:
                raise Unjudged("key of an unsupported kind")
            if any(key_eq(kk, x) for x in keys):
                raise Unjudged("duplicate keys")
            keys.append(kk)
        for nd in items:
            k = nd["k"]
            if k == "V":
                self.toks.append("K[" + ";".join(visit_key_text(x) for x in keys) + "]")
                continue
            if k == "E":
                # VisitKeys with a callback: the i-th action under the i-th key (document order)
                for kk, act in zip(keys, nd["body"]):
                    self.keyed(kvs, kk, act)
                continue
            found, v = self.lookup(kvs, parse_key(nd["key"]))
            if k == "G":
                self.toks.append(typed(self.pol, nd["tg"], v) if found else "F")
            elif k == "O":
                if not found:
                    self.toks.append("n")
                elif isinstance(v, tuple) and v[0] == "map":
                    self.toks.append("(")
                    self.obj(v[1], nd["body"])
                    self.toks.append(")")
                else:
                    self.not_container(v)
            elif k == "A":
                if not found:
                    self.toks.append("n")
                elif isinstance(v, list):
                    self.toks.append("(")
                    left = self.arr(v, nd["body"])
                    self.toks.append(")")
                    if left:
                        self.partial = True
                else:
                    self.not_container(v)
            elif k == "B":
                if found and isinstance(v, tuple) and v[0] == "bin":
                    self.bytes_child(v[1], nd["n"])
                else:
                    self.toks.append("n")
            else:
                raise ValueError(k)

    def keyed(self, kvs, kk, act):
        a = act["k"]
        if a == "k":
            return
        if a == "x":
            raise Stop(act["tg"])
        found, v = self.lookup(kvs, kk)
        if a == "g":
            self.toks.append(typed(self.pol, act["tg"], v) if found else "F")
        elif a == "o":
            if not found:
                self.toks.append("n")
            elif isinstance(v, tuple) and v[0] == "map":
                self.toks.append("(")
                self.obj(v[1], act["body"])
                self.toks.append(")")
            else:
                self.not_container(v)
        elif a in ("a", "c"):
            if a == "c":
                if found and isinstance(v, tuple) and v[0] == "bin":
                    self.bytes_child(v[1], act["n"])
                    return
                self.toks.append("n")
            if not found:
                self.toks.append("n")
            elif isinstance(v, list):
                self.toks.append("(")
                left = self.arr(v, act["body"])
                self.toks.append(")")
                if left:
                    self.partial = True
            else:
                self.not_container(v)
        elif a == "b":
            if found and isinstance(v, tuple) and v[0] == "bin":
                self.bytes_child(v[1], act["n"])
            else:
                self.toks.append("n")
        else:
            raise ValueError(a)

    def arr(self, vs, items):
        vs = list(vs)
        self.run_arr(vs, items)
        return vs

    def run_arr(self, vs, items):
        """the items on the elements vs (consumed in place)"""
        for nd in items:
            k = nd["k"]
            if k == "e":
                self.toks.append("E1" if not vs else "E0")
                continue
            if k == "x":
                raise Stop(nd["tg"])
            if k == "t":
                # a caller's try { item } catch (OutOfRange) { }: whatever raised it; the scopes in between have been left
                # (the element they stood for is consumed), the observations made so far stay
                own = not vs and nd["body"][0]["k"] in "goab"
                try:
                    self.run_arr(vs, nd["body"][:1])
                except Stop as st:
                    if st.cat != "R":
                        raise
                    if not own:
                        self.nested_range = True    # the Coq specification (ATry) catches the array's own exhaustion only
                    self.toks.append("C")
                continue
            if not vs:
                raise Stop("R")
            v = vs[0]
            if k == "g":
                vs.pop(0)
                self.toks.append(typed(self.pol, nd["tg"], v))
            elif k == "o":
                vs.pop(0)
                if isinstance(v, tuple) and v[0] == "map":
                    self.toks.append("(")
                    self.obj(v[1], nd["body"])
                    self.toks.append(")")
                else:
                    self.not_container(v)
            elif k == "a":
                vs.pop(0)
                if isinstance(v, list):
                    self.toks.append("(")
                    left = self.arr(v, nd["body"])
                    self.toks.append(")")
                    if left:
                        self.partial = True
                else:
                    self.not_container(v)
            elif k == "b":
                if isinstance(v, tuple) and v[0] == "bin":
                    vs.pop(0)
                    self.bytes_child(v[1], nd["n"])
                else:
                    self.toks.append("n")
            else:
                raise ValueError(k)


def expected(line):
    """(answer the property demands, the evaluation with its class flags) for a case on a well-formed document;
    raises Unjudged for documents / requests outside the property's domain, M.Bad for ill-formed documents"""
    t = line.split(" ")
    op, kind, pol, doc, hist = t
    data = bytes.fromhex(doc) if doc != "-" else b""
    v, i = M.dec_value(data)
    items = parse_history(hist)
    ev = Eval(pol)
    try:
        if op == "hist":
            if isinstance(v, tuple) and v[0] == "map":
                ev.toks.append("(")
                ev.obj(v[1], items)
                ev.toks.append(")")
            else:
                ev.not_container(v)
        else:
            if isinstance(v, list):
                ev.toks.append("(")
                left = ev.arr(v, items)
                ev.toks.append(")")
                if left:
                    ev.partial = True     # a root array left partly read: the reader stays inside it (F14 at the root)
            else:
                ev.not_container(v)
    except Stop as s:
        return (",".join(ev.toks) if ev.toks else "-") + " ERR " + s.cat, ev
    # sentinel: one more int64 read after the document
    pos = "?" if kind in "MS" else str(i)
    try:
        if i >= len(data):
            sent = "ERR:P"
        else:
            sv, _ = M.dec_value(data, i)
            try:
                sent = typed(pol, "s64", sv)
            except Stop as s:
                sent = "ERR:" + s.cat
    except M.Bad:
        sent = None
    # a well-formed document: no scope fails to skip its rest, Finalize() has nothing to report
    ans = "%s END %s %s %s" % (",".join(ev.toks) if ev.toks else "-", pos, sent, "OK" if kind in "MS" else "CF0")
    return (ans if sent is not None else None), ev


def is_failure(ans):
    return ans == "TERMINATE" or " ERR " in ans or " ERR? " in ans


def illformed(line):
    t = line.split(" ")
    data = bytes.fromhex(t[3]) if t[3] != "-" else b""
    try:
        M.dec_value(data)
        return False
    except M.Bad:
        return True
    except RecursionError:
        return True


def same(a, b, line=None):
    """implementation answer a against model answer b: exact.  Exception — stream reader on an ILL-FORMED
    document: the model is the string reader's; where an exception is thrown (and, since the destructors
    swallow theirs, where the reader is left) differs between the two readers, so there only 'no crash, no
    sanitizer report, no hang, no terminate' is required"""
    if a == b:
        return True
    if line is not None and line.split(" ")[1] in "sS" and illformed(line):
        return not a.startswith(("CRASH", "SANITIZER", "HANG", "TERMINATE"))
    return False


def judge(line, impl):
    """HOLD / FAIL / UNKNOWN for an implementation answer, by the independent evaluation.
    (F14 and F17 are repaired: a partly-read array / byte-array child is no excuse any more.)"""
    try:
        exp, ev = expected(line)
    except M.Bad:
        if " ERR " in impl:
            return "HOLD", "ill-formed document reported by an exception"
        if impl == "TERMINATE":
            return "FAIL", "std::terminate from a scope destructor (repaired by 0863f96 / 49f9936 / 3580349)"
        return "UNKNOWN", "ill-formed document (outside C03), answer: %s" % impl
    except Unjudged as u:
        return "UNKNOWN", str(u)
    except RecursionError:
        return "UNKNOWN", "too deep for the judge"
    if exp is None:
        return "UNKNOWN", "data after the document is ill-formed"
    if impl == exp:
        return "HOLD", "as the association-list evaluation"
    return "FAIL", "the association-list evaluation expects: %s" % exp


# ---------------------------------------------------------------- generators

ABSENT = [("s", b"zz"), ("s", b""), ("i", 999983), ("i", -77), ("f", 0x42f60000), ("d", 0x405ec00000000000), ("t", 12345, 0), ("s", b"a"), ("i", 0)]


def rand_key(rng):
    k = rng.random()
    if k < 0.40:
        n = rng.choice([0, 1, 1, 2, 3, 5, 8, 31, 32, 33])
        return ("s", bytes(rng.choice(b"abcdefghijklmnopqrstuvwxyz_0123456789") for _ in range(n)))
    if k < 0.70:
        return ("i", rng.choice([0, 1, 2, 5, 127, 128, 255, 256, -1, -32, -33, -128, -129, 65535, 65536, (1 << 31) - 1, 1 << 31, (1 << 32) - 1, 1 << 32,
                                 (1 << 63) - 1, 1 << 63, (1 << 64) - 1, -(1 << 63), -(1 << 31), rng.randrange(-300, 300), rng.randrange(-(1 << 63), 1 << 64)]))
    if k < 0.80:
        return ("f", rng.choice([0x0, 0x80000000, 0x3f800000, 0xbf800000, 0x7f800000, 0x7fc00000, 0x1, 0x42280000, rng.randrange(0, 1 << 32)]))
    if k < 0.90:
        return ("d", rng.choice([0x0, 0x8000000000000000, 0x3ff0000000000000, 0xbff0000000000000, 0x7ff0000000000000, 0x7ff8000000000000, 0x1, 0x4045000000000000, rng.randrange(0, 1 << 64)]))
    secs, nanos = M.rand_ts(rng)
    return ("t", secs, nanos)


def key_value(k, rng):
    """document value (mp_common representation) carrying key k"""
    if k[0] == "s":
        return k[1]
    if k[0] == "i":
        return k[1]
    if k[0] == "f":
        return ("f32", k[1])
    if k[0] == "d":
        return ("f64", k[1])
    return ("ext", 0xFF, ts_payload_lib(k[1], k[2], rng))


def distinct_keys(rng, n):
    keys = []
    tries = 0
    while len(keys) < n and tries < 200:
        tries += 1
        k = rand_key(rng)
        if k[0] == "t":
            # the payload decides what the library reads back (e.g. nanos of the 64-bit layout)
            k = ("t",) + ts_lib(ts_payload_lib(k[1], k[2], rng))
        if not any(key_eq(k, x) for x in keys) and not any(x == k for x in keys):
            keys.append(k)
    return keys


def scalar_value(rng, big=False):
    k = rng.random()
    if k < 0.30:
        return M.rand_int(rng)
    if k < 0.38:
        return rng.choice([None, True, False])
    if k < 0.46:
        return ("f32", M.rand_f32(rng))
    if k < 0.54:
        return ("f64", M.rand_f64(rng))
    if k < 0.80:
        if big:
            n = rng.choice([0, 1, 31, 32, 100, 200, 250, 255, 256, 257, 300, 520])
            return bytes(rng.randrange(0, 256) for _ in range(n))
        return M.rand_bytes(rng)
    if k < 0.88:
        return ("bin", M.rand_bytes(rng, 12))
    if k < 0.96:
        s, n = M.rand_ts(rng)
        return ("ext", 0xFF, ts_payload_lib(s, n, rng))
    return ("ext", rng.randrange(0, 255), M.rand_bytes(rng, 10))


def rand_member(rng, depth, big=False):
    k = rng.random()
    if depth >= 3 or k < 0.55:
        return scalar_value(rng, big)
    if k < 0.75:
        return rand_obj(rng, rng.choice([0, 1, 2, 3, 4]), depth + 1, big)
    if k < 0.95:
        return [rand_member(rng, depth + 1, big) for _ in range(rng.choice([0, 1, 2, 3, 4, 5]))]
    return M.rand_value(rng, depth + 1) if depth >= 1 else scalar_value(rng, big)


def rand_obj(rng, n, depth=0, big=False):
    keys = distinct_keys(rng, n)
    return ("map", [(key_value(k, rng), rand_member(rng, depth, big)) for k in keys])


def target_for(rng, v):
    """mostly a target that accepts v, sometimes any"""
    if rng.random() < 0.25:
        return rng.choice(TARGETS)
    if v is None:
        return rng.choice(["nil", "s32", "str"])
    if isinstance(v, bool):
        return rng.choice(["u1", "u8", "s32"])
    if isinstance(v, int):
        fit = [t for t in INT_TARGETS if INT_RANGE[t][0] <= v < INT_RANGE[t][1]]
        return rng.choice(fit or ["u64", "s64"]) if rng.random() < 0.8 else rng.choice(INT_TARGETS)
    if isinstance(v, bytes):
        return "str"
    if isinstance(v, tuple) and v[0] in ("f32", "f64"):
        return rng.choice(["f32", "f64"])
    if isinstance(v, tuple) and v[0] == "ext" and v[1] == 0xFF:
        return "ts"
    return rng.choice(TARGETS)


def arr_history(rng, vs, depth, budget):
    items = []
    full = rng.random() < 0.7        # read to the end (outside the F14 class) most of the time
    n = len(vs) if full else rng.randrange(0, len(vs) + 2)
    i = 0
    while i < n and budget[0] > 0:
        budget[0] -= 1
        v = vs[i] if i < len(vs) else None
        r = rng.random()
        if isinstance(v, tuple) and v[0] == "map" and r < 0.8:
            items.append({"k": "o", "body": obj_history(rng, v[1], depth + 1, budget)})
        elif isinstance(v, list) and r < 0.8:
            items.append({"k": "a", "body": arr_history(rng, v, depth + 1, budget)})
        elif isinstance(v, tuple) and v[0] == "bin" and r < 0.8:
            items.append({"k": "b", "n": len(v[1]) if rng.random() < 0.7 else rng.randrange(0, len(v[1]) + 2)})
        elif r < 0.06:
            items.append({"k": "b", "n": 1})
            if not (isinstance(v, tuple) and v[0] == "bin"):
                continue             # not consumed: the element is still there
        elif r < 0.10:
            items.append({"k": rng.choice("oa"), "body": []})
        else:
            items.append({"k": "g", "tg": target_for(rng, v)})
        # try { item } catch (OutOfRange): mostly around requests beyond the end (what the tuple loader meets on a short array)
        if items[-1]["k"] in "goab" and rng.random() < (0.6 if v is None else 0.08):
            items[-1] = {"k": "t", "body": [items[-1]]}
        i += 1
        if rng.random() < 0.1:
            items.append({"k": "e"})
        if rng.random() < 0.01:
            items.append({"k": "x", "tg": rng.choice("RRM")})    # the caller throws (fixed-size array: count mismatch)
    if full and rng.random() < 0.5:
        items.append({"k": "e"})
    return items


def obj_history(rng, kvs, depth, budget, length=None):
    items = []
    present = [(key_of_value(k), v) for k, v in kvs]
    n = length if length is not None else rng.randrange(0, 9 if depth else 25)
    for _ in range(n):
        if budget[0] <= 0:
            break
        budget[0] -= 1
        r = rng.random()
        if r < 0.04:
            items.append({"k": "V"})
            continue
        if r < 0.09:
            acts = []
            for _, v in kvs[:rng.choice([len(kvs), len(kvs), rng.randrange(0, len(kvs) + 2)])]:
                ra = rng.random()
                if ra < 0.08:
                    acts.append({"k": "k"})
                elif ra < 0.10:
                    acts.append({"k": "x", "tg": rng.choice("MO")})
                elif isinstance(v, tuple) and v[0] == "map" and ra < 0.85:
                    acts.append({"k": "o", "body": obj_history(rng, v[1], depth + 1, budget)})
                elif isinstance(v, list) and ra < 0.85:
                    if rng.random() < 0.4:
                        acts.append({"k": "c", "n": 1, "body": arr_history(rng, v, depth + 1, budget)})
                    else:
                        acts.append({"k": "a", "body": arr_history(rng, v, depth + 1, budget)})
                elif isinstance(v, tuple) and v[0] == "bin" and ra < 0.85:
                    n = len(v[1]) if rng.random() < 0.7 else rng.randrange(0, len(v[1]) + 2)
                    acts.append({"k": rng.choice("bc"), "n": n, "body": []})
                elif ra < 0.93:
                    acts.append({"k": "g", "tg": target_for(rng, v)})
                else:
                    acts.append({"k": rng.choice("oabc"), "n": 1, "body": []})
            items.append({"k": "E", "body": acts})
            continue
        if present and r < 0.80:
            k, v = rng.choice(present)
        else:
            k, v = rng.choice(ABSENT + [rand_key(rng)]), "absent"
        kt = key_text(k, rng)
        r = rng.random()
        if isinstance(v, tuple) and v[0] == "map" and r < 0.8:
            items.append({"k": "O", "key": kt, "body": obj_history(rng, v[1], depth + 1, budget)})
        elif isinstance(v, list) and r < 0.8:
            if rng.random() < 0.3:   # byte container: binary scope first, array scope as the fallback
                items.append({"k": "B", "key": kt, "n": 2})
            items.append({"k": "A", "key": kt, "body": arr_history(rng, v, depth + 1, budget)})
        elif isinstance(v, tuple) and v[0] == "bin" and r < 0.8:
            items.append({"k": "B", "key": kt, "n": len(v[1]) if rng.random() < 0.7 else rng.randrange(0, len(v[1]) + 2)})
        elif r < 0.08:
            items.append({"k": rng.choice("OA"), "key": kt, "body": []})
        elif r < 0.12:
            items.append({"k": "B", "key": kt, "n": 1})
        else:
            items.append({"k": "G", "key": kt, "tg": target_for(rng, v if v != "absent" else rng.choice([1, b"x", None]))})
    return items


def case_line(op, kind, pol, data, items):
    return "%s %s %s %s %s" % (op, kind, pol, M.hx(data), fmt_history(items))


def sentinel(rng):
    r = rng.random()
    if r < 0.75:
        return M.enc_int(rng.choice([7, 0, -1, 127, 128, 1 << 40, -(1 << 63)]), rng)
    if r < 0.85:
        return b""
    return M.enc_value(rng.choice([None, True, b"tail", (1 << 64) - 1, [1, 2]]), rng) + b"\x01"


def gen_wellformed(rng, tier):
    cases = []
    nperm = 12 if tier == "quick" else 300
    nrand = 7000 if tier == "quick" else 220000
    nbig = 1200 if tier == "quick" else 32000
    narr = 1800 if tier == "quick" else 48000
    # all permutations of one request per key, <= 5 keys, plus the same with an absent key in front
    for _ in range(nperm):
        for nk in (1, 2, 3, 4, 5):
            doc = rand_obj(rng, nk, 0)
            data = M.enc_value(doc, rng) + sentinel(rng)
            reqs = []
            for k, v in doc[1]:
                kk = key_of_value(k)
                if isinstance(v, tuple) and v[0] == "map":
                    reqs.append({"k": "O", "key": key_text(kk, rng), "body": obj_history(rng, v[1], 1, [6])})
                elif isinstance(v, list):
                    reqs.append({"k": "A", "key": key_text(kk, rng), "body": arr_history(rng, v, 1, [100])})
                else:
                    reqs.append({"k": "G", "key": key_text(kk, rng), "tg": target_for(rng, v)})
            pol = rng.choice(["SS", "SS", "TT", "ST", "TS"])
            for perm in itertools.permutations(reqs):
                kind = rng.choice(KINDS)
                cases.append(case_line("hist", kind, pol, data, list(perm)))
            cases.append(case_line("hist", rng.choice("ms"), pol, data, [{"k": "G", "key": "s7a7a", "tg": "s32"}] + reqs[::-1] + reqs))
    # random histories, length <= 24
    for _ in range(nrand):
        doc = rand_obj(rng, rng.choice([0, 1, 2, 3, 4, 5, 6, 7, 8]), 0)
        data = M.enc_value(doc, rng) + sentinel(rng)
        pol = rng.choice(["SS", "SS", "SS", "TT", "ST", "TS"])
        items = obj_history(rng, doc[1], 0, [60])
        for kind in rng.sample(KINDS, 2):
            cases.append(case_line("hist", kind, pol, data, items))
    # documents longer than one 256-byte stream chunk, backward requests
    for _ in range(nbig):
        doc = rand_obj(rng, rng.choice([2, 3, 5, 8]), 0, big=True)
        data = M.enc_value(doc, rng) + sentinel(rng)
        pol = rng.choice(["SS", "SS", "TT"])
        reqs = [{"k": "G", "key": key_text(key_of_value(k), rng), "tg": target_for(rng, v)} for k, v in doc[1]
                if not isinstance(v, (list, tuple)) or (isinstance(v, tuple) and v[0] in ("f32", "f64", "ext", "bin"))]
        hs = [reqs[::-1], reqs[::-1] + reqs, obj_history(rng, doc[1], 0, [60])]
        for items in hs:
            cases.append(case_line("hist", rng.choice("sS"), pol, data, items))
        cases.append(case_line("hist", "m", pol, data, hs[rng.randrange(3)]))
    # array roots: element reads of every target kind, Skip policies mostly (scope half of C05)
    for _ in range(narr):
        vs = [rand_member(rng, 1) for _ in range(rng.choice([0, 1, 2, 3, 4, 6, 15, 16, 17]))]
        data = M.enc_value(vs, rng) + sentinel(rng)
        pol = rng.choice(["SS", "SS", "SS", "TT"])
        if rng.random() < 0.5:
            items = [{"k": "g", "tg": rng.choice(TARGETS)} for _ in range(min(len(vs), 24))]
            if rng.random() < 0.3:
                items.append({"k": "g", "tg": "s32"})      # one read too many: OutOfRange
            items.append({"k": "e"})
        else:
            items = arr_history(rng, vs, 0, [60])
        for kind in rng.sample(KINDS, 2):
            cases.append(case_line("ahist", kind, pol, data, items))
    return cases


def gen_malformed(rng, tier):
    """truncated / corrupted documents: outside C03's domain; correspondence (and F17) only"""
    n = 1500 if tier == "quick" else 48000
    cases = ["hist m SS 81 -", "hist s SS 81 -", "hist m SS 81 G:s61:s32", "hist m TT 82a16105 G:s61:s32", "hist m SS dfffffffff G:s61:s32",
             "hist m SS deffff V", "ahist m SS ddffffffff g:s32", "hist m SS - -", "ahist m SS - e", "hist m SS 81c005 G:s61:s32", "hist m SS 81c105 V"]
    for _ in range(n):
        doc = rand_obj(rng, rng.choice([1, 2, 3, 4]), 0)
        data = M.enc_value(doc, rng)
        items = obj_history(rng, doc[1], 0, [30], length=rng.randrange(0, 8))
        r = rng.random()
        if r < 0.5 and len(data) > 1:
            d2 = data[:rng.randrange(1, len(data))]
        elif r < 0.8:
            i = rng.randrange(0, len(data))
            d2 = data[:i] + bytes([rng.choice([0xC1, 0xC0, 0x91, 0x81, 0xDF, 0xD9, 0xC7, rng.randrange(256)])]) + data[i + 1:]
        else:
            # an unsupported key kind in a well-formed MsgPack document
            bad = ("map", doc[1][:1] + [(rng.choice([None, True, [1], ("bin", b"k"), ("map", [])]), 5)] + doc[1][1:])
            d2 = M.enc_value(bad, rng) + b"\x07"
        pol = rng.choice(["SS", "TT"])
        cases.append(case_line("hist", rng.choice("mmms"), pol, d2, items))
    return cases


# ---------------------------------------------------------------- shrinking a failing case

def shrink(line, pred, budget=150):
    """greedy: drop history items (at any depth) while pred(line) still holds"""
    t = line.split(" ")
    items = parse_history(t[4])

    def variants(items):
        for i in range(len(items)):
            yield items[:i] + items[i + 1:]
        for i, nd in enumerate(items):
            if "body" in nd:
                for b in variants(nd["body"]):
                    nd2 = dict(nd)
                    nd2["body"] = b
                    yield items[:i] + [nd2] + items[i + 1:]
    changed = True
    while changed and budget > 0:
        changed = False
        for cand in variants(items):
            budget -= 1
            if budget <= 0:
                break
            l2 = " ".join(t[:4] + [fmt_history(cand)])
            if pred(l2):
                items = cand
                changed = True
                break
    return " ".join(t[:4] + [fmt_history(items)])


# ---------------------------------------------------------------- check

def features(line):
    t = line.split(" ")
    h = t[4]
    f = [t[0], t[1], t[2]]
    if any(tag in h for tag in ("O:", "A:", "B:", ",o,", ",a,", "b:")) or h.startswith(("o,", "a,")):
        f.append("children")
    if "V" in h.split(","):
        f.append("visit")
    if "E" in h.split(","):
        f.append("each")
    if "t" in h.split(","):
        f.append("try")
    return " ".join(f)


def spec_line(line):
    t = line.split(" ")
    return " ".join([("spec" if t[0] == "hist" else "aspec")] + t[1:])


def inside_spec(line):
    """no try item caught an OutOfRange raised inside its request: the Coq specification's guarded request (ATry) catches
    the array's own exhaustion only (what T_C03_mp_refines covers: there the specification reports the error); a C++
    try/catch — the driver's, and the model's — catches every OutOfRange"""
    try:
        _, ev = expected(line)
        return not ev.nested_range
    except Exception:
        return True


def spec_vs_model(line, m, sp):
    """the theorems' statement, tested on the extracted code: the model answers with the specification's
    tokens and ends right behind the document (error-free histories: T_C03_mp_refines), or with the same
    error and no terminate (histories ending in an error: NOT PROVED, tested here)"""
    t = sp.split(" ")
    if sp in ("NODOC", "BADDOC") or len(t) < 3:
        return None
    mt = m.split(" ")
    if t[1] == "END":
        data = bytes.fromhex(line.split(" ")[3])
        _, i = M.dec_value(data)
        ok = len(mt) >= 5 and mt[0] == t[0] and mt[1] == "END" and mt[2] in (str(i), "?") and mt[4] in ("CF0", "OK")
        return None if ok else "error-free history"
    if t[1] == "ERR":
        ok = len(mt) >= 3 and mt[0] == t[0] and mt[1] == "ERR" and mt[2] == t[2]
        return None if ok else "history ending in an error"
    return None


def known_entries(vlib):
    kn = [k for k in vlib.load_known("C03") if k.get("driver", DRIVER) == DRIVER]
    return [k for k in kn if k.get("status") == "known"]


def run(ctx, vlib):
    impl, model = drivers(vlib)
    kn = known_entries(vlib)
    rng = ctx["rng"]
    tier = ctx["tier"]
    corpus = U.load_corpus("C03")
    wf = gen_wellformed(rng, tier)
    mal = gen_malformed(rng, tier)
    cases = corpus + wf + mal
    oi = vlib.run_driver(impl, cases)
    om = vlib.run_driver(model, cases)

    failing, diffs = [], []
    classes, verdicts = {}, {}
    seen = set()
    nontrivial = 0
    nmal = len(mal)
    for idx, (line, a, b) in enumerate(zip(cases, oi, om)):
        cl = ("malformed " if idx >= len(cases) - nmal else "") + features(line)
        classes[cl] = classes.get(cl, 0) + 1
        if line not in seen:
            seen.add(line)
            if ",T" in b or b.count("(") > 1 or "K[" in b:
                nontrivial += 1
        v, why = judge(line, a)
        verdicts[v] = verdicts.get(v, 0) + 1
        if same(a, b, line):
            if v == "FAIL" and len(failing) < 20:
                # the model mirrors it, yet the independent evaluation rejects it and no listed finding covers it
                failing.append(dict(driver=DRIVER, case=line, implementation=a, model=b, judge=v, why=why))
            continue
        rec = dict(driver=DRIVER, case=line, implementation=a, model=b, judge=v, why=why)
        if v == "FAIL" and len(failing) < 20:
            failing.append(rec)
        elif len(diffs) < 20:
            diffs.append(rec)

    # the statement of the theorems, tested on the extracted model and specification
    nsv = 0
    sv = [c for c in wf if c.split(" ")[1] == "m" and inside_spec(c)]
    osv = vlib.run_driver(model, [spec_line(c) for c in sv])
    mans = dict(zip(cases, om))
    for c, sp in zip(sv, osv):
        nsv += 1
        bad = spec_vs_model(c, mans[c], sp)
        if bad and len(diffs) < 20:
            diffs.append(dict(driver=DRIVER, case=c, implementation=mans[c], model=sp, judge="SPEC-VS-MODEL",
                              why="extracted specification and extracted model disagree on a case inside the theorems' hypotheses (%s)" % bad))

    # shrink what is reported
    def still_fails(l2):
        a2 = vlib.run_driver(impl, [l2], jobs=1)[0]
        return judge(l2, a2)[0] == "FAIL"
    for rec in failing[:5]:
        try:
            small = shrink(rec["case"], still_fails)
            if small != rec["case"]:
                rec["original_case"] = rec["case"]
                rec["case"] = small
                rec["implementation"] = vlib.run_driver(impl, [small], jobs=1)[0]
                rec["model"] = vlib.run_driver(model, [small], jobs=1)[0]
                rec["why"] = judge(small, rec["implementation"])[1]
        except Exception:
            pass

    # known findings: replayed on the implementation, printed only while they reproduce
    known_lines = []
    outs = vlib.run_driver(impl, [k["case"] for k in kn], jobs=1) if kn else []
    for k, o in zip(kn, outs):
        if o == k["implementation"]:
            known_lines.append("%s: %s [case: %s -> %s]" % (k["id"], k["what"], k["case"], o))
        else:
            diffs.append(dict(driver=DRIVER, case=k["case"], implementation=o, model=k["implementation"], judge="KNOWN-FINDING-CHANGED",
                              why="listed known finding %s no longer reproduces as recorded" % k["id"]))

    step = max(1, len(cases) // 3)
    samples = [dict(case=cases[i], implementation=oi[i], model=om[i]) for i in range(0, len(cases), step)][:4]
    res = _run_tail(locals())
    # the CSV instance (csv family, coq/Properties_C03csv.v): request programs per row through LoadObject<CsvArchive>,
    # memory and stream readers (chunk sizes 256 and the hook builds), against the extracted CSV model and an independent reading
    import C03csv
    cs = C03csv.run_c03csv(ctx, vlib)
    res["evaluations"] += cs.get("evaluations", 0)
    res["distinct_nontrivial"] += cs.get("distinct_nontrivial", 0)
    res["failing"] = (res["failing"] + cs.get("failing", []))[:20]
    res["diffs"] = res["diffs"] + cs.get("diffs", [])
    for k, v in cs.get("classes", {}).items():
        res["classes"]["csv " + str(k)] = v
    res["extra"]["csv_judge_verdicts"] = cs.get("verdicts")
    res["extra"]["csv_chunk_sizes"] = cs.get("chunk_sizes")
    res["rule"] += "; " + cs.get("rule", "")
    res["broken"] += "; correspondence CSV model vs src/csv/csv_readers.cpp + csv_archive (drv_csv, op csvh)"
    # the JSON / XML instance (jx family, coq/Properties_C03jx.v): request histories through the real RapidJson / PugiXml scopes
    import C03jx
    js = C03jx.run_c03jx(ctx, vlib)
    res["evaluations"] += js.get("evaluations", 0)
    res["distinct_nontrivial"] += js.get("distinct_nontrivial", 0)
    res["failing"] = (res["failing"] + js.get("failing", []))[:20]
    res["diffs"] = res["diffs"] + js.get("diffs", [])
    res["known_lines"] = res["known_lines"] + js.get("known_lines", [])
    for k, v in js.get("classes", {}).items():
        res["classes"]["jx " + str(k)] = v
    res["extra"]["jx"] = js.get("extra")
    res["rule"] += "; " + js.get("rule", "")
    res["broken"] += "; " + js.get("broken", "correspondence JSON / XML scope model vs rapidjson_archive.h / pugixml_archive.h (drv_jx, op jx.hist)")
    return res


def _run_tail(L):
    cases, nontrivial, samples, classes, failing, diffs, known_lines, verdicts, nsv = (L[k] for k in
        ("cases", "nontrivial", "samples", "classes", "failing", "diffs", "known_lines", "verdicts", "nsv"))
    return dict(evaluations=len(cases), distinct_nontrivial=nontrivial, samples=samples, classes=classes, failing=failing, diffs=diffs,
                known_lines=known_lines, extra=dict(judge_verdicts=verdicts, spec_vs_model_cases=nsv),
                rule="object documents with 0-8 distinct keys of every supported kind (string / integer in every wire format / float / double / timestamp 32-64-96), values scalars, strings, byte arrays, nested arrays and objects (independent encoder, random format widths): all permutations of one request per key for 1-5 keys; random histories of up to 24 requests with absent and repeated keys, mismatching targets, children opened and left partly read, binary-then-array fallback, VisitKeys; documents of several 256-byte stream chunks with backward requests; array roots read element by element with every target kind; each through the string reader, the stream reader and MsgPackReadRootScope, policies SS/TT/ST/TS; plus truncated / corrupted documents and unsupported key kinds (correspondence only). Every implementation answer is also compared with an independent association-list evaluation. non-trivial = distinct case in which a value was loaded, a child opened or keys visited",
                broken="correspondence MsgPack scope model vs include/bitserializer/msgpack_archive.h (drv_mpscope)")


def replay(rp, vlib):
    if str(rp.get("case", "")).startswith("csvh "):
        import C03csv
        return C03csv.replay_c03csv(rp, vlib)
    if str(rp.get("case", "")).startswith("jx.hist"):
        import C03jx
        return C03jx.replay_c03jx(rp, vlib)
    impl, model = drivers(vlib)
    line = rp["case"]
    a = vlib.run_driver(impl, [line], jobs=1)[0]
    b = vlib.run_driver(model, [line], jobs=1)[0]
    v, why = judge(line, a)
    return dict(case=line, implementation=a, model=b, agree=same(a, b, line), judge=v, why=why)
