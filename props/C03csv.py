"""C03 on the CSV archive — a request program per row (any order, repeats, absent names, columns never asked for,
duplicate header names, the empty name, names sharing a prefix), memory reader and stream reader (library chunk 256
and the hook builds 32 / 64), the next row read correctly whatever was left unread.

Correspondence: harness/drv_csv.cpp op csvh (real LoadObject<CsvArchive> of a vector of row objects, the i-th of which
asks for the keys of the i-th program; targets preset to a sentinel so that a written not-loaded target shows) against
the extracted model (csv_load_hist / csv_load_stream_hist K, coq/CsvModel.v; theorems coq/Properties_C03csv.v); every
implementation answer is also judged by an independent Python reading: RFC 4180 parse of the document, then each
request answered by name (distinct header names) or through the documented cursor rule (names that repeat)."""
import os
import csv_common as C

KS = (32, 64)


def drivers(vlib):
    impl, model = C.drivers(vlib)
    impls = {256: impl}
    try:
        hook = "BITSERIALIZER_VERIF_CSV_CHUNK_SIZE" in open(os.path.join(vlib.REPO, "src", "csv", "csv_readers.h"), errors="replace").read()
    except OSError:
        hook = False
    if hook:
        for k in KS:
            impls[k] = vlib.build_cpp("drv_csv_k%d" % k, ["drv_csv.cpp"], extra=vlib.repo_sources("src/csv/*.cpp") + ["-DBITSERIALIZER_VERIF_CSV_CHUNK_SIZE=%d" % k])
    return impls, model


def fmt_progs(progs):
    return "/".join(C.fmt_fields(p) for p in progs) if progs else "_"


def case_line(mode, sep, progs, text):
    return "csvh %s %02x %s %s" % (mode, sep, fmt_progs(progs), C.hx(text))


def parse_case(line):
    t = line.split(" ")
    return dict(mode=t[1], sep=int(t[2], 16), progs=[C.parse_fields(p) for p in t[3].split("/")], text=C.unhx(t[4]))


# ---------------------------------------------------------------- independent reading

def pick(hdr, v, key):
    """the column a request picks (cursor rule of ReadValue(key)): (new cursor, found)"""
    if v + 1 < len(hdr) and hdr[v + 1] == key:
        return v + 1, True
    if key in hdr:
        return hdr.index(key), True
    return v + 1, False


def expected(hdr, recs, progs):
    rows = []
    for i, rec in enumerate(recs):
        prog = progs[i] if i < len(progs) else []
        v, cells = 0, []
        for key in prog:
            v, found = pick(hdr, v, key)
            cells.append(rec[v] if found else None)
        rows.append(cells)
    return rows


def judge(line, ans):
    """(verdict, why): HOLD / FAIL / UNKNOWN for the implementation's answer on a csvh case"""
    c = parse_case(line)
    sep, text = c["sep"], c["text"]
    if ans.startswith(("CRASH", "SANITIZER", "TERMINATE", "HANG", "UB", "OUTOFFUEL")):
        return "FAIL", "abnormal termination: %s" % ans[:60]
    if "~!" in ans:
        return "FAIL", "a request answered 'not loaded' wrote to its target"
    if sep not in C.SEPS:
        return ("HOLD", "separator rejected") if ans == "EXC:InvalidOptions" else ("FAIL", "separator not rejected")
    if c["mode"] != "mem":
        if not C.utf8_detected(text):
            return "UNKNOWN", "stream not classified as UTF-8 (C09 / C13)"
        if text[:3] == C.BOM8:
            text = text[3:]
    pq = C.rfc_parse_q(sep, text)
    if pq is None:
        return "UNKNOWN", "not an RFC 4180 text (C09)"
    table, _ = pq
    hdr, recs = table[0], table[1:]
    if any(len(r) != len(hdr) for r in recs):
        return ("HOLD", "record of another width rejected") if ans == "EXC:ParsingError" else ("FAIL", "record of another width not rejected")
    want = C.fmt_cells(expected(hdr, recs, c["progs"]))
    if ans == want:
        if len(set(hdr)) == len(hdr):
            return "HOLD", "every request answered by the column of its name"
        return "HOLD", "names repeat: answered per the cursor rule"
    return "FAIL", "expected %s" % want[:120]


# ---------------------------------------------------------------- generators

def gen_prog(rng, hdr, sep, rec_quotes=None):
    """one row's request program"""
    k = rng.random()
    if k < 0.08:
        return [], "none"
    keys, kind = C.gen_keys(rng, hdr, sep)
    if k < 0.2:
        # aimed: the last column first / twice, then the rest in reverse
        keys = [hdr[-1], hdr[-1]] + list(reversed(hdr))
        kind = "last-twice-reverse"
    elif k < 0.3:
        keys = list(reversed(hdr)) + list(hdr)
        kind = "reverse-then-order"
    elif k < 0.4:
        # long history over present and absent names, prefixes and extensions of names, the empty name
        pool = list(hdr) + [h[:-1] for h in hdr if h] + [h + b"x" for h in hdr] + [b"", b"zz"]
        keys = [rng.choice(pool) for _ in range(rng.randrange(1, 3 * len(hdr) + 4))]
        kind = "long-mixed"
    return keys, kind


def gen_cases(rng, n, modes):
    out = []
    for _ in range(n):
        sep = rng.choice(C.SEPS)
        hdr, rows = C.gen_table(rng, sep)
        label_h = "nodup"
        r = rng.random()
        if r < 0.08 and len(hdr) >= 2:
            j = rng.randrange(1, len(hdr)); hdr[j] = hdr[rng.randrange(0, j)]; label_h = "dup"
        elif r < 0.14:
            hdr[rng.randrange(len(hdr))] = b"" if b"" not in hdr else hdr[0]; label_h = "emptyname" if len(set(hdr)) == len(hdr) else "dup"
        elif r < 0.22 and len(hdr) >= 2 and hdr[0]:
            cand = hdr[0] + b"_x"
            if cand not in hdr:
                hdr[1] = cand; label_h = "prefix"
        table = [hdr] + rows
        quotes, eols, final, style = C.gen_choices(rng, sep, table)
        if rng.random() < 0.5 and len(set(hdr)) == len(hdr):
            t2 = C.pad_to_boundary(rng, sep, table, quotes, eols, final)
            if len(set(t2[0])) == len(t2[0]):
                table = t2; hdr = table[0]
        text = C.rfc_render(sep, table, quotes, eols, final)
        progs, kinds = [], set()
        for i in range(len(rows) + rng.choice([0, 0, 1])):
            p, kd = gen_prog(rng, hdr, sep)
            progs.append(p); kinds.add(kd)
        if rng.random() < 0.1 and progs:
            progs = progs[:rng.randrange(len(progs))]          # fewer programs than rows: the rest asks for nothing
        mode = rng.choice(modes)
        if mode != "mem" and not C.utf8_detected(text):
            mode = "mem"
        if rng.random() < 0.04 and len(table) >= 2:
            i = rng.randrange(1, len(table)); t2 = [list(x) for x in table]; q2 = [list(q) for q in quotes]
            t2[i].append(b"w"); q2[i].append(False)
            text = C.rfc_render(sep, t2, q2, eols, final); label_h = "width"
        out.append((case_line(mode, sep, progs, text), "h:%s:%s:%s" % (mode, label_h, "+".join(sorted(kinds))[:40])))
    return out


def boundary_cases(K):
    """a quoted field with escaped quotes and a separator inside placed so that it straddles the chunk boundary K, in the
    first / middle / last column, requested first, last, twice, in reverse; followed by a second row read in full"""
    out = []
    sep = 0x2C
    hdr = [b"a", b"bb", b"c"]
    for col in range(3):
        for off in range(-6, 3):
            field = b'x"y,z\r\nw'
            q = b'"' + field.replace(b'"', b'""') + b'"'
            row1 = [b"1", b"2", b"3"]; row1[col] = None
            head = b"a,bb,c\r\n"
            before = b",".join([b"1", b"2", b"3"][:col]) + (b"," if col else b"")
            pad = K + off - len(head) - len(before) - 3
            if pad < 1:
                continue
            # a filler row so that the quoted field of the next row starts pad bytes later
            filler = b"f" * max(1, pad - 6) + b",g,h\r\n"
            doc = head + filler + before + q + (b"," + b",".join([b"1", b"2", b"3"][col + 1:]) if col < 2 else b"") + b"\r\n" + b"7,8,9\r\n"
            tgt = hdr[col]
            others = [h for h in hdr if h != tgt]
            for prog in ([tgt], [tgt, tgt], others + [tgt], [tgt] + others, list(reversed(hdr)), others, [], [b"nope", tgt, b"", tgt], [tgt, b"nope"] + others + [tgt]):
                progs = [list(hdr), prog, list(reversed(hdr))]
                for mode in ("mem", "stream"):
                    out.append((case_line(mode, sep, progs, doc), "hb:%s:col%d" % (mode, col)))
    return out


# ---------------------------------------------------------------- run

def run_c03csv(ctx, vlib):
    rng, tier = ctx["rng"], ctx["tier"]
    impls, model = drivers(vlib)
    n = 4000 if tier == "quick" else 40000
    failing, diffs, classes = [], [], {}
    evals, nontriv = 0, 0
    verdicts = {}
    seen = set()
    for K, impl in sorted(impls.items()):
        cases = boundary_cases(K) + gen_cases(rng, n if K == 256 else n // 2, ["mem", "stream", "stream"] if K == 256 else ["stream"])
        lines_i = [c for c, _ in cases]
        # the model is told the chunk size of the build it is compared with
        lines_m = [c.replace("csvh stream ", "csvh stream%d " % K, 1) if K != 256 else c for c in lines_i]
        oi = vlib.run_driver(impl, lines_i)
        om = vlib.run_driver(model, lines_m)
        evals += len(cases)
        for (c, label), cm, a, b in zip(cases, lines_m, oi, om):
            key = "K%d %s" % (K, label)
            classes[key] = classes.get(key, 0) + 1
            v, why = judge(c, a)
            verdicts[v] = verdicts.get(v, 0) + 1
            if (K, c) not in seen:
                seen.add((K, c))
                if len(c.split(" ")[3]) > 8 and ('22' in c.split(" ")[4] or "~" in a):
                    nontriv += 1
            rec = dict(driver="csv" if K == 256 else "csv_k%d" % K, case=c[:3000], model_case=cm[:3000], implementation=a[:600], model=b[:600], judge=v, why=why)
            if v == "FAIL":
                if len(failing) < 20:
                    failing.append(rec)
            elif a != b and b != "UNSUPPORTED" and len(diffs) < 20:
                diffs.append(rec)
    return dict(evaluations=evals, distinct_nontrivial=nontriv, classes=classes, failing=failing, diffs=diffs, known_lines=[],
                verdicts=verdicts, chunk_sizes=sorted(impls),
                rule="CSV (C03csv): random tables (1..6 columns x 0..5 rows, fields with separators / quotes / CR / LF / multi-byte UTF-8, 5 separators; header variants: "
                     "distinct names, a name repeated, the empty name, a name that is a prefix of another) in random RFC 4180 renderings padded so that a token straddles a chunk "
                     "boundary, x a request program per row (none, header order, permutation, reverse, subset, repeats, absent names, last column first and twice then reverse, "
                     "long mixed histories over names / prefixes / extensions / the empty name; fewer programs than rows), x {memory, stream K=256} and stream on the hook builds "
                     "K=32, 64; plus an enumeration: a quoted field with escaped quotes, separator and CRLF inside straddling the chunk boundary at offsets -6..+2 in column 1/2/3, "
                     "requested first / twice / last / reverse / not at all / between absent names, with a full row before and after; every answer compared with the extracted "
                     "model and judged by an independent Python reading (RFC parse + by-name / cursor rule); a written not-loaded target is a failure")


def replay_c03csv(rp, vlib):
    """re-run one recorded csvh case on the implementation build it came from and on the extracted model"""
    impls, model = drivers(vlib)
    drv = str(rp.get("driver", "csv"))
    K = int(drv.split("_k")[1]) if "_k" in drv else 256
    impl = impls.get(K) or impls[256]
    line = rp["case"]
    cm = rp.get("model_case") or (line.replace("csvh stream ", "csvh stream%d " % K, 1) if K != 256 else line)
    a = vlib.run_driver(impl, [line], jobs=1)[0]
    b = vlib.run_driver(model, [cm], jobs=1)[0]
    v, why = judge(line, a)
    return dict(case=line, implementation=a, model=b, agree=(a == b), judge=v, why=why)
