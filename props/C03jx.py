"""C03 for the JSON and XML adapters: histories of named requests against the low-level scopes of rapidjson_archive.h /
pugixml_archive.h (root.OpenObjectScope / OpenArrayScope, SerializeValue(key, ..), OpenObjectScope(key) / OpenArrayScope(key),
VisitKeys, the XML attribute scope; in array scopes SerializeValue(..), nested scopes, IsEnd).

Proved (coq/Properties_C03jx.v over coq/JxHistModel.v): an object scope has no state, the answers of every history are
the answers of its requests taken one by one (any order, repeats, absent keys, nested scopes left partly read), a request
by name answers the first member / child element of that name, an absent name answers 'not loaded'.
This run ties the model to the implementation: generated documents x generated histories through drv_jx (jx.hist) and
the extracted model (m.hist); and it judges the property on the implementation itself: no target changes on 'not loaded'
(the driver reports N!<value>), and the answers of a shuffled history are the shuffled answers (object scopes)."""
import json

NAMES = ["a", "ab", "abc", "A", "é", "É", "k1", "_x", "b"]
ABSENT = ["zz", "", "aB", "a ", "abcd"]
TYPES = "bilud" + "s"


def hx(s):
    return s.encode("utf-8").hex()


# ---------------------------------------------------------------- documents: ("o", [(k, v)..]) / ("a", [..]) / scalars
def gen_scalar(rng):
    r = rng.random()
    if r < 0.35:
        return rng.choice([0, 1, 7, -5, 300, 2147483648, -9223372036854775808, 18446744073709551615, 12345678901])
    if r < 0.5:
        return rng.choice([1.5, -0.25, 1e300])
    if r < 0.7:
        return rng.choice(["x", "", "é中", "12", "true", " 7"])
    if r < 0.85:
        return rng.choice([True, False])
    return None


def gen_doc(rng, depth=0):
    r = rng.random()
    if depth >= 3 or r < 0.45:
        return gen_scalar(rng)
    if r < 0.75:
        ks = [rng.choice(NAMES + ([""] if rng.random() < 0.2 else [])) for _ in range(rng.randint(0, 5))]
        if rng.random() < 0.6:
            ks = list(dict.fromkeys(ks))           # mostly distinct names; otherwise duplicates stay
        return ("o", [(k, gen_doc(rng, depth + 1)) for k in ks])
    return ("a", [gen_doc(rng, depth + 1) for _ in range(rng.randint(0, 4))])


def gen_root(rng):
    if rng.random() < 0.8:
        ks = [rng.choice(NAMES + ([""] if rng.random() < 0.15 else [])) for _ in range(rng.randint(1, 6))]
        if rng.random() < 0.7:
            ks = list(dict.fromkeys(ks))
        return ("o", [(k, gen_doc(rng, 1)) for k in ks])
    return ("a", [gen_doc(rng, 1) for _ in range(rng.randint(0, 4))])


def emit_json(d):
    if d is None:
        return "null"
    if d is True:
        return "true"
    if d is False:
        return "false"
    if isinstance(d, (int, float)):
        return repr(d)
    if isinstance(d, str):
        return json.dumps(d, ensure_ascii=False)
    if d[0] == "a":
        return "[" + ",".join(emit_json(x) for x in d[1]) + "]"
    return "{" + ",".join(json.dumps(k, ensure_ascii=False) + ":" + emit_json(x) for k, x in d[1]) + "}"


def xml_esc(s):
    return s.replace("&", "&amp;").replace("<", "&lt;")


def emit_xml(name, d, rng, top=False):
    """elements for objects and arrays, text for scalars; scalars of an object become attributes now and then (also next to a
    child element of the same name)"""
    if d is None:
        return "<%s/>" % name
    if d is True or d is False:
        return "<%s>%s</%s>" % (name, "true" if d else "false", name)
    if isinstance(d, (int, float)):
        return "<%s>%s</%s>" % (name, repr(d), name)
    if isinstance(d, str):
        return "<%s>%s</%s>" % (name, xml_esc(d), name) if d else "<%s></%s>" % (name, name)
    if d[0] == "a":
        items = []
        for x in d[1]:
            items.append(emit_xml("object" if isinstance(x, tuple) and x[0] == "o" else "array" if isinstance(x, tuple) else "value", x, rng))
        return "<%s>%s</%s>" % (name, "".join(items), name)
    attrs, ch, seen = [], [], set()
    for k, x in d[1]:
        if not k:
            continue
        scalar = not isinstance(x, tuple) and x is not None
        if scalar and k not in seen and rng.random() < 0.3:
            seen.add(k)
            tx = "true" if x is True else "false" if x is False else x if isinstance(x, str) else repr(x)
            attrs.append(' %s="%s"' % (k, xml_esc(tx).replace('"', "&quot;")))
            if rng.random() < 0.5:
                continue
        ch.append(emit_xml(k, x, rng))
    return "<%s%s>%s</%s>" % (name, "".join(attrs), "".join(ch), name)


# ---------------------------------------------------------------- histories
def gen_obj_history(rng, d, arch, depth=0):
    """requests for an object scope over the object d (or over something that is not an object: then d = None)"""
    members = d[1] if isinstance(d, tuple) and d[0] == "o" else []
    names = [k for k, _ in members]
    reqs = []
    for _ in range(rng.randint(1, 7 if depth == 0 else 3)):
        r = rng.random()
        k = rng.choice(names) if names and rng.random() < 0.7 else rng.choice(ABSENT + NAMES)
        val = next((x for kk, x in members if kk == k), None)
        if r < 0.5:
            reqs.append(("g", rng.choice(TYPES + ("n" if arch == "json" else "")), k))
        elif r < 0.6 and arch == "xml":
            reqs.append(("t", rng.choice(TYPES), k))
        elif r < 0.75 and depth < 3:
            reqs.append(("o", k, gen_obj_history(rng, val, arch, depth + 1)))
        elif r < 0.9 and depth < 3:
            reqs.append(("a", k, gen_arr_history(rng, val, arch, depth + 1)))
        elif r < 0.95:
            reqs.append(("k",))
        else:
            reqs.append(("g", rng.choice(TYPES), k))
    mode = rng.random()
    if mode < 0.15:
        reqs = reqs + reqs[:2]                     # the same requests again
    elif mode < 0.3:
        reqs = list(reversed(reqs))
    return reqs


def gen_arr_history(rng, d, arch, depth=0):
    items = d[1] if isinstance(d, tuple) and d[0] == "a" else []
    n = max(0, len(items) + rng.choice([-2, -1, 0, 0, 0, 1]))       # partly read, exactly, or one too many
    reqs = []
    for i in range(n):
        x = items[i] if i < len(items) else None
        r = rng.random()
        if isinstance(x, tuple) and x[0] == "o" and r < 0.7 and depth < 3:
            reqs.append(("O", gen_obj_history(rng, x, arch, depth + 1)))
        elif isinstance(x, tuple) and x[0] == "a" and r < 0.7 and depth < 3:
            reqs.append(("A", gen_arr_history(rng, x, arch, depth + 1)))
        elif r < 0.1 and depth < 3:
            reqs.append(("O", gen_obj_history(rng, None, arch, depth + 1)))
        else:
            reqs.append(("G", rng.choice(TYPES)))
        if rng.random() < 0.3:
            reqs.append(("e",))
    if rng.random() < 0.5:
        reqs.append(("e",))
    return reqs


def emit_reqs(reqs):
    out = []
    for r in reqs:
        if r[0] in "gt":
            out.append("%s%s=%s" % (r[0], r[1], hx(r[2])))
        elif r[0] in "oa":
            out.append("%s=%s{%s}" % (r[0], hx(r[1]), emit_reqs(r[2])))
        elif r[0] in "OA":
            out.append("%s{%s}" % (r[0], emit_reqs(r[1])))
        elif r[0] == "G":
            out.append("G" + r[1])
        else:
            out.append(r[0])
    return ",".join(out)


def consume(reqs, ans, i):
    """the answers that belong to each request of reqs, starting at ans[i]: [(request, [answers])], next index"""
    out = []
    for r in reqs:
        st = i
        if r[0] in "oaOA":
            if ans[i] == "O1":
                _, i = consume(r[-1], ans, i + 1)
            else:
                i += 1
        else:
            i += 1
        out.append((r, ans[st:i]))
    return out, i


def run_c03jx(ctx, vlib):
    import jx_common as J
    impl, model = J.drivers(vlib)
    rng = ctx["rng"]
    n = 2500 if ctx["tier"] == "quick" else 120000
    cases, meta = [], []
    for _ in range(n):
        arch = "json" if rng.random() < 0.5 else "xml"
        d = gen_root(rng)
        text = emit_json(d) if arch == "json" else '<?xml version="1.0"?>' + emit_xml("root" if d[0] == "o" else "array", d, rng, True)
        pol = "SS" if rng.random() < 0.7 else rng.choice(["TT", "TS", "ST"])
        medium = "mem" if rng.random() < 0.7 else "stream"
        if d[0] == "o" or rng.random() < 0.1:
            reqs, root = gen_obj_history(rng, d, arch), "R"
        else:
            reqs, root = gen_arr_history(rng, d, arch), "S"
        prog = root + "{" + emit_reqs(reqs) + "}"
        cases.append(("jx.hist %s %s %s %s %s" % (arch, medium, pol, hx(text), prog), "m.hist %s %s %s %s" % (arch, pol, hx(text), prog)))
        meta.append(dict(arch=arch, reqs=reqs, root=root, text=text, pol=pol, medium=medium, shuffled=None))
        if root == "R" and len(reqs) > 1:
            # the same requests in another order: the answers must be the same, request by request
            perm = list(range(len(reqs)))
            rng.shuffle(perm)
            reqs2 = [reqs[j] for j in perm]
            prog2 = "R{" + emit_reqs(reqs2) + "}"
            cases.append(("jx.hist %s %s %s %s %s" % (arch, medium, pol, hx(text), prog2), "m.hist %s %s %s %s" % (arch, pol, hx(text), prog2)))
            meta.append(dict(arch=arch, reqs=reqs2, root=root, text=text, pol=pol, medium=medium, shuffled=(len(cases) - 2, perm)))
    oi = vlib.run_driver(impl, [c[0] for c in cases])
    om = vlib.run_driver(model, [c[1] for c in cases])
    failing, diffs, classes = [], [], {}
    seen, nontrivial = set(), 0

    def bump(k):
        classes[k] = classes.get(k, 0) + 1
    for idx, ((il, ml), m, a, b) in enumerate(zip(cases, meta, oi, om)):
        kind = "EXC" if "EXC:" in a else "answers"
        bump("%s %s %s root %s: %s" % (m["arch"], m["medium"], m["pol"], m["root"], kind))
        if il not in seen:
            seen.add(il)
            if len(m["reqs"]) >= 3:
                nontrivial += 1
        rec = dict(driver="jx", case=il, implementation=a[:400], model=b[:400], document=m["text"][:300])
        if "N!" in a:
            rec.update(judge="FAIL", why="C03: a request that reports 'not loaded' changed its target")
            if len(failing) < 20:
                failing.append(rec)
            continue
        if m["shuffled"] is not None and "EXC:" not in a and a.startswith("O1"):
            j, perm = m["shuffled"]
            a0 = oi[j]
            if "EXC:" not in a0 and a0.startswith("O1"):
                seg0, _ = consume(meta[j]["reqs"], a0.split(","), 1)
                seg1, _ = consume(m["reqs"], a.split(","), 1)
                ok = all(seg1[p][1] == seg0[perm[p]][1] for p in range(len(perm)))
                bump("shuffled history: answers %s" % ("the same request by request" if ok else "DIFFER"))
                if not ok:
                    rec.update(judge="FAIL", original=cases[j][0][:300], original_answers=a0[:300],
                               why="C03: the same requests in another order are answered differently")
                    if len(failing) < 20:
                        failing.append(rec)
                    continue
        if a != b:
            rec.update(judge="HOLD", why="request history: the model of the scopes and the implementation differ")
            if len(diffs) < 20:
                diffs.append(rec)
    step = max(1, len(cases) // 3)
    samples = [dict(case=cases[i][0][:300], implementation=oi[i][:200], model=om[i][:200]) for i in range(0, len(cases), step)][:3]
    return dict(evaluations=2 * len(cases), distinct_nontrivial=nontrivial, samples=samples, classes=classes, failing=failing, diffs=diffs,
                known_lines=[], extra=dict(),
                rule="JSON and XML documents (objects with up to 6 members from a pool of names sharing prefixes, differing in case, non-ASCII, the empty name; duplicate "
                     "names in about a third; values: integers up to 64 bits, doubles, strings, booleans, null, nested objects and arrays to depth 3; XML: scalars also as "
                     "attributes, next to child elements of the same name) x request histories on the low-level scopes (SerializeValue by name with a target of type bool / "
                     "int32 / int64 / uint64 / double / string / nullptr matching or not, absent names, the same request twice, reversed order, OpenObjectScope / OpenArrayScope "
                     "by name with a nested history that reads part of the scope, all of it, or one item too many, IsEnd, VisitKeys, the XML attribute scope) x {memory, stream} "
                     "x the four policy settings: implementation (jx.hist) vs extracted model (m.hist); every root-object history also with its requests shuffled: the answers "
                     "must be the same request by request; no target may change when a request reports not loaded",
                broken="correspondence jx scope model (JxHistModel.v) vs rapidjson_archive.h / pugixml_archive.h low-level scopes (drv_jx jx.hist)")


def replay_c03jx(rp, vlib):
    import jx_common as J
    impl, model = J.drivers(vlib)
    line = rp["case"]
    t = line.split(" ")
    a = vlib.run_driver(impl, [line], jobs=1)[0]
    b = vlib.run_driver(model, ["m.hist %s %s %s %s" % (t[1], t[3], t[4], t[5])], jobs=1)[0]
    return dict(case=line, document=bytes.fromhex(t[4]).decode("utf-8", "replace")[:400], implementation=a, model=b, agree=(a == b),
                property_holds=("N!" not in a))
