"""C04 — numbers load exactly or are reported per policy, never silently altered."""
import num_common as N

LEVEL = "proof"
TRUSTED_BASE = [
    "Coq 8.16.1 kernel incl. vm_compute (used for the Example / _refuted witnesses only); the integer, bool and policy theorems are closed under the global context",
    "axioms under the floating-point theorems only (brought in by Coq's Reals and Flocq, named by Print Assumptions): ClassicalDedekindReals.sig_forall_dec, ClassicalDedekindReals.sig_not_dec, FunctionalExtensionality.functional_extensionality_dep, Classical_Prop.classic",
    "hand-written model coq/NumModel.v (conv, cast/wrap, usual arithmetic conversions, convert_by_policy) tied to /repo by correspondence: exhaustive over all 8- and 16-bit source values x 10 integer targets (hashed sweeps), boundary + random 32/64-bit values, every case also through Detail::ConvertByPolicy with the 2x2 policy combinations",
    "floating-point half (int -> float/double, double -> float, float -> double, float -> integer): modelled over Flocq's IEEE754.Binary (coq/NumFloatModel.v), proved in coq/NumFloatProofs.v, statements T_C04_int_to_f32_* / T_C04_int_to_f64_* / T_C04_f64_to_f32_* / T_C04_f32_to_f64 in coq/Properties_C04.v; the extracted Flocq model is compared with the implementation on boundary + random bit patterns, and every disagreement is judged by an independent exact oracle written with python integers / fractions (props/num_common.py: rne_int, rne_fraction, oracle_conv)",
    "Flocq 4 (IEEE754.Binary, binary_normalize, Btrunc, Bcompare) as the meaning of IEEE binary32/binary64 arithmetic; x86-64 SSE conversions are assumed to implement round-to-nearest-even (default rounding mode)",
    "extraction (ExtrOcamlBasic only) and the driver glue ml/num_driver.ml, ml/glue_num.ml, harness/drv_num.cpp, props/num_common.py",
    "GCC's implementation-defined integer narrowing = value modulo 2^N (documented; C++20 makes it the rule); LP64, char signed",
]
ASSUMPTIONS = [
    "platform: x86-64 Linux, GCC 12, LP64, char signed, two's complement narrowing (GCC documentation 4.5)",
    "the archive positions (root, array element, object member, map key, CSV cell, XML attribute) are not exercised here: this check covers Convert::To / TryTo and Detail::ConvertByPolicy, through which the MsgPack/JSON/CSV readers and the XML element AND attribute paths funnel every number (the attribute path used plain static_cast of pugixml's as_int family: F33, repaired by eaa6abb; it is exercised by the jx family's correspondence, C08)",
    "C++ undefined behaviour is observed through UBSan (-fsanitize=undefined,float-cast-overflow): a trap is the outcome UB, which the model no longer produces anywhere (T_C04_int_to_f32/f64_total) - so a regression of fix 30e94fb shows as a disagreement",
]


def boundary_ints():
    vals = set()
    for k in range(0, 65):
        for d in (-2, -1, 0, 1, 2):
            vals.add(2 ** k + d); vals.add(-(2 ** k) + d)
    for t, (lo, hi) in N.RANGE.items():
        for d in (-2, -1, 0, 1, 2):
            vals.add(lo + d); vals.add(hi + d)
    for p in (24, 53):           # float exactness thresholds
        for k in range(p, 65):
            for d in (-3, -2, -1, 0, 1, 2, 3):
                vals.add(2 ** k + d * 2 ** (k - p)); vals.add(2 ** k + d * (2 ** (k - p) // 2) + 1)
                vals.add(-(2 ** k + d * 2 ** (k - p)))
    return sorted(vals)


FP_BOUNDARY = {
    "f32": ["00000000", "80000000", "00000001", "807fffff", "00800000", "3f800000", "bf800000", "3fc00000", "4b800000",
            "4b800001", "4f000000", "cf000000", "4f800000", "5f000000", "df000000", "5f800000", "7f7fffff", "ff7fffff",
            "7f800000", "ff800000", "7fc00000", "7f800001", "ffc00000", "42fe0000", "43000000", "437f0000", "43800000",
            "c3000000", "c3010000", "477fff00", "47800000", "3f000000", "40000000"],
    "f64": ["0000000000000000", "8000000000000000", "0000000000000001", "000fffffffffffff", "0010000000000000",
            "3ff0000000000000", "bff0000000000000", "3ff8000000000000", "4000000000000000",
            "47efffffe0000000", "47efffffefffffff", "47effffff0000000", "47effffff0000001", "47f0000000000000",
            "c7efffffe0000000", "c7effffff0000000", "c7efffffefffffff", "36a0000000000000", "3690000000000000", "3690000000000001",
            "380fffffc0000000", "3810000000000000", "380ffffff0000000", "3ff0000010000000", "3ff0000030000000", "3ff0000010000001",
            "3ff000002fffffff", "7fefffffffffffff", "ffefffffffffffff", "7ff0000000000000", "fff0000000000000",
            "7ff8000000000000", "7ff0000000000001", "fff8000000000000", "43e0000000000000", "c3e0000000000000",
            "43f0000000000000", "41e0000000000000", "41dfffffffc00000", "c1e0000000000000", "40e0000000000000", "406fe00000000000"],
}


def rand_fp(rng, t):
    nd = N.FP[t][4]
    k = rng.random()
    if k < 0.5:
        return "%0*x" % (nd, rng.getrandbits(nd * 4))
    if k < 0.8 and t == "f64":     # doubles around the float range / precision
        x = N.fp_of_bits("f32", "%08x" % rng.getrandbits(32))
        if x != x or x in (float("inf"), float("-inf")):
            x = 1.5
        b = int(N.fp_bits("f64", x), 16) + rng.choice([0, 1, -1, 1 << 28, (1 << 28) + 1, (1 << 28) - 1, 1 << 29])
        return "%016x" % (b & (2 ** 64 - 1))
    return rng.choice(FP_BOUNDARY[t])


def gen_cases(rng, tier):
    cases = []
    classes = {}

    def add(cls, line):
        cases.append(line)
        classes[cls] = classes.get(cls, 0) + 1

    bvals = boundary_ints()
    nrand = 40000 if tier == "quick" else 600000
    # integer sources of 32/64 bits: boundary neighbourhoods x every target (12), conv and policy
    for S in ("i32", "u32", "i64", "u64"):
        lo, hi = N.RANGE[S]
        vals = [v for v in bvals if lo <= v <= hi]
        if tier == "quick":
            vals = [v for v in vals if rng.random() < 0.35 or abs(v) < 70000 or v in (lo, hi, lo + 1, hi - 1)]
        for v in vals:
            for T in N.ALL_TYPES:
                add("conv boundary %s->%s" % (S, "int" if T in N.INT_TYPES else "fp"), "conv %s %s %s" % (S, T, N.hx(v)))
        for _ in range(nrand):
            k = rng.random()
            if k < 0.4:
                v = rng.randrange(lo, hi + 1)
            elif k < 0.7:
                b = rng.randrange(1, 65)
                v = rng.randrange(-(2 ** b), 2 ** b)
            else:
                v = rng.choice(bvals) + rng.randrange(-300, 300)
            v = max(lo, min(hi, v))
            T = rng.choice(N.ALL_TYPES)
            if rng.random() < 0.5:
                add("conv random %s" % S, "conv %s %s %s" % (S, T, N.hx(v)))
            else:
                old = rng.choice(FP_BOUNDARY[T][:12]) if T in N.FP_TYPES else N.hx(rng.randrange(N.RANGE[T][0], N.RANGE[T][1] + 1))
                add("policy random %s" % S, "policy %s %s %s %s %s %s" % (S, T, N.hx(v), old, rng.choice("ST"), rng.choice("ST")))
    # small sources into float targets and every source through the four policy combinations at the limits
    for S in N.INT_TYPES:
        lo, hi = N.RANGE[S]
        for v in sorted(x for x in set([lo, lo + 1, -1, 0, 1, hi - 1, hi]) if lo <= x <= hi):
            for T in N.ALL_TYPES:
                for ovf in "ST":
                    for mism in "ST":
                        old = "3fc00000" if T == "f32" else "3ff8000000000000" if T == "f64" else "1"
                        add("policy limits", "policy %s %s %s %s %s %s" % (S, T, N.hx(v), old, ovf, mism))
    for S in ("char", "i8", "u8", "i16", "u16", "bool"):
        lo, hi = N.RANGE[S]
        for _ in range(500 if tier == "quick" else 5000):
            add("conv small->fp", "conv %s %s %s" % (S, rng.choice(N.FP_TYPES), N.hx(rng.randrange(lo, hi + 1))))
    # floating sources
    for S in N.FP_TYPES:
        for b in FP_BOUNDARY[S]:
            for T in N.ALL_TYPES:
                add("conv fp boundary", "conv %s %s %s" % (S, T, b))
                add("policy fp boundary", "policy %s %s %s %s %s %s" % (
                    S, T, b, "3fc00000" if T == "f32" else "3ff8000000000000" if T == "f64" else "1", rng.choice("ST"), rng.choice("ST")))
        for _ in range(nrand):
            T = rng.choice(N.FP_TYPES if rng.random() < 0.8 else N.ALL_TYPES)
            add("conv fp random %s" % S, "conv %s %s %s" % (S, T, rand_fp(rng, S)))
    # a source of another kind; text sources through the policy layer
    for T in N.ALL_TYPES:
        for ovf in "ST":
            for mism in "ST":
                old = "3fc00000" if T == "f32" else "3ff8000000000000" if T == "f64" else "1"
                add("policy other kind", "policyx %s %s %s %s" % (T, old, ovf, mism))
    texts = ["12", "-12", "300", "-129", "x", "", " 7", "1.5", "true", "false", "2", "0", "1", "99999999999999999999", "-0", "-5", "+5", "1e3"]
    for s in texts:
        for T in N.INT_TYPES:
            for w in N.WIDTHS:
                add("policy text", "policys %s %s %s %s %s %s" % (w, T, N.fl(N.txt(s)), "1", rng.choice("ST"), rng.choice("ST")))
    return cases, classes


def sweeps(tier):
    sw = []
    for S in ("bool", "char", "i8", "u8", "i16", "u16"):
        sw.append((["sweepconv", S], 0, N.count_values(S), 10))
    for S in ("bool", "char", "i8", "u8"):
        sw.append((["sweeppol", S], 0, N.count_values(S), 40))
    if tier != "quick":
        for S in ("i16", "u16"):
            sw.append((["sweeppol", S], 0, N.count_values(S), 40))
    return sw


def expand(tokens, i):
    op, S = tokens[0], tokens[1]
    v = N.nth_value(S, i)
    if op == "sweepconv":
        return ["conv %s %s %s" % (S, T, N.hx(v)) for T in N.INT_TYPES]
    out = []
    for T in N.INT_TYPES:
        for p in range(4):
            out.append("policy %s %s %s 1 %s %s" % (S, T, N.hx(v), "T" if p & 1 else "S", "T" if p & 2 else "S"))
    return out


def nontrivial(line, model_answer):
    return not (model_answer.startswith("OK ") or model_answer.startswith("LOADED "))


def run(ctx, vlib):
    impl, model = N.drivers(vlib, need=("conv",))
    rng = ctx["rng"]
    corpus = N.load_corpus("C04")
    gen, classes = gen_cases(rng, ctx["tier"])
    cases = corpus + gen
    oi = N.run_impl(vlib, impl, cases)
    om = vlib.run_driver(model, cases)
    sws = sweeps(ctx["tier"])
    evals, explicit = N.run_sweeps(vlib, impl, model, sws, expand)
    if explicit:
        cases += explicit
        oi += N.run_impl(vlib, impl, explicit, jobs=1)
        om += vlib.run_driver(model, explicit, jobs=1)
    res = N.assess("C04", vlib, impl, model, cases, oi, om, evals, sws, classes,
                   rule="Convert::To/TryTo and Detail::ConvertByPolicy: ALL values of bool/char/int8/uint8/int16/uint16 x 10 integer targets (hashed sweeps, bisected to single cases on mismatch; 8-bit sources (16-bit in thorough) also x 4 policy combinations); 32/64-bit sources at every type limit +-2, +-2^k+-{0,1,2}, around the 24/53-bit exactness thresholds and random, x 12 targets; float/double boundary + random bit patterns x 12 targets; source of another kind; text sources.  All ops are compared with the extracted Coq model (floats: Flocq); a disagreement is judged by the extracted specification (integers) or an exact integer/rational oracle (floats).  non-trivial = distinct case whose expected answer is not a plain success",
                   nontrivial_fn=nontrivial)
    ub = sorted(set(c for c, a in zip(cases, oi) if N.norm(a) == "UB"))
    res["notes"] = ["float half: Flocq model (NumFloatModel.v) + proofs (T_C04_int_to_f32/f64_*, T_C04_f64_to_f32_*, T_C04_f32_to_f64 in Properties_C04.v, under the Reals axioms); disagreements judged by an exact python oracle"]
    if ub:
        res["notes"].append("%d distinct cases hit undefined behaviour in the implementation (float -> integer cast of an out-of-range value in the compare-back of Convert::Detail::To), e.g. %s" % (len(ub), "; ".join(ub[:3])))
    return res


def replay(rp, vlib):
    return N.replay(rp, vlib)
