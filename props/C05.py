"""C05 — a skipped value never disturbs the loading of its neighbours (value level: exact consumption)."""
import mp_common as M
import mp_props as P
import utf_common as U

LEVEL = "proof"
TRUSTED_BASE = P.TRUSTED_BASE
ASSUMPTIONS = P.ASSUMPTIONS + [
    "this check decides the reader half of the property (a skipped / mismatched / overflowing value is consumed exactly, whatever its kind, width and nesting); the scope classes' element counters (findings F12-F14) and the JSON/XML/CSV archives are not modelled yet (partial)",
]


def run(ctx, vlib):
    impl, model = M.drivers(vlib)
    cases = U.load_corpus("C05") + P.reader_cases(ctx["rng"], ctx["tier"], skip_only=True)
    oi = vlib.run_driver(impl, cases)
    om = vlib.run_driver(model, cases)
    res = P.assess("C05", vlib, cases, oi, om, P.judge_reader,
                    nontrivial=lambda line, out: out.startswith("NOT") or out.startswith("OK -"),
                    rule="Skip policies only: every first byte x tails and random value trees (independent encoder, random format widths, nesting) followed by further data, read by a target of another kind (skip, nil, str, int32, uint8, double, array/map/bin size, timestamp) through both readers; non-trivial = distinct case in which a value was actually skipped (answer NOT <consumed> or OK - <consumed>)")


    # typed level (seeded change S23: a tuple loader that stops at the first skipped component): whole value trees loaded
    # through LoadObject<MsgPackArchive> from documents in which values of other kinds / nulls / out-of-range numbers stand at
    # every position, under the four policy settings, against the extracted typed load model (mpscope family, C01mp): every
    # neighbour of a skipped value must load as the model says
    import C01mp
    ml = C01mp.run_mpload(ctx, vlib)
    res["evaluations"] = res.get("evaluations", 0) + ml.get("evaluations", 0)
    res["failing"] = (res.get("failing") or []) + [dict(f, why="typed level: " + str(f.get("why", ""))) for f in ml.get("failing", [])][:20]
    res["diffs"] = (res.get("diffs") or []) + ml.get("diffs", [])
    for k, v in ml.get("classes", {}).items():
        res.setdefault("classes", {})["typed " + str(k)] = v
    res["rule"] = res.get("rule", "") + "; typed level: random shapes (scalars, strings, byte containers, vectors, fixed arrays, tuples, classes, maps, optionals) loaded from saved, re-encoded and perturbed documents (values of other kinds, nulls, out-of-range numbers, missing / extra members) under the four policy settings, compared with the extracted typed load model"
    return res


def replay(rp, vlib):
    if str(rp.get("case", "")).startswith(("ld ", "ldp ")):
        import C01mp
        return C01mp.replay_mpload(rp, vlib)
    return P.replay(rp, vlib, P.judge_reader)
