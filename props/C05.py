"""C05 — a skipped value never disturbs the loading of its neighbours (value level: exact consumption)."""
import mp_common as M
import mp_props as P
import utf_common as U

LEVEL = "proof"
TRUSTED_BASE = P.TRUSTED_BASE
ASSUMPTIONS = P.ASSUMPTIONS + [
    "this check decides the reader half of the property (a skipped / mismatched / overflowing value is consumed exactly, whatever its kind, width and nesting); the scope classes' element counters (findings F12-F14) and the JSON/XML/CSV archives are not modelled yet (partial)",
]


def run(ctx, vlib):
    impl, model = M.drivers(vlib)
    cases = U.load_corpus("C05") + P.reader_cases(ctx["rng"], ctx["tier"], skip_only=True)
    oi = vlib.run_driver(impl, cases)
    om = vlib.run_driver(model, cases)
    return P.assess("C05", vlib, cases, oi, om, P.judge_reader,
                    nontrivial=lambda line, out: out.startswith("NOT") or out.startswith("OK -"),
                    rule="Skip policies only: every first byte x tails and random value trees (independent encoder, random format widths, nesting) followed by further data, read by a target of another kind (skip, nil, str, int32, uint8, double, array/map/bin size, timestamp) through both readers; non-trivial = distinct case in which a value was actually skipped (answer NOT <consumed> or OK - <consumed>)")


def replay(rp, vlib):
    return P.replay(rp, vlib, P.judge_reader)
