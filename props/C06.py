"""C06 — MsgPack output is spec-conformant, compact, and readable by any decoder (value level)."""
import mp_common as M
import mp_props as P
import utf_common as U

LEVEL = "proof"
TRUSTED_BASE = P.TRUSTED_BASE
ASSUMPTIONS = P.ASSUMPTIONS + [
    "this check covers the writer overloads (every scalar, string, bin/array/map header, timestamp); the typed archive layer that decides WHICH overload and WHICH count is used (classes, base classes, containers) is not modelled yet — partial with respect to the property's 'classes / maps with every key type' clause",
]


def run(ctx, vlib):
    impl, model = M.drivers(vlib)
    cases = U.load_corpus("C06") + P.writer_cases(ctx["rng"], ctx["tier"])
    oi = vlib.run_driver(impl, cases)
    om = vlib.run_driver(model, cases)
    return P.assess("C06", vlib, cases, oi, om, P.judge_writer,
                    nontrivial=lambda line, out: len(out) > 2,
                    rule="every uint8/int8 value (and every 16-bit value in thorough) through both writers, all format thresholds 2^5..2^64 +-2 for every wider type, length thresholds 0/15/16/31/32/255/256/65535/65536/2^32 (+-1) for str/bin/array/map, random float/double bit patterns incl. NaN/Inf/subnormal, timestamps at 0, +-1, 2^32, 2^34 +-1, int64 limits; string writer and stream writer; non-trivial = distinct case whose encoding is longer than one byte")


def replay(rp, vlib):
    return P.replay(rp, vlib, P.judge_writer)
