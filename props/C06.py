"""C06 — MsgPack output is spec-conformant, compact, and readable by any decoder (value level)."""
import mp_common as M
import mp_props as P
import utf_common as U

LEVEL = "proof"
TRUSTED_BASE = P.TRUSTED_BASE
ASSUMPTIONS = P.ASSUMPTIONS + [
    "byte order: the host is little-endian (Memory::Endian::native == little, so NativeToBigEndian is Reverse); le_bytes of coq/MpOrder.v is the object representation of an unsigned integer on such a host; T_C06_big_endian_16/32/64 are about rev16/rev32/rev64 of coq/UtfModel.v (Memory::Reverse as written), tied to memory_utils.h by op `rev` of harness/drv_msgpack.cpp (NativeToBigEndian + raw copy, BigEndianToNative inverts it) on every run",
    "typed level: the value-tree model (coq/MpSaveModel.v) declares the exact number of entries for every array / map / binary, as GetContainerSize and the fields-count visitor do for containers and classes without conditional members; base classes, conditional fields and non-string/integer map keys (float, timestamp) are not in the model (partial for those clauses)",
]


def rev_cases(rng, tier):
    """byte order (coq/MpOrder.v, T_C06_big_endian_*): Memory::NativeToBigEndian + the object representation, per width:
    single bytes in every position, all-ones below every bit, every 16-bit value in thorough, random values"""
    out = []
    for bits in (16, 32, 64):
        vals = set([0, 1, (1 << bits) - 1, 0x0102030405060708 & ((1 << bits) - 1), 0x8000000000000001 & ((1 << bits) - 1) | (1 << (bits - 1))])
        for k in range(bits):
            vals.add(1 << k); vals.add((1 << k) - 1); vals.add(((1 << bits) - 1) ^ (1 << k))
        for k in range(bits // 8):
            vals.add(0xFF << (8 * k)); vals.add(0xA5 << (8 * k))
        for _ in range(2000 if tier == "thorough" else 300):
            vals.add(rng.getrandbits(bits))
        if bits == 16 and tier == "thorough":
            vals.update(range(1 << 16))
        out += ["rev %d %x" % (bits, v) for v in sorted(vals)]
    return out


def judge_rev(line, out):
    t = line.split(" ")
    k = int(t[1]) // 8
    exp = int(t[2], 16).to_bytes(k, "big").hex()
    if out == exp:
        return "HOLD", "big-endian bytes"
    return "FAIL", "NativeToBigEndian + raw copy gives %s, big-endian is %s%s" % (out, exp, " (BigEndianToNative does not invert it)" if out.endswith("!") else "")


def run(ctx, vlib):
    impl, model = M.drivers(vlib)
    cases = [c for c in U.load_corpus("C06") if not c.startswith("sv ")] + P.writer_cases(ctx["rng"], ctx["tier"])
    cases += rev_cases(ctx["rng"], ctx["tier"])
    oi = vlib.run_driver(impl, cases)
    om = vlib.run_driver(model, cases)
    # typed level: value trees saved through the public API (root / array / object / binary write scopes)
    simpl, _ = M.save_drivers(vlib)
    tcases, expect = P.tree_cases(ctx["rng"], ctx["tier"])
    tcases = [c for c in U.load_corpus("C06") if c.startswith("sv ")] + tcases
    oi += vlib.run_driver(simpl, tcases)
    om += vlib.run_driver(model, tcases)
    cases = cases + tcases
    jt = P.judge_tree(expect)
    judge = lambda line, out: jt(line, out) if line.startswith("sv ") else judge_rev(line, out) if line.startswith("rev ") else P.judge_writer(line, out)
    return P.assess("C06", vlib, cases, oi, om, judge,
                    nontrivial=lambda line, out: len(out) > 2,
                    rule="byte order: NativeToBigEndian + object representation for 16/32/64-bit values (every bit / byte position, random; every 16-bit value in thorough) against the extracted rev16/rev32/rev64 and big-endian bytes; every uint8/int8 value (and every 16-bit value in thorough) through both writers, all format thresholds 2^5..2^64 +-2 for every wider type, length thresholds 0/15/16/31/32/255/256/65535/65536/2^32 (+-1) for str/bin/array/map, random float/double bit patterns incl. NaN/Inf/subnormal, timestamps at 0, +-1, 2^32, 2^34 +-1, int64 limits; string writer and stream writer; plus random nested value trees (every C++ integer type, floats, strings, byte containers, sequences, classes with string keys, maps with integer keys, 0/1/15/16/17 entries per level) saved through SaveObject<MsgPackArchive> to memory and stream; non-trivial = distinct case whose encoding is longer than one byte")


def replay(rp, vlib):
    return P.replay(rp, vlib, P.judge_writer)
