"""C07 — MsgPack reader accepts every valid encoding and matches a reference decoder (value level)."""
import mp_common as M
import mp_props as P
import utf_common as U

LEVEL = "proof"
TRUSTED_BASE = P.TRUSTED_BASE
ASSUMPTIONS = P.ASSUMPTIONS + [
    "typed targets are the reader's ReadValue overloads (all arithmetic types, nil, float/double, string, array/map/bin headers, timestamp, type probe, skip); loading into classes/containers/maps goes through these overloads via the scope classes, which are not modelled yet (partial)",
]


def run(ctx, vlib):
    impl, model = M.drivers(vlib)
    cases = U.load_corpus("C07") + P.reader_cases(ctx["rng"], ctx["tier"]) + P.boundary_cases(ctx["rng"], ctx["tier"])
    oi = vlib.run_driver(impl, cases)
    om = vlib.run_driver(model, cases)
    return P.assess("C07", vlib, cases, oi, om, P.judge_reader,
                    nontrivial=lambda line, out: not out.startswith("ERR P") or len(line.split(" ")[-1]) > 2,
                    rule="all 256 first bytes x 6 tails x every read op x {throw, skip} x {string reader, stream reader}; random value trees encoded by an independent encoder choosing format widths at random (fixint/uint8..64/int8..64, fixstr/str8/16/32, fixarray/array16/32, fixext/ext8/16/32 timestamps), read by every op; all-position truncations and single-byte corruptions of a sample; read sequences over documents shifted by a leading string of every length 0..11, 236..261, 492..519 (all 0..529 in thorough) so that values, keys and length fields straddle the stream reader's 256-byte chunk, plus strings/binaries/arrays of 255..1000 units; non-trivial = distinct case other than a bare parsing error on a one-byte input")


def replay(rp, vlib):
    return P.replay(rp, vlib, P.judge_reader)
