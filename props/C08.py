"""C08 — JSON/XML output is standard-conformant; standard renderings load identically."""
import jx_common as J

LEVEL = "proof"     # partial: see EXPLANATION (proved halves + per-document validation of the third-party libraries)
EXPLANATION = (
    "partial, two halves. PROVED in Coq (coq/Properties_C08.v, closed under the global context): (1) a reference syntax written from RFC 8259 and from XML 1.0 "
    "(JxJsonSpec.v, JxXmlSpec.v): json_parse (json_print d) = d and xml_parse (xml_print x) = x for every well-formed DOM, white space between JSON tokens is "
    "irrelevant, the parsers are total (never out of fuel); for JSON also the converse (JxJsonSound.v): the accepted texts are exactly the RFC 8259 renderings of the returned DOM "
    "(free white space, the four spellings of a string character, the number lexeme carried by the DOM), so the reference parser accepts nothing else; the same for the XML subset (JxXmlSound.v: accepted texts = the generative description, both directions; strict about Misc and the XML declaration; "
    "DOCTYPE is outside the subset); the options of both archives reach the third-party writers as configured (T_C08_options_passed, T_C08_xml_options_passed, J47 as the stated exception); a JSON stream written under any options is read back by detection + decoding whenever a BOM is written or the text starts with characters below U+0100 - every array / object document - and the exact class where BOM-less detection fails is J46 (T_C08_stream_*); every XML stream the archive writes (it begins with the XML declaration) is recognised by pugixml's detection and read back, for all five encodings with and without BOM (T_C08_xml_stream_*); loading does not depend on the order of members at any depth for every target type incl. std::map (JxMemberOrder.v); validation error paths "
    "(JxPathModel.v, JxPathProofs.v): what GetPath of the JSON scopes yields for every nesting as an explicit function of the location, equal to the RFC 6901 pointer outside "
    "the defect class (no sequence on the way, plain names) and refuted inside it (J48, J49); (2) theorems about a hand-written model of the adapter logic of rapidjson_archive.h / pugixml_archive.h "
    "(JxModel.v): which DOM is built, how a DOM is read back, what Finalize does with a writer failure. VALIDATED PER DOCUMENT, not proved: RapidJSON 1.1.0 and pugixml "
    "1.13 themselves (their writers, parsers, number<->text conversions, encoding streams). On every run each document the implementation produces is decoded per the "
    "configured encoding, parsed by the extracted verified reference parser (the independent standard parser) and its DOM compared with the model's DOM of the value "
    "(numbers as exact rationals, doubles by correctly rounded strtod, strings as code points); every load is compared with the model's prediction; each valid document "
    "is re-rendered by hand-written emitters (white space, escapes / character references, member order, numeric spelling, encoding, BOM) and must load like the "
    "original. The extracted JSON parser itself is cross-checked against Python's json on all renderings and on mutated texts. Counts: extra.programs = documents "
    "validated (produced + re-rendered), extra.disagreements_checked = cases where property or correspondence did not hold and were examined (all of them known "
    "classes on the unchanged tree).")
TRUSTED_BASE = [
    "Coq 8.16.1 kernel incl. vm_compute; extraction with ExtrOcamlBasic only",
    "ml/jx_driver.ml, ml/glue_jx.ml, ml/glue.ml (line protocol, hex, byte<->code unit splitting, decimal<->N/Z)",
    "the floating point oracles of the model driver: OCaml float_of_string = libc strtod (correctly rounded) for 'this lexeme denotes this double' and for int->double",
    "harness/drv_jx.cpp (value syntax, catalogue of C++ targets, exception -> category)",
    "props/jx_common.py: generators, hand-written JSON/XML emitters for the re-renderings, defect-class predicates, Python codecs for encoding the re-renderings",
    "props/jx_paths.py: generator of documents for the classes with validators, its own walk computing the RFC 6901 pointers (cross-checked against the Coq specification on every case), the two class predicates (an index on the way; a name needing an escape or an empty name on the way)",
    "RapidJSON 1.1.0 and pugixml 1.13 are NOT trusted and NOT modelled: validated document by document",
]
ASSUMPTIONS = [
    "the XML archive is run with paddingCharNum >= 1 when enableFormat is on (an assert in Finalize documents this precondition of the options; the JSON archive is run with 0..8)",
    "values are restricted to what the formats can carry: valid Unicode text, XML 1.0 characters and names for XML; non-finite doubles are included (a raised error would satisfy the property)",
    "the catalogue of typed targets is a finite sample of the type universe (61 C++ types); the library has no dynamic tree type of its own",
    "the model of the adapter is tied to /repo by correspondence on the generated cases only",
    "validation error paths: pugixml's xml_node::path() is taken to be the names of the ancestor-or-self elements joined by the separator; mismatch / overflow policies of the path runs are mostly Skip (a throwing load has no map to compare)",
    "RapidJSON's detection of the encoding of a stream is the Coq function rj_detect (JxDetect.v, written from encodedstream.h; the theorems T_C08_stream_* are about it), extracted into the model driver and compared with the implementation on every stream load incl. short and adversarial prefixes; pugixml's auto-detection (guess_buffer_encoding; source not installed, written from the documented behaviour) is the Coq function px_detect (JxXmlDetect.v, theorems T_C08_xml_stream_*), extracted and compared likewise; its latin1 branch and pugixml's leniency towards ill-formed code unit sequences are outside the model (counted, not compared)",
]


def run(ctx, vlib):
    return J.run_checks("C08", ctx, vlib, want=("C08",))


def replay(rp, vlib):
    return J.replay(rp, vlib)
