"""C09 — CSV written and read per RFC 4180 for any field content and separator."""
import csv_common as C

LEVEL = "proof"
TRUSTED_BASE = [
    "Coq 8.16.1 kernel incl. vm_compute (witnesses of the two _refuted theorems and the Examples); no axioms (every theorem: Closed under the global context)",
    "coq/CsvSpec.v as the reading of RFC 4180: separator as a parameter, TEXTDATA widened to every byte other than DQUOTE/separator/CR/LF, LF or CRLF as line break, a final line break starts no record, the empty text is no file; render (grammar in generative form) and rfc_parse (reference parser) are proved to define the same language and table (T_C09_spec_parse_inverts_render, T_C09_spec_parse_accepts_only_renderings)",
    "coq/CsvModel.v as a mirror of src/csv/csv_writers.cpp, csv_readers.cpp, csv_archive.cpp, the scopes of csv_archive.h as driven by SaveObject/LoadObject of a std::vector of classes with string members, and CEncodedStreamReader<char> for a UTF-8 source — tied to /repo only by the correspondence run (harness/drv_csv.cpp vs extracted model, same case lines)",
    "extraction (ExtrOcamlBasic only), ml/glue.ml + ml/csv_driver.ml, harness/drv_csv.cpp + common.h, props/C09.py + csv_common.py (generators, independent Python RFC 4180 writer/parser used to generate renderings and to judge differences), tools/vlib.py",
    "modelled, not verified: std::string/std::vector operations, std::istream::read/gcount/eof on an istringstream, implicit noexcept of destructors (a throw from ~CCsvWriteObjectScope is std::terminate)",
]
ASSUMPTIONS = [
    "fields are byte strings; the CSV text is UTF-8 in memory or a stream. UTF-8 streams (with or without BOM) that DetectEncoding classifies as UTF-8 go through csv_load_stream K (the reader's own UTF-8 chunk model); UTF-16/32 streams go through csv_load_encoded = the same generic CSV loader fed the chunks of the C13 model of CEncodedStreamReader<char, K> (T_C09_any_encoding: well-formed text, BOM or ASCII first character, outside the C13 detection defect classes) and are exercised against the code with K = 256",
    "the reading side is a std::vector of a class whose Serialize asks for string members by name; T_C09_reader_rfc* presuppose distinct header names (NoDup hdr); T_C09_reader_any_header says what is returned otherwise",
    "the stream reader theorems are for every chunk size K >= 1; the library instantiates K = 256 and only that value is exercised against the code",
    "the row-width check of the writers compares with the first row (mPrevValuesCount), as the code does",
    "known findings, mirrored by the model and named by _refuted theorems: F22 (no rows => nothing written, not even the header)",
]

RULE = ("tables 1..6 columns x 0..5 rows over an alphabet weighted to DQUOTE , ; TAB | SPACE CR LF CRLF and multi-byte UTF-8, field lengths 0..700 "
        "clustered around the 256-byte chunk size, x 5 separators (+ invalid ones) x {mem, stream, stream+BOM} and the renderings stored as UTF-16LE/BE, UTF-32LE/BE with and without BOM read from a stream (e): "
        "(w) written through SaveObject<CsvArchive> and through the writer classes (with/without header, non-uniform rows); "
        "(r) every table re-rendered by an independent RFC 4180 writer with random quoting / LF|CRLF / final-break choices (plus all-quoted, minimal and "
        "library style), padded so that a token of the rendering straddles a chunk boundary, loaded through LoadObject<CsvArchive> with the columns "
        "requested in header order, permuted, reversed, subsets, repeated and unknown names; (m) the same texts mutated (unbalanced / stray quotes, wrong "
        "widths, truncation, stray CR, blank lines); (s) ValidateSeparator for all 256 byte values; "
        "non-trivial = distinct case whose table/text contains a byte that needs quoting, an escaped field, or is malformed")


# ---------------------------------------------------------------- judging an observed behaviour against the property

ABNORMAL = ("CRASH", "SANITIZER", "TERMINATE", "HANG", "UB", "OUTOFFUEL")


def abnormal(ans):
    return ans.startswith(ABNORMAL)


def parse_case(line):
    t = line.split(" ")
    op = t[0]
    if op == "csvw":
        hdr, rows = C.parse_table(t[3])
        return dict(op=op, mode=t[1], sep=int(t[2], 16), hdr=hdr, rows=rows, with_header=True)
    if op == "csvwi":
        hdr, rows = C.parse_table(t[4])
        return dict(op=op, mode=t[1], with_header=(t[2] == "H"), sep=int(t[3], 16), hdr=hdr, rows=rows)
    if op == "csvr":
        return dict(op=op, mode=t[1], sep=int(t[2], 16), keys=C.parse_fields(t[3]), text=C.unhx(t[4]))
    if op == "sepv":
        return dict(op=op, sep=int(t[1], 16))
    return dict(op=op)


def judge(line, ans):
    """does the implementation's answer on this case satisfy C09 as stated?
    returns (verdict, why, defect): verdict in HOLD / FAIL / UNKNOWN; defect = the known finding (F18, F22) whose
    class the case falls in when the verdict is FAIL and the theorems say that the model fails there too"""
    c = parse_case(line)
    op = c["op"]
    if op == "sepv":
        want = "OK" if c["sep"] in C.SEPS else "EXC:InvalidOptions"
        if ans == " ".join([want] * 4):
            return "HOLD", "separator %s" % ("accepted" if want == "OK" else "rejected"), None
        return "FAIL", "separator 0x%02x: expected %s from all four root scopes" % (c["sep"], want), None
    sep = c["sep"]
    if op in ("csvw", "csvr") and sep not in C.SEPS:
        if ans == "EXC:InvalidOptions":
            return "HOLD", "separator rejected", None
        return "FAIL", "separator 0x%02x is not allowed, expected EXC:InvalidOptions" % sep, None
    if op in ("csvw", "csvwi"):
        if sep in (C.DQ, C.CR, C.LF):
            return "UNKNOWN", "writer class used with a separator the grammar cannot carry", None
        hdr, rows = c["hdr"], c["rows"]
        widths = set(len(r) for r in rows)
        if len(widths) > 1:
            if ans == "EXC:OutOfRange":
                return "HOLD", "row of a different width reported", None
            if ans == "TERMINATE" and op == "csvw":
                return "FAIL", "row of a different width: the error leaves ~CCsvWriteObjectScope, std::terminate instead of an exception", "F18"
            return "FAIL", "row of a different width not reported as an error", None
        if rows and widths != {len(hdr)}:
            return "UNKNOWN", "rows are wider/narrower than the list of column names (driver artefact)", None
        if not ans.startswith("OK "):
            return "FAIL", "well-formed table not written: %s" % ans[:60], None
        out = C.unhx(ans[3:])
        if c["mode"] == "streambom":
            if out[:3] != C.BOM8:
                return "FAIL", "BOM requested but not written", None
            out = out[3:]
        table = ([hdr] if c["with_header"] else []) + rows
        if not rows:
            if not c["with_header"]:
                return ("HOLD", "no rows, no header: empty text", None) if out == b"" else ("FAIL", "text for no rows", None)
            if C.rfc_parse(sep, out) == [hdr]:
                return "HOLD", "header-only table written", None
            return "FAIL", "table without rows: the header line is not written (output %r does not parse back to the header)" % out[:40], "F22"
        if C.rfc_parse(sep, out) != table:
            return "FAIL", "an RFC 4180 parser does not recover the table from the output", None
        minimal = C.rfc_render(sep, table, [[C.needs_quote(sep, f) for f in r] for r in table], ["CRLF"] * len(table), True)
        if out != minimal:
            return "FAIL", "output parses back but fields are not quoted exactly when needed / CRLF-terminated", None
        return "HOLD", "output parses back to the table; quoted iff needed", None
    if op == "csvr":
        text = c["text"]
        mode = c["mode"]
        if mode == "stream":
            if not C.utf8_detected(text):
                # a UTF-16/32 stream (T_C09_any_encoding): the property speaks about the UTF-8 form of the text it carries
                text = decode_stream(text)
                if text is None:
                    return "UNKNOWN", "stream is neither UTF-8 nor a well-formed UTF-16/32 text with BOM / ASCII first character (C13)", None
            elif text[:3] == C.BOM8:
                text = text[3:]
        pq = C.rfc_parse_q(sep, text)
        if pq is None:
            if abnormal(ans):
                return "FAIL", "malformed text must be reported as an exception, got %s" % ans[:60], None
            return "UNKNOWN", "text is not RFC 4180 conformant; C09 demands nothing beyond a clean report", None
        table, flags = pq
        hdr, recs = table[0], table[1:]
        if any(len(r) != len(hdr) for r in recs):
            if ans == "EXC:ParsingError":
                return "HOLD", "record of a different width rejected", None
            return "FAIL", "a record's field count differs from the header but the text was not rejected", None
        keys = c["keys"]
        if len(set(hdr)) != len(hdr):
            return "UNKNOWN", "duplicate header names: reading by name is not defined", None
        want = C.fmt_cells(C.select(hdr, keys, recs))
        if ans == want:
            return "HOLD", "rows loaded exactly", None
        return "FAIL", "RFC 4180 rendering of a table not loaded to its rows: expected %s" % want[:80], None
    return "UNKNOWN", "unknown op", None


ENCODINGS = {"utf16le": ("utf-16-le", b"\xff\xfe"), "utf16be": ("utf-16-be", b"\xfe\xff"),
             "utf32le": ("utf-32-le", b"\xff\xfe\x00\x00"), "utf32be": ("utf-32-be", b"\x00\x00\xfe\xff")}


def decode_stream(data):
    """the UTF-8 form of a UTF-16/32 byte stream as C13 reads it: BOM first (UTF-32LE before UTF-16LE), else the place of
    the zero bytes around an ASCII first character; None when it is not a well-formed text in that scheme"""
    data = bytes(data)
    scheme = None
    for e in ("utf32le", "utf32be", "utf16le", "utf16be"):
        codec, bom = ENCODINGS[e]
        if data[:len(bom)] == bom:
            scheme, payload = codec, data[len(bom):]
            break
    if scheme is None:
        if len(data) >= 4 and data[1:4] == b"\x00\x00\x00" and 0 < data[0] < 128:
            scheme, payload = "utf-32-le", data
        elif len(data) >= 4 and data[0:3] == b"\x00\x00\x00" and 0 < data[3] < 128:
            scheme, payload = "utf-32-be", data
        elif len(data) >= 2 and data[1] == 0 and 0 < data[0] < 128:
            scheme, payload = "utf-16-le", data
        elif len(data) >= 2 and data[0] == 0 and 0 < data[1] < 128:
            scheme, payload = "utf-16-be", data
        else:
            return None
    try:
        text = payload.decode(scheme)
    except UnicodeDecodeError:
        return None
    if "\x00" in text:
        return None                     # NUL: inside the detection defect classes of C13
    return text.encode("utf-8")


# ---------------------------------------------------------------- generators

def nontrivial(line):
    c = parse_case(line)
    if c["op"] in ("csvw", "csvwi"):
        return any(C.needs_quote(c["sep"], f) for r in [c["hdr"]] + c["rows"] for f in r) or len(set(map(len, c["rows"]))) > 1
    if c["op"] == "csvr":
        return any(x in c["text"] for x in (C.DQ,)) or C.rfc_parse(c["sep"], c["text"]) is None
    return c["op"] == "sepv" and c["sep"] not in C.SEPS


def gen_sep(rng):
    return rng.choice(C.SEPS)


def gen_writer_cases(rng, n):
    out = []
    for _ in range(n):
        sep = gen_sep(rng)
        mode = rng.choice(["mem", "mem", "stream", "streambom"])
        hdr, rows = C.gen_table(rng, sep, allow_nul=True)
        k = rng.random()
        label = "w:uniform"
        if k < 0.06 and len(rows) >= 2:
            i = rng.randrange(1, len(rows))
            if rng.random() < 0.5 and len(rows[i]) > 1:
                rows[i] = rows[i][:-1]
            else:
                rows[i] = rows[i] + [b"x"]
            label = "w:nonuniform"
        elif k < 0.09:
            sep = rng.choice([0x2B, 0x3A, 0x00, 0x22, 0x0A, 0x0D, 0x2D, 0xFF, 0x41, rng.randrange(256)])
            label = "w:badsep" if sep not in C.SEPS else "w:uniform"
        if not rows:
            label = "w:norows"
        if rng.random() < 0.3:
            wh = rng.random() < 0.7
            out.append((C.case_csvwi(mode, wh, sep, hdr, rows), label + (":class-H" if wh else ":class-N")))
        else:
            out.append((C.case_csvw(mode, sep, hdr, rows), label + ":api"))
    return out


def gen_reader_cases(rng, n):
    out = []
    for _ in range(n):
        sep = gen_sep(rng)
        mode = rng.choice(["mem", "stream", "stream"])
        hdr, rows = C.gen_table(rng, sep)
        table = [hdr] + rows
        quotes, eols, final, style = C.gen_choices(rng, sep, table)
        if rng.random() < 0.5:
            table = C.pad_to_boundary(rng, sep, table, quotes, eols, final)
            hdr = table[0]
        text = C.rfc_render(sep, table, quotes, eols, final)
        keys, kl = C.gen_keys(rng, hdr, sep)
        label = "r:%s:%s:%s" % (mode, style, kl)
        k = rng.random()
        if k < 0.05 and len(table) >= 2:
            # a record of another width (valid RFC text, not a table)
            i = rng.randrange(1, len(table))
            t2 = [list(r) for r in table]
            q2 = [list(q) for q in quotes]
            if rng.random() < 0.5 and len(t2[i]) > 1:
                t2[i].pop(); q2[i].pop()
            else:
                t2[i].append(b""); q2[i].append(rng.random() < 0.5)
            if not (len(t2[-1]) == 1 and t2[-1][0] == b"" and not q2[-1][0] and not final):
                text = C.rfc_render(sep, t2, q2, eols, final)
                label = "r:%s:width" % mode
        elif k < 0.08:
            sep2 = rng.choice([0x2B, 0x3A, 0x00, 0x22, 0x0A, 0x2D, rng.randrange(256)])
            if sep2 not in C.SEPS:
                out.append((C.case_csvr(mode, sep2, keys, text), "r:%s:badsep" % mode))
                continue
        elif k < 0.12 and mode == "stream":
            text = C.BOM8 + text
            label += ":bom"
        if mode == "stream" and not C.utf8_detected(text):
            mode = "mem"
            label = label.replace("r:stream", "r:mem")
        if len(text) > C.K:
            label += ":multichunk"
        out.append((C.case_csvr(mode, sep, keys, text), label))
    return out


def gen_encoded_cases(rng, n):
    """RFC 4180 renderings of tables with non-ASCII cells stored as UTF-16/32 LE/BE, with BOM or BOM-less (first character
    ASCII), long enough to span several windows of the encoded reader, read from a stream (T_C09_any_encoding)"""
    out = []
    tries = 0
    while len(out) < n and tries < 20 * n:
        tries += 1
        sep = gen_sep(rng)
        hdr, rows = C.gen_table(rng, sep)
        table = [hdr] + rows
        quotes, eols, final, style = C.gen_choices(rng, sep, table)
        if rng.random() < 0.5:
            table = C.pad_to_boundary(rng, sep, table, quotes, eols, final)
            hdr = table[0]
        text8 = C.rfc_render(sep, table, quotes, eols, final)
        try:
            u = bytes(text8).decode("utf-8")
        except UnicodeDecodeError:
            continue
        if not u or "\x00" in u:
            continue
        e = rng.choice(list(ENCODINGS))
        codec, bom = ENCODINGS[e]
        with_bom = rng.random() < 0.5 or not (0 < ord(u[0]) < 128)
        data = (bom if with_bom else b"") + u.encode(codec)
        if C.utf8_detected(data):
            continue
        keys, kl = C.gen_keys(rng, hdr, sep)
        label = "e:%s:%s:%s" % (e, "bom" if with_bom else "nobom", kl)
        if len(data) > C.K:
            label += ":multichunk"
        out.append((C.case_csvr("stream", sep, keys, data), label))
    return out


def gen_malformed_cases(rng, n):
    out = []
    for _ in range(n):
        sep = gen_sep(rng)
        mode = rng.choice(["mem", "stream"])
        hdr, rows = C.gen_table(rng, sep)
        table = [hdr] + rows
        quotes, eols, final, style = C.gen_choices(rng, sep, table)
        text = C.rfc_render(sep, table, quotes, eols, final)
        kinds = []
        for _ in range(rng.choice([1, 1, 2, 3])):
            text, kd = C.mutate(rng, sep, text)
            kinds.append(kd)
        keys, kl = C.gen_keys(rng, hdr, sep)
        if mode == "stream" and not C.utf8_detected(text):
            mode = "mem"
        out.append((C.case_csvr(mode, sep, keys, text), "m:%s:%s" % (mode, kinds[0])))
    return out


def boundary_cases():
    """hand-made enumeration aimed at the case splits of the proofs and at the suspected defects"""
    out = []
    a, b, c = b"a", b"b", b"c"
    for mode in ("mem", "stream"):
        for sep in C.SEPS:
            s = bytes([sep])
            texts = [
                b"a" + s + b"b\r\nfoo" + s,                       # F24
                b"a" + s + b"b\r\n1" + s + b"2" + s,              # F24 (width)
                b"a" + s + b"b\r\n" + s,                          # two empty fields, no break
                b"a" + s + b"b\r\n1" + s + b'"2"\r\n',            # F23
                b'a' + s + b'b\r\nx' + s + b'"a""b"',             # F23 silent
                b'a' + s + b'b\r\n"foo"' + s + b"x",              # F25 with keys a,a
                b"a\r\n\r\n",                                      # one empty field
                b"a\r\n\n\n",                                      # two empty rows
                b"a\n",
                b"a",
                b'"a"',
                b'""',
                b'""\n""\n',
                b"a" + s + b"b\n1" + s + b"2\n",
                b"a" + s + b"b\r\n1" + s + b'"x\ry"\r\n',
                b"a" + s + b"b\r\n1" + s + b'"x\r"\n',
                b"a" + s + b"b\r\n1" + s + b"x\r\r\n",             # bare CR (not RFC)
                b"a" + s + b"b\r\n" + b'"1' + s + b'2"' + s + b'"3\r\n4"',
                b"\n",
                b"\r\n",
                b"\r",
                s,
                b'"',
                b"a" + s + b"b",
                b"a" + s + b"b\r\n1" + s + b"2" + s + b"3\r\n",
                b"a" + s + b"b\r\n1\r\n",
            ]
            for t in texts:
                for keys in ([a, b], [b, a], [a, a], [b], [a, c]):
                    out.append((C.case_csvr(mode, sep, keys, t), "b:%s" % mode))
    for mode in ("mem", "stream", "streambom"):
        for tbl in ([[a], []], [[a, b], []], [[a], [[b"x\ry"]]], [[a], [[b"\r"]]], [[a, b], [[b"1", b"2"], [b"3"]]],
                    [[a, b], [[b"1", b"2"], [b"3", b"4", b"5"]]], [[a, b], [[b"", b""]]], [[b""], [[b""]]],
                    [[a], [[b'"']]], [[a], [[b'x"y,z\n']]], [[b"a,b", b'c"d'], [[b"1", b"2"]]]):
            out.append((C.case_csvw(mode, 0x2C, tbl[0], tbl[1]), "b:w"))
            out.append((C.case_csvwi(mode, True, 0x2C, tbl[0], tbl[1]), "b:w"))
            out.append((C.case_csvwi(mode, False, 0x3B, tbl[0], tbl[1]), "b:w"))
    for s in range(256):
        out.append(("sepv %02x" % s, "s:sepv"))
    return out


def gen_cases(rng, scale):
    cases = gen_writer_cases(rng, 5000 * scale)
    cases += gen_reader_cases(rng, 12000 * scale)
    cases += gen_malformed_cases(rng, 4000 * scale)
    cases += gen_encoded_cases(rng, 1500 * scale)
    return cases


# ---------------------------------------------------------------- shrinking a failing case

def shrink(vlib, impl, model, line, budget=12):
    """delta debugging on the text (csvr) or on the table (csvw/csvwi) while the property still fails on the
    implementation AND the implementation still differs from the model (so that the search cannot drift into a
    recorded defect class, where both agree)"""
    cls0 = judge(line, vlib.run_driver(impl, [line], jobs=1)[0])[2]

    def fails(lines):
        outs = vlib.run_driver(impl, lines)
        outm = vlib.run_driver(model, lines)
        res = []
        for l, a, b in zip(lines, outs, outm):
            v, _, cls = judge(l, a)
            res.append(a != b and v == "FAIL" and cls == cls0)
        return res

    cur = line
    for _ in range(budget):
        c = parse_case(cur)
        cands = []
        if c["op"] == "csvr":
            t = c["text"]
            n = len(t)
            step = max(1, n // 8)
            while step >= 1 and len(cands) < 400:
                for i in range(0, n, step):
                    cands.append(C.case_csvr(c["mode"], c["sep"], c["keys"], t[:i] + t[i + step:]))
                if step == 1:
                    break
                step //= 2
            for i in range(len(c["keys"])):
                cands.append(C.case_csvr(c["mode"], c["sep"], c["keys"][:i] + c["keys"][i + 1:], t))
        elif c["op"] in ("csvw", "csvwi"):
            hdr, rows = c["hdr"], c["rows"]

            def mk(h, r):
                if c["op"] == "csvw":
                    return C.case_csvw(c["mode"], c["sep"], h, r)
                return C.case_csvwi(c["mode"], c["with_header"], c["sep"], h, r)
            for i in range(len(rows)):
                cands.append(mk(hdr, rows[:i] + rows[i + 1:]))
            for j in range(len(hdr)):
                if len(hdr) > 1:
                    cands.append(mk(hdr[:j] + hdr[j + 1:], [r[:j] + r[j + 1:] for r in rows]))
            for i, r in enumerate(rows):
                for j, f in enumerate(r):
                    for cut in (len(f) // 2, 1):
                        if len(f) > cut > 0:
                            for g in (f[:cut], f[cut:]):
                                r2 = r[:j] + [g] + r[j + 1:]
                                cands.append(mk(hdr, rows[:i] + [r2] + rows[i + 1:]))
                            for p in range(0, len(f), max(1, len(f) // 16)):
                                r2 = r[:j] + [f[:p] + f[p + 1:]] + r[j + 1:]
                                cands.append(mk(hdr, rows[:i] + [r2] + rows[i + 1:]))
        cands = [x for x in dict.fromkeys(cands) if x != cur and len(x) < len(cur)]
        if not cands:
            break
        res = fails(cands)
        nxt = [x for x, f in zip(cands, res) if f]
        if not nxt:
            break
        cur = min(nxt, key=len)
    return cur


# ---------------------------------------------------------------- run / replay

def run(ctx, vlib):
    impl, model = C.drivers(vlib)
    rng = ctx["rng"]
    # quick: one round of 21k generated cases; thorough: 8 rounds of 252k (memory stays bounded, one PRNG throughout)
    rounds = [1] if ctx["tier"] == "quick" else [12] * 8

    kn = [k for k in vlib.load_known("C09") if k.get("status") == "known"]
    known_cases = set(k["case"] for k in kn)
    known_ids = set(k["id"] for k in kn)

    failing, diffs = [], []
    classes = {}
    seen = set()
    nt = 0
    total = 0
    samples = []
    for rno, scale in enumerate(rounds):
        labelled = gen_cases(rng, scale)
        if rno == 0:
            labelled = [(l, "corpus") for l in C.load_corpus("C09")] + boundary_cases() + labelled
        cases = [l for l, _ in labelled]
        total += len(cases)
        oi = vlib.run_driver(impl, cases)
        om = vlib.run_driver(model, cases)
        for (line, label), a, b in zip(labelled, oi, om):
            classes[label] = classes.get(label, 0) + 1
            h = hash(line)
            if h not in seen:
                seen.add(h)
                if nontrivial(line):
                    nt += 1
            if b == "UNSUPPORTED":
                classes["model:unsupported"] = classes.get("model:unsupported", 0) + 1
                continue
            verdict, why, defect = judge(line, a)
            key = "judge:" + verdict + ((":" + (defect or "unclassified")) if verdict == "FAIL" else "")
            classes[key] = classes.get(key, 0) + 1
            if a != b:
                rec = dict(driver="csv", case=line, implementation=a[:400], model=b[:400], judge=verdict, why=why,
                           defect_class=defect)
                if verdict == "FAIL" and line not in known_cases:
                    if len(failing) < 200:
                        failing.append(rec)
                elif len(diffs) < 20:
                    diffs.append(rec)
            elif verdict == "FAIL" and defect is None and len(diffs) < 20:
                # model and code agree, the property fails, and the case is in no class the theorems name (F18, F22):
                # the Python reading of the property and the Coq theorems disagree
                diffs.append(dict(driver="csv", case=line, implementation=a[:400], model=b[:400], judge=verdict,
                                  why="property fails on model and implementation alike outside every recorded defect class: " + why))
        if rno == 0:
            for want in ("r:stream", "w:uniform", "m:"):
                for (line, label), a, b in zip(labelled, oi, om):
                    if label.startswith(want) and len(line) < 300:
                        samples.append(dict(case=line, implementation=a, model=b, cls=label))
                        break
        if len(failing) >= 200:
            break
    # report the failures outside every recorded defect class first, shortest first; minimise the first few
    failing.sort(key=lambda r: (r["defect_class"] is not None, len(r["case"])))
    failing = failing[:20]
    for rec in failing[:3]:
        try:
            small = shrink(vlib, impl, model, rec["case"])
            if small != rec["case"]:
                rec["original_case"] = rec["case"][:2000]
                rec["case"] = small
                rec["implementation"] = vlib.run_driver(impl, [small], jobs=1)[0][:400]
                rec["model"] = vlib.run_driver(model, [small], jobs=1)[0][:400]
                rec["why"] = judge(small, rec["implementation"])[1]
        except Exception as e:   # shrinking is best effort
            rec["shrink_error"] = str(e)

    known_lines = []
    if kn:
        outs = vlib.run_driver(impl, [k["case"] for k in kn], jobs=1)
        for k, o in zip(kn, outs):
            if o == k["implementation"]:
                known_lines.append("%s: %s [case: %s -> %s]" % (k["id"], k["what"], k["case"], o))
    notes = []
    unlisted = sorted(set(k.split(":")[2] for k in classes if k.startswith("judge:FAIL:") and not k.endswith("unclassified")) - known_ids)
    if unlisted:
        notes.append("defect classes met by generated cases (model = implementation, property fails, class named by a _refuted theorem) "
                     "that have no 'known' entry in known_findings.jsonl yet: " + ", ".join(unlisted))
    return dict(evaluations=total, distinct_nontrivial=nt, samples=samples, classes=classes, failing=failing, diffs=diffs,
                known_lines=known_lines, rule=RULE, exhaustive=False, notes=notes,
                broken="correspondence csv model vs src/csv (drv_csv)")


def replay(rp, vlib):
    impl, model = C.drivers(vlib)
    line = rp["case"]
    a = vlib.run_driver(impl, [line], jobs=1)[0]
    b = vlib.run_driver(model, [line], jobs=1)[0]
    v, why, defect = judge(line, a)
    return dict(case=line, implementation=a, model=b, judge=v, why=why, defect_class=defect)
