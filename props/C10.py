"""C10 (binary-stream-reader half) — memory and stream loading are equivalent wherever buffer
boundaries fall: CBinaryStreamReader over a stream answers what the trivial in-memory reader answers.
(The MsgPack / CSV document-level halves of C10 are separate checks of their families.)"""
import stream_common as S

LEVEL = "proof"
EXTRA_PROPERTIES = ["C10mp"]     # MsgPack stream reader = string reader on every byte string, composed with the chunked reader refinement
TRUSTED_BASE = [
    "Coq 8.16.1 kernel incl. vm_compute (only for the Examples / the refuting witness); no native_compute",
    "axioms: none (every T_C10_bsr_* theorem prints 'Closed under the global context')",
    "hand-written Gallina model coq/StreamModel.v (M-BSR) of src/common/binary_stream_reader.{h,cpp}, all nine public operations + ReadNextChunk, chunk size K a parameter; tied to /repo by this correspondence run (K = 256 and, through the hook BITSERIALIZER_VERIF_CHUNK_SIZE, K = 8,16,32,64)",
    "MODELLED standard-library component coq/StreamIStream.v (std::istream read/gcount/peek/seekg/tellg/clear/eof/fail per [istream.unformatted] as implemented by libstdc++): not verified, validated on every run by the `is` correspondence op against std::istringstream, a short-read seekable streambuf (1..k bytes per underflow) and a non-seekable streambuf",
    "reference = executable acceptor mem_accepts (coq/StreamSpec.v): position + byte list; it is also run (extracted) over the IMPLEMENTATION's answers (op bsrjudge)",
    "extraction: ExtrOcamlBasic only; N/Z/positive/nat stay extracted inductives",
    "trusted glue: ml/glue.ml, ml/glue_stream.ml, ml/stream_driver.ml, harness/drv_stream.cpp, harness/common.h, props/stream_common.py",
]
ASSUMPTIONS = [
    "operation arguments are size_t values (< 2^64) and the data is shorter than 2^63 bytes (fits std::streamoff)",
    "istream::read cannot observe how the streambuf delivers its bytes (xsgetn loops until n bytes or end): tested with the short-read streambufs, not proved",
    "ReadByChunks may cut a long value into pieces of any non-zero size <= the request; IsFailed is only required to be true after a refused SetPosition (see StreamSpec.v)",
]


def pos_pool(rng, n, k):
    base = [0, 1, n - 1, n, k - 1, k, k + 1, 2 * k - 1, 2 * k, 2 * k + 1, 3 * k]
    p = rng.choice(base + [rng.randrange(0, n + 1)])
    if p > n and rng.random() < 0.9:        # beyond the end only now and then: a refused SetPosition ends what the reference requires
        p = rng.randrange(0, n + 1)
    return max(0, p)


def rand_ops(rng, n, k, maxlen=40):
    ops = []
    for _ in range(rng.randrange(1, maxlen + 1)):
        x = rng.random()
        if x < 0.07:
            ops.append("e")
        elif x < 0.10:
            ops.append("f")
        elif x < 0.20:
            ops.append("g")
        elif x < 0.34:
            ops.append("s%d" % pos_pool(rng, n, k))
        elif x < 0.42:
            ops.append("p")
        elif x < 0.50:
            ops.append("n")
        elif x < 0.60:
            ops.append("b")
        elif x < 0.80:
            ops.append("k%d" % rng.choice([0, 1, 2, 4, 8, k // 2, k - 1, k, k + 1, rng.randrange(0, k + 2)]))
        else:
            ops.append("c%d" % rng.choice([0, 1, 5, k - 1, k, k + 1, 3 * k, rng.randrange(0, 3 * k + 2)]))
    return ops


def gen_is(rng, count):
    cases = []
    for _ in range(count):
        n = rng.choice([0, 1, 2, 5, 10, 40, 127, 128, 129, 200])
        data = [rng.randrange(256) for _ in range(n)]
        ops = []
        for _ in range(rng.randrange(1, 14)):
            x = rng.random()
            if x < 0.3:
                ops.append("r%d" % rng.choice([0, 1, 2, 3, n, n + 1, 128]))
            elif x < 0.45:
                ops.append("p")
            elif x < 0.6:
                ops.append("s%d" % rng.choice([-1, 0, 1, n - 1, n, n + 1, 2]))
            elif x < 0.7:
                ops.append("t")
            elif x < 0.8:
                ops.append("c")
            elif x < 0.9:
                ops.append("e")
            else:
                ops.append("f")
        cases.append("is %s %s %s" % (rng.choice(S.KINDS), S.hx(data), ",".join(ops)))
    return cases


def gen_bsr(rng, k, count):
    cases = []
    lens = [0, 1, k - 1, k, k + 1, 2 * k - 1, 2 * k, 2 * k + 1, 3 * k - 1, 3 * k]
    for _ in range(count):
        n = rng.choice(lens + [rng.randrange(0, 3 * k + 1)])
        data = [rng.randrange(256) for _ in range(n)]
        cases.append("bsr %d %s %s %s" % (k, rng.choice(S.KINDS), S.hx(data), ",".join(rand_ops(rng, n, k))))
    return cases


def boundary_bsr(rng, k):
    """aimed at the case splits of the proof: refill with a squeeze of every size, window exhausted exactly at the
    chunk end, SetPosition to every edge of the cached region, IsEnd after an exactly-full last chunk"""
    cases = []
    for n in (k, 2 * k, 2 * k + 1, 3 * k):
        data = [(i * 7 + 3) % 256 for i in range(n)]
        h = S.hx(data)
        for a in sorted(set([0, 1, 2, k // 2, k - 2, k - 1, k])):
            for b in sorted(set([0, 1, 2, k - a, k - a + 1, k - 1, k])):
                if b <= k:
                    cases.append("bsr %d s %s k%d,g,k%d,g,e,p,f" % (k, h, a, b))
        for p in sorted(set([0, 1, k - 1, k, k + 1, n - k - 1, n - k, n - k + 1, n - 1, n, n + 1])):
            if p >= 0:
                cases.append("bsr %d s %s k%d,b,s%d,g,p,e,c%d,e" % (k, h, min(k, n), p, 3 * k))
                cases.append("bsr %d c3 %s c%d,c%d,c%d,c%d,e,s%d,g,b,e,f" % (k, h, k, k, k, k, p))
                cases.append("bsr %d n2 %s k%d,s%d,g,b" % (k, h, min(k, 2), p))
        cases.append("bsr %d s %s %s,e,b,e" % (k, h, ",".join(["b"] * min(n, 40))))
        cases.append("blob %d s %s %d %d" % (k, h, 1, n - 1))
        cases.append("blob %d c1 %s %d %d" % (k, h, k - 1, k + 2))
        cases.append("blob %d s %s %d %d" % (k, h, 0, n + 1))
    return cases


def run(ctx, vlib):
    rng = ctx["rng"]
    quick = ctx["tier"] == "quick"
    model = S.model_driver(vlib)
    ks = S.bsr_ks(vlib)
    impls = dict((k, S.impl_driver(vlib, k)) for k in ks)

    def driver_for(case):
        t = case.split(" ")
        if t[0] in ("bsr", "blob"):
            return impls.get(int(t[1]), impls[256])
        return impls[256]

    allc = S.load_corpus("C10") + gen_is(rng, 3000 if quick else 30000)
    for k in ks:
        allc += boundary_bsr(rng, k)
        allc += gen_bsr(rng, k, (1500 if quick else 15000) if k == 256 else (2500 if quick else 25000))

    def case_k(c):
        t = c.split(" ")
        return int(t[1]) if t[0] in ("bsr", "blob") else 256
    cases, oi, om = [], [], []
    for k in ks:
        mine = [c for c in allc if case_k(c) == k]
        cases += mine
        oi += vlib.run_driver(impls[k], mine)
        om += vlib.run_driver(model, mine)
    skipped = [c for c in allc if case_k(c) not in impls]      # corpus lines for a K that needs the hook

    # the property predicate itself, evaluated on what the implementation answered: every trace on a
    # seekable stream must be accepted by the in-memory reader
    jl, jidx = [], []
    for i, (c, a) in enumerate(zip(cases, oi)):
        t = c.split(" ")
        if t[0] == "bsr" and not t[2].startswith("n") and t[4] != "-" and \
                not a.startswith(("CRASH", "SANITIZER", "TERMINATE", "HANG", "EXC", "UNSUPPORTED")):
            jl.append("bsrjudge %s %s %s %s" % (t[1], t[3], t[4], a)); jidx.append(i)
    jo = vlib.run_driver(model, jl)
    rejected = dict((jidx[j], True) for j, o in enumerate(jo) if o != "ACCEPT")

    known, known_cases = S.known_lines(vlib, "C10", driver_for)
    failing, diffs = [], []
    classes = {}
    seen = set()
    nontriv = 0
    for i, (c, a, b) in enumerate(zip(cases, oi, om)):
        t = c.split(" ")
        key = "%s K=%s %s" % (t[0], t[1] if t[0] != "is" else "-", (t[2] if t[0] != "is" else t[1])[0])
        classes[key] = classes.get(key, 0) + 1
        if c not in seen:
            seen.add(c)
            if t[0] in ("bsr", "blob") and (len(t[3]) // 2 > int(t[1]) or ",s" in t[4] or t[4].startswith("s")):
                nontriv += 1
            elif t[0] == "is":
                nontriv += 1
        if i in rejected and c not in known_cases:
            rec = dict(driver="stream", case=c, implementation=a, model=b, judge="FAIL",
                       why="the in-memory reader (mem_accepts) rejects this trace of CBinaryStreamReader")
            if len(failing) < 20:
                failing.append(rec)
        elif a != b:
            rec = dict(driver="stream", case=c, implementation=a, model=b,
                       judge="HOLD" if t[0] == "bsr" and not t[2].startswith("n") else "UNKNOWN",
                       why="model and implementation disagree; the reference reader accepts the implementation's trace"
                       if t[0] == "bsr" else "model and implementation disagree")
            if a.startswith(("CRASH", "SANITIZER", "TERMINATE", "HANG")):
                rec["judge"] = "FAIL"; rec["why"] = "the reader did not return: %s" % a
                if len(failing) < 20:
                    failing.append(rec)
            elif len(diffs) < 20:
                diffs.append(rec)
    # shrink what failed (bounded effort), keep the original line too
    for rec in failing[:5]:
        if rec["case"].startswith("bsr "):
            k = int(rec["case"].split(" ")[1])
            small = S.shrink_bsr(vlib, impls.get(k, impls[256]), model, rec["case"])
            if small != rec["case"]:
                rec["original_case"] = rec["case"]
                rec["case"] = small
                rec["implementation"] = vlib.run_driver(impls.get(k, impls[256]), [small], jobs=1)[0]
                rec["model"] = vlib.run_driver(model, [small], jobs=1)[0]
    samples = [dict(case=cases[i][:300], implementation=oi[i][:300], model=om[i][:300]) for i in (0, len(cases) // 2, len(cases) - 1)]
    # document level, MsgPack: the same read sequences from memory and from a stream (coordinator's part)
    import mp_props
    mp = mp_props.mem_vs_stream(ctx, vlib)
    failing += mp["failing"]
    diffs += mp["diffs"]
    classes.update(mp["classes"])
    nontriv += mp["distinct_nontrivial"]       # measured in mem_vs_stream: distinct cases whose document exceeds the chunk
    # the MsgPack stream reader's own model (coq/MpStreamModel.v, Properties_C10mp.v): extracted model run on the in-memory
    # reader and on the chunked reader model (K = 8, 256) vs the real stream reader (chunk 256 and hook build 8) vs the real
    # string reader, on every format family behind pads of every length, truncations, random documents and sequences
    import C10mp
    ms = C10mp.run_mpstream(ctx, vlib)
    failing += ms.get("failing", [])[: max(0, 20 - len(failing))]
    diffs += ms.get("diffs", [])
    for k, v in ms.get("classes", {}).items():
        classes["mpstream " + str(k)] = v
    known += ms.get("known_lines", [])
    nontriv += ms.get("distinct_nontrivial", 0)
    # known findings of C10 written in the arch family's case syntax (JSON / XML memory vs stream through the archives)
    import arch_common
    ak = [k for k in vlib.load_known("C10") if k.get("status") == "known" and k.get("driver") == "arch"]
    if ak:
        aimpl = arch_common.drivers(vlib)[0]
        for k in ak:
            so = vlib.run_driver(aimpl, [k["case"]], jobs=1)[0]
            mo = vlib.run_driver(aimpl, [k.get("memory_case", k["case"])], jobs=1)[0]
            if so.split(" ")[0] == k["implementation"].split(" ")[0] and mo != so:
                known.append("%s: %s [stream: %s -> %s; memory: -> %s]" % (k["id"], k["what"], k["case"][:120], so[:60], mo[:60]))
            else:
                diffs.append(dict(driver="arch", case=k["case"], implementation=so, model=k["implementation"], judge="KNOWN-FINDING-CHANGED",
                                  why="listed known finding %s no longer reproduces as recorded" % k["id"]))
    cs = csv_mem_vs_stream(ctx, vlib)
    failing += cs["failing"]
    classes.update(cs["classes"])
    nontriv += cs["distinct_nontrivial"]       # measured in csv_mem_vs_stream: distinct stream cases whose document exceeds the chunk
    return dict(evaluations=len(cases) + len(jl) + mp["evaluations"] + cs["evaluations"] + ms.get("evaluations", 0), distinct_nontrivial=nontriv, samples=samples, classes=classes,
                failing=failing, diffs=diffs, known_lines=known,
                rule="random sequences (<= 40) of the nine CBinaryStreamReader operations over data of length 0..3K (lengths and positions at K-1,K,K+1,2K-1,..,3K), boundary scripts for every squeeze size / window edge, the callers' ReadByChunks loop, x stream kinds {istringstream, short-read seekable streambuf 1..k bytes per underflow, non-seekable streambuf} x K in %s; every implementation trace on a seekable stream is additionally checked by the extracted reference reader; `is` ops validate the modelled istream; document level: MsgPack read sequences (every first byte x tails, random documents, truncations, corruptions, documents shifted across the chunk boundary by a leading string of every length around 0/256/512) through the string reader and the stream reader (chunk 256 and 8), which must agree with each other and with the MsgPack model; non-trivial = distinct case that refills the window or seeks" % ks,
                exhaustive=False, broken="correspondence stream model (M-BSR / M-IS) vs binary_stream_reader.cpp (drv_stream)",
                extra=dict(chunk_sizes=ks, hook=S.hook_present(vlib), reference_checked=len(jl), reference_rejected=len(rejected), corpus_lines_skipped_for_missing_hook=len(skipped)))


def csv_mem_vs_stream(ctx, vlib):
    """document level, CSV: the same bytes loaded from memory and from a stream must give the same rows (or both fail);
    document lengths are placed around the multiples of the 256-byte chunk of the encoded stream reader, with and
    without a final line break, LF and CRLF, a quoted field straddling the boundary (seeded change S13)."""
    import csv_common
    impl = csv_common.drivers(vlib)[0]
    rng = ctx["rng"]
    cases = []
    thorough = ctx["tier"] == "thorough"
    for ncols in (1, 2, 3):
        hdr = ["k%d" % j for j in range(ncols)]
        keys = ",".join(h.encode().hex() for h in hdr)
        for target in ([255, 256, 257, 511, 512, 513, 768, 1024] if not thorough else list(range(250, 262)) + list(range(506, 518)) + [767, 768, 769, 1023, 1024, 1025, 2048]):
            for eol in ("\r\n", "\n"):
                for final in (True, False):
                    for quoted in (False, True):
                        lines = [",".join(hdr)]
                        body = lambda: eol.join(lines) + (eol if final else "")
                        # fill with rows, then pad the last field so that the document has exactly `target` bytes
                        blen = lambda: len(body().encode("utf-8"))
                        while blen() < target - 40:
                            lines.append(",".join(rng.choice([str(rng.randint(0, 9999)), "\u00e9\u4e16", "\U0001F600z", "\u044f"]) for _ in hdr))
                        pad = target - blen() - len(eol) - (ncols - 1) * 2 - (2 if quoted else 0)
                        if pad < 1:
                            continue
                        last = "x" * pad
                        if quoted:
                            last = '"' + last[: pad // 2] + ("," if pad > 2 else "") + last[pad // 2 + 1:] + '"' if pad > 2 else '"' + last + '"'
                        lines.append(",".join(["1"] * (ncols - 1) + [last]))
                        doc = body().encode()
                        for kind in ("mem", "stream"):
                            cases.append("csvr %s 2c %s %s" % (kind, keys, doc.hex()))
    # record endings: the last cell empty and unquoted (the text ends with the separator), empty and quoted, or plain; empty cells
    # elsewhere; with and without the final line break; short documents and documents just above one chunk (seeded change S44)
    for ncols in (1, 2, 3):
        hdr = ["k%d" % j for j in range(ncols)]
        keys = ",".join(h.encode().hex() for h in hdr)
        for eol in ("\r\n", "\n"):
            for final in (True, False):
                for last in ("", '""', "a", "\u00e9"):
                    for first_empty in (False, True):
                        for nrows in (1, 2, 40):
                            lines = [",".join(hdr)]
                            for r in range(nrows - 1):
                                lines.append(",".join(("" if (first_empty and j == 0) else str(r * 7 + j)) for j in range(ncols)))
                            lines.append(",".join(["" if first_empty else "1"] * (ncols - 1) + [last]))
                            doc = (eol.join(lines) + (eol if final else "")).encode()
                            for kind in ("mem", "stream"):
                                cases.append("csvr %s 2c %s %s" % (kind, keys, doc.hex()))
    outs = vlib.run_driver(impl, cases)
    failing, classes = [], {}
    for i in range(0, len(cases), 2):
        a, b = outs[i], outs[i + 1]
        key = "csv mem-vs-stream -> %s" % ("equal" if a == b else "DIFFERENT")
        classes[key] = classes.get(key, 0) + 1
        if a != b and len(failing) < 20:
            failing.append(dict(driver="csv", case=cases[i + 1], implementation=b[:300], model=a[:300], judge="FAIL",
                                why="the same CSV bytes load differently from a stream than from memory"))
    evaluations = len(cases)
    # measured for the evidence: distinct stream cases whose document is longer than the reader's chunk (the window is refilled)
    nontrivial = set(c for c in cases if c.startswith("csvr stream") and len(c.split(" ")[-1]) // 2 > 256)
    # the same table saved in the other four encodings (with BOM, and without BOM: detection needs an ASCII first character,
    # which a header name is): the stream load must give what the memory load of the UTF-8 text gives - the composition of
    # the CSV stream reader (C09) with the chunked transcoding reader (C13), observed on the implementation
    enc_cases, enc_expect = [], []
    for i in range(0, len(cases), 2):
        t = cases[i].split(" ")
        try:
            text = bytes.fromhex(t[4]).decode("utf-8")
        except Exception:
            continue
        if i % 6:
            continue
        for codec, bom in (("utf-16-le", b"\xff\xfe"), ("utf-16-be", b"\xfe\xff"), ("utf-32-le", b"\xff\xfe\x00\x00"), ("utf-32-be", b"\x00\x00\xfe\xff")):
            for with_bom in (True, False):
                data = (bom if with_bom else b"") + text.encode(codec)
                enc_cases.append("csvr stream %s %s %s" % (t[2], t[3], data.hex()))
                enc_expect.append(outs[i])
    eo = vlib.run_driver(impl, enc_cases)
    evaluations += len(enc_cases)
    nontrivial |= set(c for c in enc_cases if len(c.split(" ")[-1]) // 2 > 256)
    for c, o, want in zip(enc_cases, eo, enc_expect):
        key = "csv stream in UTF-16/32 vs memory UTF-8 -> %s" % ("equal" if o == want else "DIFFERENT")
        classes[key] = classes.get(key, 0) + 1
        if o != want and len(failing) < 20:
            failing.append(dict(driver="csv", case=c[:3000], implementation=o[:300], model=want[:300], judge="FAIL",
                                why="a CSV table in UTF-16/32 loads differently from a stream than its UTF-8 text loads from memory"))
    # small chunk sizes (hook BITSERIALIZER_VERIF_CSV_CHUNK_SIZE, /repo b276b03): every alignment of quoted fields, escaped
    # quotes, separators and line breaks relative to the chunk boundary with short documents; three-way comparison
    # memory load / stream load of the hook build / extracted stream model with the same K (csv_load_stream K, C09)
    model = csv_common.drivers(vlib)[1]
    if hook_csv_present(vlib):
        for K in (32, 64):
            implk = vlib.build_cpp("drv_csv_k%d" % K, ["drv_csv.cpp"], extra=vlib.repo_sources("src/csv/*.cpp") + ["-DBITSERIALIZER_VERIF_CSV_CHUNK_SIZE=%d" % K])
            docs = []
            fields = ["a", "", "x,y", 'q"q', "line\nbreak", "cr\r\nlf", "\u00e9\u4e16\U0001F600", " sp ", '""']
            for total in (list(range(K - 6, K + 7)) + list(range(2 * K - 6, 2 * K + 7)) + [3 * K - 1, 3 * K, 3 * K + 1] if thorough
                          else [K - 2, K - 1, K, K + 1, K + 2, 2 * K - 1, 2 * K, 2 * K + 1, 3 * K]):
                for eol in ("\r\n", "\n"):
                    for final in (True, False):
                        for rep in range(6 if thorough else 3):
                            rows = [["h1", "h2"]]
                            while True:
                                rows.append([rng.choice(fields), rng.choice(fields)])
                                text = eol.join(",".join(csv_common_quote(f) for f in r) for r in rows) + (eol if final else "")
                                if len(text.encode()) >= total - 12:
                                    break
                            pad = total - len(text.encode())
                            if pad < 0:
                                continue
                            rows[-1][0] = rows[-1][0] + "p" * pad
                            text = eol.join(",".join(csv_common_quote(f) for f in r) for r in rows) + (eol if final else "")
                            docs.append(text.encode())
            keys = "6831,6832"
            cm = ["csvr mem 2c %s %s" % (keys, d.hex()) for d in docs]
            cs = ["csvr stream%d 2c %s %s" % (K, keys, d.hex()) for d in docs]
            om_ = vlib.run_driver(impl, cm)
            os_ = vlib.run_driver(implk, cs)
            ok_ = vlib.run_driver(model, cs)
            evaluations += 3 * len(docs)
            nontrivial |= set(c for c, d in zip(cs, docs) if len(d) > K)
            for c, a, b, m in zip(cs, om_, os_, ok_):
                key = "csv K=%d -> %s" % (K, "equal" if a == b == m else "DIFFERENT")
                classes[key] = classes.get(key, 0) + 1
                if not (a == b == m) and len(failing) < 20:
                    failing.append(dict(driver="csv", case=c, implementation=b[:300], model=m[:300], memory=a[:300], judge="FAIL" if a != b else "DIFF",
                                        why="chunk size %d: stream load / memory load / stream model disagree" % K))
    return dict(evaluations=evaluations, failing=failing, classes=classes, distinct_nontrivial=len(nontrivial))


def csv_common_quote(f):
    """minimal RFC 4180 quoting"""
    if any(ch in f for ch in ',"\r\n') or f == "":
        return '"' + f.replace('"', '""') + '"'
    return f


def hook_csv_present(vlib):
    import os
    try:
        return "BITSERIALIZER_VERIF_CSV_CHUNK_SIZE" in open(os.path.join(vlib.REPO, "src", "csv", "csv_readers.h"), errors="replace").read()
    except OSError:
        return False


def replay(rp, vlib):
    model = S.model_driver(vlib)
    c = rp["case"]
    t = c.split(" ")
    k = int(t[1]) if t[0] in ("bsr", "blob") else 256
    impl = S.impl_driver(vlib, k if k in S.bsr_ks(vlib) else None)
    a = vlib.run_driver(impl, [c], jobs=1)[0]
    b = vlib.run_driver(model, [c], jobs=1)[0]
    res = dict(case=c, implementation=a, model=b)
    if t[0] == "bsr":
        res["reference"] = vlib.run_driver(model, ["bsrjudge %s %s %s %s" % (t[1], t[3], t[4], a)], jobs=1)[0]
    return res
