"""C10, MessagePack half — "memory and stream loading are equivalent wherever buffer boundaries fall" for the two
readers of src/msgpack/msgpack_readers.cpp.

Proof side: coq/MpStreamModel.v (CMsgPackStreamReader as programs over the nine operations of
CBinaryStreamReader), coq/MpStreamProofs.v, statements coq/Properties_C10mp.v (T_C10mp_*): on every reader the
in-memory reference accepts — in particular the chunked reader model for every chunk size K >= 8 on a seekable
stream — every sequence of reads answers exactly what the string-reader model (MpModel.v) answers.

Tie to /repo (this file): the extracted stream-reader model (ml/mpstream_driver.ml; every case is run on the
in-memory reader and on the chunked reader model with K = 8 and K = 256, which must agree) against the real
CMsgPackStreamReader (harness/drv_msgpack.cpp kind `s`), built with chunk_size 256 and, through the hook
-DBITSERIALIZER_VERIF_CHUNK_SIZE=8, with chunk_size 8, on the same case lines.  All cases are run as `p` lines:
an ERR answer carries the reader position after the throw, which the model must reproduce too (the position
is NOT compared with the string reader's: it differs in the class of T_C10mp_skip_throw_related; those cases
are counted in `classes`).  Every stream answer is also
compared with the real CMsgPackStringReader on the same document (kind `m`): a difference there is a failure
of the property itself.

props/C10.py calls run_mpstream(ctx, vlib) and merges the result."""
import mp_common as M
import mp_props

LEVEL = "proof"
TRUSTED_BASE = [
    "hand-written Gallina model coq/MpStreamModel.v of CMsgPackStreamReader (GetValue, ReadExtSize, SkipValueImpl, HandleMismatchedTypesPolicy, ReadInteger, ReadExtFamilyType, ReadValueType, all ReadValue overloads, ReadArraySize/ReadMapSize/ReadBinarySize/ReadBinary, SkipValue, SetPosition, IsEnd) as programs over the operations of CBinaryStreamReader; tied to /repo by this correspondence run with chunk_size 256 and 8 (hook BITSERIALIZER_VERIF_CHUNK_SIZE)",
    "the string-reader model coq/MpModel.v (C07/C05) and the CBinaryStreamReader model coq/StreamModel.v + modelled std::istream coq/StreamIStream.v (C10 binary-stream-reader half) with their own correspondence runs",
    "extraction: ExtrOcamlBasic only; trusted glue ml/glue.ml ml/glue_mpstream.ml ml/mpstream_driver.ml harness/drv_msgpack.cpp props/mp_common.py",
    "double->float narrowing / float->double widening are the C++ conversions, supplied to the model by the driver (a parameter of the theorems)",
]
ASSUMPTIONS = [
    "equal answers need a seekable stream (std::stringstream / std::ifstream) or a run whose SetPositions stay in the cached window (T_C10mp_nonseekable_outside); otherwise (known finding F16b: only BACKWARD seeks across a chunk boundary are left since fix e491e27 made SkipValue read through the value) the run ends in InputOutputError (ext header look-ahead, timestamp, SetPosition rewind; fix 24799d8) after answers identical to memory loading — T_C10mp_nonseekable_no_silent_difference, checked on every non-seekable case",
    "chunk_size >= 8 (it is 256; the test hook uses 8): GetValue<uint64_t> asks ReadSolidBlock for 8 contiguous bytes; refuted below 8 by T_C10mp_stream_equals_memory_anychunk_refuted",
    "input bytes are < 256, the document is shorter than 2^63 bytes, SetPosition is only called with positions inside the document (beyond the end the string reader throws std::invalid_argument and the stream reader returns normally: T_C10mp_stream_equals_memory_anysetpos_refuted)",
    "not modelled: the Offset field / text of the exceptions, mBuffer.reserve of ReadValue(string_view); the reader position after an exception is the final state of the model's run and is compared with the real stream reader on every case (p lines); it differs from the string reader's in the class of T_C10mp_skip_throw_related (same error class)",
]

SEQ_OPS = ["int:s64", "int:u8", "int:u32", "int:u1", "str", "nil", "f64", "f32", "arr", "map", "bin", "ts", "skip", "type", "byte"]


def probe_values(rng):
    """one value of every format family / width, with the read op that matches it"""
    ts4 = (5).to_bytes(4, "big")
    ts8 = ((999999999 << 34) | 17).to_bytes(8, "big")
    ts12 = (7).to_bytes(4, "big") + (-3).to_bytes(8, "big", signed=True)
    pv = [
        (bytes([0x7F]), "int:u8"), (bytes([0xE0]), "int:s8"), (b"\xcc\xff", "int:u8"), (b"\xcd\x01\x02", "int:u16"),
        (b"\xce\x01\x02\x03\x04", "int:u32"), (b"\xcf\x01\x02\x03\x04\x05\x06\x07\x08", "int:u64"),
        (b"\xd0\x80", "int:s8"), (b"\xd1\x80\x01", "int:s16"), (b"\xd2\x80\x00\x00\x01", "int:s32"),
        (b"\xd3\x80\x00\x00\x00\x00\x00\x00\x01", "int:s64"), (b"\xc2", "int:u1"), (b"\xc3", "int:u1"), (b"\xc0", "nil"),
        (b"\xca\x3f\x80\x00\x00", "f32"), (b"\xca\x3f\x80\x00\x00", "f64"), (b"\xcb\x3f\xf0\x00\x00\x00\x00\x00\x00", "f64"),
        (b"\xcb\x3f\xf0\x00\x00\x00\x00\x00\x00", "f32"),
        (M.enc_str(b"abcdefghijk"), "str"), (b"\xd9\x0b" + b"abcdefghijk", "str"), (b"\xda\x00\x0b" + b"abcdefghijk", "str"),
        (b"\xdb\x00\x00\x00\x0b" + b"abcdefghijk", "str"), (M.enc_str(b""), "str"),
        (b"\xc4\x03abc", "bin"), (b"\xc5\x00\x03abc", "bin"), (b"\xc6\x00\x00\x00\x03abc", "bin"),
        (b"\x93\x01\x02\x03", "arr"), (b"\xdc\x00\x03\x01\x02\x03", "arr"), (b"\xdd\x00\x00\x00\x03\x01\x02\x03", "arr"),
        (b"\x81\xa1k\x05", "map"), (b"\xde\x00\x01\xa1k\x05", "map"), (b"\xdf\x00\x00\x00\x01\xa1k\x05", "map"),
        (b"\xd6\xff" + ts4, "ts"), (b"\xd7\xff" + ts8, "ts"), (b"\xc7\x0c\xff" + ts12, "ts"), (b"\xc8\x00\x0c\xff" + ts12, "ts"),
        (b"\xc9\x00\x00\x00\x0c\xff" + ts12, "ts"), (b"\xc7\x04\xff" + ts4, "ts"), (b"\xc7\x05\xff" + ts4 + b"\x00", "ts"),
        (b"\xd4\x05\x01", "ts"), (b"\xd5\x05\x01\x02", "skip"), (b"\xd8\x07" + bytes(range(16)), "type"),
        (b"\xc7\x03\x07abc", "skip"), (b"\x92\x92\x01\x81\x02\xc0\xd9\x02hi", "skip"),
        (b"\x82\x01\x92\xc0\xc3\xa1x\xcb" + b"\x00" * 8, "skip"), (b"\xc1", "skip"),
    ]
    return pv


def chunk8_cases(rng, tier):
    """documents shifted across the boundaries of an 8-byte chunk by a leading fixstr of every length: every
    header, length field, ext type byte and payload comes to lie on every alignment; matching op, skip, type,
    a mismatching op; all truncations of the shifted value"""
    quick = tier == "quick"
    cases = []
    pvs = probe_values(rng)
    shifts = list(range(0, 10)) if quick else list(range(0, 18))
    for val, op in pvs:
        for L in shifts:
            pad = M.enc_str(b"p" * L)
            doc = pad + val + b"\x2a"
            for pol in ("TT", "SS"):
                for o in sorted(set([op, "skip", "type", rng.choice(SEQ_OPS)])):
                    cases.append("q s %s str,%s,int:u8 %s" % (pol, o, M.hx(doc)))
            # truncations: every cut inside the value (and just before / after it)
            cuts = range(len(pad), len(pad) + len(val) + 1)
            if quick and len(val) > 6:
                cuts = sorted(set(list(cuts)[:4] + list(cuts)[-3:] + [rng.choice(list(cuts))]))
            for cut in cuts:
                for o in (op, "skip"):
                    cases.append("q s %s str,%s,int:u8 %s" % (rng.choice(M.POLS), o, M.hx(doc[:cut])))
    # random documents read by random sequences, shifted
    for _ in range(300 if quick else 6000):
        L = rng.randrange(0, 20)
        vs = [M.rand_value(rng) for _ in range(rng.randrange(1, 5))]
        doc = M.enc_str(b"p" * L) + b"".join(M.enc_value(v, rng) for v in vs)
        ops = ["str"] + [rng.choice(SEQ_OPS) for _ in range(len(vs))]
        pol = rng.choice(M.POLS)
        cases.append("q s %s %s %s" % (pol, ",".join(ops), M.hx(doc)))
        if rng.random() < 0.5 and len(doc) > 2:
            cases.append("q s %s %s %s" % (pol, ",".join(ops), M.hx(doc[:rng.randrange(1, len(doc))])))
        if rng.random() < 0.3:
            i = rng.randrange(0, len(doc))
            cases.append("q s %s %s %s" % (pol, ",".join(ops), M.hx(doc[:i] + bytes([rng.randrange(256)]) + doc[i + 1:])))
    # containers read element-wise and long strings / binaries through the ReadByChunks loop
    for n in (7, 8, 9, 15, 16, 17, 31, 32, 33, 64, 100):
        s_ = M.enc_str(bytes((i * 7) % 256 for i in range(n))) + b"\x05"
        b_ = M.enc_bin(bytes((i * 3) % 256 for i in range(n))) + b"\x05"
        a_ = M.enc_arr_hdr(n) + b"".join(M.enc_int(i % 200 - 100) for i in range(n)) + b"\x05"
        for pad in (b"", b"\xc0", b"\xc0\xc0\xc0"):
            pre = ",".join(["nil"] * len(pad)) + ("," if pad else "")
            cases.append("q s TT %sstr,int:u8 %s" % (pre, M.hx(pad + s_)))
            cases.append("q s TT %sskip,int:u8 %s" % (pre, M.hx(pad + s_)))
            cases.append("q s TT %sbin,%s,int:u8 %s" % (pre, ",".join(["byte"] * n), M.hx(pad + b_)))
            cases.append("q s TT %sskip,int:u8 %s" % (pre, M.hx(pad + b_)))
            cases.append("q s TT %sarr,%s,int:u8 %s" % (pre, ",".join(["int:s8"] * n), M.hx(pad + a_)))
            cases.append("q s SS %sstr,int:u8 %s" % (pre, M.hx(pad + s_[:-3])))
    return cases


def nonseekable_cases(rng, tier, ks):
    """the four failure sites of T_C10mp_nonseekable_*: ext header straddling a chunk boundary (ts / type), SkipValue of a value that
    ends beyond the window, the reader's own SetPosition back across a boundary; every alignment around the boundary; and the
    same shapes inside one chunk (in the class)"""
    cases = []
    for k in ks:
        for off in range(max(0, k - 8), k + 3):
            pad = b"\xc0" * off
            pre = ",".join(["nil"] * off) + ("," if off else "")
            for ext in (b"\xd6\xff\x00\x00\x00\x05", b"\xd7\xff" + bytes(range(1, 9)), b"\xc7\x0c\xff" + bytes(range(1, 13)),
                        b"\xc8\x00\x04\xff\x00\x00\x00\x07", b"\xc9\x00\x00\x00\x04\xff\x00\x00\x00\x07", b"\xd4\x07\x01"):
                doc = pad + ext + b"\x01\x02\x03"
                for ops in ("ts,int:u8", "type,ts,int:u8", "type,skip,int:u8", "int:s32,int:u8", "skip,int:u8"):
                    cases.append("p n%d %s %s%s %s" % (k, rng.choice(["TT", "SS"]), pre, ops, M.hx(doc)))
            for n in (1, 5, k - 1, k, k + 1, 2 * k + 3):
                if n < 1:
                    continue
                doc = pad + M.enc_str(bytes((i * 5) % 251 for i in range(n))) + b"\x2a"
                cases.append("p n%d TT %sskip,int:u8 %s" % (k, pre, M.hx(doc)))
                cases.append("p n%d TT %sstr,int:u8 %s" % (k, pre, M.hx(doc)))
                cases.append("p n%d SS %sint:u8,int:u8 %s" % (k, pre, M.hx(doc)))
            doc = pad + b"\x01\x02\x03\x04"
            for back in sorted(set([0, 1, max(0, off - 1), off, max(0, k - 1), k])):
                if back <= len(doc):
                    cases.append("p n%d TT %sint:u8,int:u8,seek:%d,int:u8,end %s" % (k, pre, back, M.hx(doc)))
        # one-chunk documents: everything is local
        for _ in range(40 if tier == "quick" else 400):
            vs = [M.rand_value(rng) for _ in range(rng.randrange(1, 4))]
            doc = b"".join(M.enc_value(v, rng) for v in vs)
            if len(doc) < k:
                ops = [rng.choice(SEQ_OPS) for _ in vs] + ["seek:0"] + [rng.choice(SEQ_OPS) for _ in vs]
                cases.append("p n%d %s %s %s" % (k, rng.choice(M.POLS), ",".join(ops), M.hx(doc)))
    return cases


def forward_cases(rng, tier, ks):
    """T_C10mp_nonseekable_forward_client: clients that only read integers / nil / binary bytes, skip and ask IsEnd, on a stream
    without seek support: values of every kind (also ext, nested containers) skipped across chunk boundaries"""
    cases = []
    fops = ["int:s64", "int:u8", "int:u1", "int:s32", "nil", "skip", "skip", "skip", "byte", "end"]
    for k in ks:
        for _ in range(60 if tier == "quick" else 600):
            off = rng.choice([0, 1, 2, 3, 5, 7] + [max(0, k - d) for d in (1, 2, 3, 5, 9)])
            vs = [M.rand_value(rng) for _ in range(rng.randrange(1, 6))]
            doc = b"\xc0" * off + b"".join(M.enc_value(v, rng) for v in vs)
            if len(doc) > 3000:
                continue
            ops = ["nil"] * off + [rng.choice(fops) for _ in range(len(vs) + 1)]
            cases.append("p n%d %s %s %s" % (k, rng.choice(M.POLS), ",".join(ops), M.hx(doc)))
            if rng.random() < 0.3 and len(doc) > 2:
                cases.append("p n%d %s %s %s" % (k, rng.choice(M.POLS), ",".join(ops), M.hx(doc[:rng.randrange(1, len(doc))])))
    return cases


def small_chunk_cases(k):
    """every GetValue width at every alignment of a small chunk (K < 8: a solid block wider than the chunk is refused)"""
    cases = []
    vals = [("int:u64", b"\xcf\x00\x00\x00\x00\x00\x00\x00\x01"), ("int:s64", b"\xd3\xff\xff\xff\xff\xff\xff\xff\xfe"), ("f64", b"\xcb\x3f\xf0\x00\x00\x00\x00\x00\x00"),
            ("int:u32", b"\xce\x00\x01\x00\x01"), ("f32", b"\xca\x3f\x80\x00\x00"), ("int:u16", b"\xcd\x01\x00"), ("str", b"\xda\x00\x03abc"),
            ("ts", b"\xd7\xff" + bytes(range(1, 9))), ("ts", b"\xc7\x0c\xff" + bytes(range(1, 13))), ("arr", b"\xdd\x00\x00\x00\x01\x05"), ("skip", b"\xcf" + bytes(8))]
    for off in range(0, min(k, 10) + 2):
        for op, v in vals:
            doc = b"\xc0" * off + v + b"\x2a"
            cases.append("p s%d TT %s%s,int:u8 %s" % (k, "nil," * off, op, M.hx(doc)))
    return cases


def to_p(line):
    """every case as a `p` line of harness/drv_msgpack.cpp: a sequence whose ERR answer carries the reader position after the throw"""
    t = line.split(" ")
    if t[0] == "r":
        op = t[3] + (":" + t[4] if len(t) > 5 else "")
        return "p %s %s %s %s" % (t[1], t[2], op, t[-1])
    if t[0] == "q":
        return "p " + " ".join(t[1:])
    return line


def to_mem(line):
    return line.replace(" s ", " m ", 1)


def strip_pos(ans):
    """drop the position behind ERR <cat>"""
    parts = ans.split(";")
    f = parts[-1].split(" ")
    if f[0] == "ERR" and len(f) == 3:
        parts[-1] = " ".join(f[:2])
    return ";".join(parts)


def throws_only(stream_ans, mem_ans):
    """same_or_throws of coq/MpStreamProofs.v on driver answers: the stream answers are a prefix of the memory answers
    followed by one exception of class P (ParsingError) or IO (InputOutputError)"""
    a, r = stream_ans.split(";"), mem_ans.split(";")
    return a[-1] in ("ERR P", "ERR IO") and len(a) - 1 <= len(r) and a[:-1] == r[:len(a) - 1]


def data_len(line):
    h = line.split(" ")[-1]
    return 0 if h == "-" else len(h) // 2


def run_mpstream(ctx, vlib):
    rng, tier = ctx["rng"], ctx["tier"]
    srcs = ["drv_msgpack.cpp"] + vlib.repo_sources("src/msgpack/*.cpp", "src/common/*.cpp")
    impls = {256: vlib.build_cpp("drv_msgpack", srcs)}
    hook = "BITSERIALIZER_VERIF_CHUNK_SIZE" in open(vlib.REPO + "/src/common/binary_stream_reader.h").read()
    if hook:
        impls[8] = vlib.build_cpp("drv_msgpack_k8", srcs, extra=["-DBITSERIALIZER_VERIF_CHUNK_SIZE=8"])
    model = vlib.build_model("mpstream")

    base = mp_props.reader_cases(rng, tier, kinds=("s",)) + mp_props.boundary_cases(rng, tier, kinds=("s",))
    if tier == "quick":
        base = base[::4]
    small = chunk8_cases(rng, tier)
    corpus = []
    try:
        import utf_common as U
        corpus = [c for c in U.load_corpus("C10mp") if c.split(" ")[0] in ("r", "q", "p")]
    except Exception:
        corpus = []
    stream = [to_p(c) for c in corpus + small + base]
    om = vlib.run_driver(model, stream)
    a_mem = vlib.run_driver(impls[256], [to_mem(c) for c in stream])

    failing, diffs = [], []
    classes = {}
    evals = len(stream) * 2
    seen = set()
    nontriv = 0
    throw_pos_differs, throw_pos_samples = 0, []
    for k, impl in sorted(impls.items()):
        a_str = vlib.run_driver(impl, stream)
        evals += len(stream)
        for i, line in enumerate(stream):
            t = line.split(" ")
            key = "mpstream K=%d %s" % (k, "sequence" if "," in t[3] else "single %s" % t[3].split(":")[0])
            classes[key] = classes.get(key, 0) + 1
            if (line, k) not in seen:
                seen.add((line, k))
                if data_len(line) > k or any(x in t[3] for x in ("skip", "ts", "type")):
                    nontriv += 1
            a, m, ref = a_str[i], om[i], a_mem[i]
            if a == m and a == ref:
                continue
            if strip_pos(a) != strip_pos(ref):
                # the property itself: value / not-loaded / error class / position of every answer
                rec = dict(driver="mpstream", case=line, chunk=k, implementation=a, memory_reader=ref, model=m, judge="FAIL",
                           why="CMsgPackStreamReader (chunk %d) answers %s, CMsgPackStringReader answers %s on the same document"
                               % (k, a[:120], ref[:120]))
                if len(failing) < 20:
                    failing.append(rec)
            elif a != m:
                rec = dict(driver="mpstream", case=line, chunk=k, implementation=a, memory_reader=ref, model=m,
                           judge="MODEL-SPLIT" if m.startswith("MODEL-SPLIT") else "DIFF",
                           why=("the stream-reader model disagrees with the real stream reader (value / class / position of an answer, or the "
                                "reader position after the throw); the real string reader gives the same answers up to that position")
                               if not m.startswith("MODEL-SPLIT") else
                               "the stream-reader model gives different answers on the in-memory reader and the chunked reader models: contradicts T_C10mp_stream_equals_memory")
                if len(diffs) < 20:
                    diffs.append(rec)
            else:
                # same answers, model and stream reader agree also on the position after the throw; the string reader
                # stands elsewhere after its throw: the class of T_C10mp_skip_throw_related (report, finding 1)
                throw_pos_differs += 1
                if len(throw_pos_samples) < 3:
                    throw_pos_samples.append(dict(case=line, chunk=k, stream_reader=a, memory_reader=ref))
    classes["mpstream: reader position after the throw differs between the stream and the string reader (same error class)"] = throw_pos_differs


    # ---- streams without seek support (kind n<K>) and further chunk sizes through the hook (kinds s<K> / n<K>): the model run with
    # that K over the seekable / non-seekable stream model predicts the real reader exactly; on a seekable stream with K >= 8 the
    # answers must be the string reader's (T_C10mp_stream_equals_memory); on a non-seekable stream they are the string reader's
    # exactly when the model says every SetPosition of the run stays in the cached window (T_C10mp_nonseekable_exact_class), and
    # otherwise differ by a final exception only (T_C10mp_nonseekable_no_silent_difference); K < 8 replays
    # T_C10mp_small_chunk_witness on the real reader (a solid block wider than the chunk is refused: ParsingError)
    ns_differs, ns_samples, ns_nonlocal_same, small_k_differs = 0, [], 0, 0
    client_classes = {}
    pool = [c for c in stream if not ("dbffffffff" in c)]
    quick = tier == "quick"
    all_impls = dict(impls)
    extra_ks = [4, 9, 16, 255, 257] if hook else []
    for k in extra_ks:
        all_impls[k] = vlib.build_cpp("drv_msgpack_k%d" % k, srcs, extra=["-DBITSERIALIZER_VERIF_CHUNK_SIZE=%d" % k])
    ns_extra = nonseekable_cases(rng, tier, sorted(all_impls)) + forward_cases(rng, tier, sorted(all_impls))

    def judge_kind(k, seekable, mine):
        nonlocal evals, nontriv, ns_differs, ns_nonlocal_same, small_k_differs
        impl = all_impls[k]
        a_k = vlib.run_driver(impl, mine)
        m_k = vlib.run_driver(model, mine)
        cls = vlib.run_driver(model, ["k" + c[1:] for c in mine]) if not seekable else ["LOCAL"] * len(mine)
        ccl = vlib.run_driver(model, ["k class " + " ".join(c.split(" ")[2:]) for c in mine]) if not seekable else ["OTHER"] * len(mine)
        ref = vlib.run_driver(impls[256], ["q m " + " ".join(c.split(" ")[2:]) for c in mine])
        evals += 3 * len(mine)
        key = "mpstream %s K=%d" % ("seekable" if seekable else "non-seekable", k)
        classes[key] = classes.get(key, 0) + len(mine)
        for c, a, m, cl, r, cc in zip(mine, a_k, m_k, cls, ref, ccl):
            if data_len(c) > k:
                nontriv += 1
            same = strip_pos(a) == r
            forward = cc in ("FORWARD", "LOOKAHEAD-FREE")      # the client classes of the theorems, decided by the extracted predicates
            if not seekable:
                client_classes[cc] = client_classes.get(cc, 0) + 1
            if not same and not throws_only(strip_pos(a), r):
                # a difference may only be an exception (ParsingError / InputOutputError) that ends the run, after answers identical
                # to the string reader's
                if len(failing) < 20:
                    failing.append(dict(driver="mpstream", case=c, chunk=k, implementation=a, memory_reader=r, model=m, judge="FAIL",
                                        why="SILENT DIFFERENCE (%s stream, chunk %d): the stream reader answers %s, the string reader %s; "
                                            "a refused seek / block must end in an exception (T_C10mp_nonseekable_no_silent_difference)"
                                            % ("seekable" if seekable else "non-seekable", k, a[:160], r[:160])))
            elif not same and k >= 8 and (seekable or cl == "LOCAL" or forward):
                if len(failing) < 20:
                    failing.append(dict(driver="mpstream", case=c, chunk=k, implementation=a, memory_reader=r, model=m, judge="FAIL",
                                        why=("seekable stream, chunk %d >= 8: the stream reader answers differently from the string reader (T_C10mp_stream_equals_memory)" % k) if seekable else
                                            "non-seekable stream, every SetPosition of the run stays in the cached window (nonseek_ok) or the client only reads and skips forward, yet the stream reader answers differently from the string reader: contradicts T_C10mp_nonseekable_exact_class / T_C10mp_nonseekable_forward_client / T_C10mp_nonseekable_lookahead_client"))
            elif a != m:
                if len(diffs) < 20:
                    diffs.append(dict(driver="mpstream", case=c, chunk=k, implementation=a, memory_reader=r, model=m, judge="DIFF",
                                      why="the stream-reader model over the %s stream model with chunk size %d disagrees with the real stream reader built with that chunk size"
                                          % ("seekable" if seekable else "non-seekable", k)))
            elif not same and k < 8:
                small_k_differs += 1
            elif not same:
                ns_differs += 1
                if len(ns_samples) < 4:
                    ns_samples.append(dict(case=c, chunk=k, stream_reader=a, memory_reader=r))
            elif cl != "LOCAL" or (forward and cl != "LOCAL"):
                ns_nonlocal_same += 1
                if k >= 8 and len(diffs) < 20:
                    diffs.append(dict(driver="mpstream", case=c, chunk=k, implementation=a, memory_reader=r, model=m, judge="DIFF",
                                      why="the model classes the run NONLOCAL but the answers are the string reader's: contradicts T_C10mp_nonseekable_exact_class"))

    for k in sorted(all_impls):
        step = 1 if k == 8 else (2 if k == 256 else (10 if quick else 3))
        ns = [c.replace(" s ", " n%d " % k, 1) for c in pool[::step]] + [c for c in ns_extra if c.split(" ")[1] == "n%d" % k]
        judge_kind(k, False, ns)
        if k in extra_ks:
            judge_kind(k, True, [c.replace(" s ", " s%d " % k, 1) for c in pool[::step]] + small_chunk_cases(k))
    classes["mpstream non-seekable: the run ends in InputOutputError where memory loading goes on (a backward SetPosition left the cached window: F16b at the MsgPack level; answers before it identical)"] = ns_differs
    classes["mpstream non-seekable: a SetPosition left the window but the answers are the same"] = ns_nonlocal_same
    for cc, n in client_classes.items():
        classes["mpstream non-seekable client class %s" % cc] = n
    classes["mpstream chunk size 4 (< 8): the run ends in ParsingError where memory loading goes on (GetValue wider than the chunk: T_C10mp_small_chunk_witness replayed)"] = small_k_differs

    known_lines = []
    kn = [x for x in vlib.load_known("C10") if x.get("status") == "known" and x.get("driver") == "mpstream"]
    if kn:
        for x in kn:
            k = int(x.get("chunk", 256))
            o = vlib.run_driver(impls.get(k, impls[256]), [x["case"]], jobs=1)[0]
            if o == x["implementation"]:
                known_lines.append("%s: %s [case: %s -> %s]" % (x["id"], x["what"], x["case"], o))
            else:
                diffs.append(dict(driver="mpstream", case=x["case"], implementation=o, model=x["implementation"], judge="KNOWN-FINDING-CHANGED",
                                  why="listed known finding %s no longer reproduces as recorded" % x["id"]))
        kc = set(x["case"] for x in kn)
        failing = [f for f in failing if f["case"] not in kc]
    samples = [dict(case=stream[i][:300], implementation=a_mem[i][:300], model=om[i][:300]) for i in (0, len(stream) // 2, len(stream) - 1)]
    return dict(evaluations=evals, distinct_nontrivial=nontriv, failing=failing, diffs=diffs, classes=classes, known_lines=known_lines,
                samples=samples, hook=hook, chunk_sizes=sorted(impls), throw_position_differs=throw_pos_differs, throw_position_samples=throw_pos_samples,
                nonseekable_differs=ns_differs, nonseekable_samples=ns_samples, nonseekable_nonlocal_same=ns_nonlocal_same, small_chunk_differs=small_k_differs, all_chunk_sizes=sorted(all_impls),
                rule="extracted CMsgPackStreamReader model (run on the in-memory reader and on the chunked reader model, K = 8 and 256) vs the real stream reader built with chunk_size 256 and 8 (answers AND the reader position after a throw) vs the real string reader (answers), same case lines: one value of every format family and width behind a leading fixstr of every length 0..9 (0..17 thorough) so that every header / length field / ext type byte / payload lies on every alignment of an 8-byte chunk, read by the matching op, skip, type and a random op under both policies; every truncation of those; random documents x random op sequences with truncations and corruptions; strings / binaries / arrays of 7..100 units read through ReadByChunks and element-wise; plus the generators of C07/C10 (every first byte x tails x every op, documents shifted across the 256-byte boundary); the same cases and the four seek sites / forward-only clients (integers, nil, binary bytes, skips of every kind of value across chunk ends, IsEnd) on a streambuf WITHOUT seek support and on seekable streams with chunk_size 4, 9, 16, 255, 257 through the hook (model run with that K; K = 4 replays T_C10mp_small_chunk_witness on the real reader); client classes FORWARD / LOOKAHEAD-FREE and LOCAL / NONLOCAL decided by the extracted predicates of the theorems; non-trivial = distinct (case, K) whose document is longer than one chunk or that seeks (skip / ts / type)",
                broken="correspondence MsgPack stream-reader model (coq/MpStreamModel.v) vs CMsgPackStreamReader (drv_msgpack kind s)")


def replay_mpstream(rp, vlib):
    srcs = ["drv_msgpack.cpp"] + vlib.repo_sources("src/msgpack/*.cpp", "src/common/*.cpp")
    k = int(rp.get("chunk", 256))
    if k == 8:
        impl = vlib.build_cpp("drv_msgpack_k8", srcs, extra=["-DBITSERIALIZER_VERIF_CHUNK_SIZE=8"])
    else:
        impl = vlib.build_cpp("drv_msgpack", srcs)
    impl_mem = vlib.build_cpp("drv_msgpack", srcs)
    model = vlib.build_model("mpstream")
    line = to_p(rp["case"])
    return dict(case=line, chunk=k, implementation=vlib.run_driver(impl, [line], jobs=1)[0],
                memory_reader=vlib.run_driver(impl_mem, [to_mem(line)], jobs=1)[0],
                model=vlib.run_driver(model, [line], jobs=1)[0])
