"""C11 — transcoding valid Unicode between UTF-8/16/32 (LE/BE) is exact and reversible."""
import utf_common as U

LEVEL = "proof"
TRUSTED_BASE = [
    "Coq 8.16.1 kernel incl. vm_compute (used for the 256-value byte-classification sweep and the Examples); no native_compute",
    "axioms: none (every T_C11_* theorem prints 'Closed under the global context')",
    "hand-written Gallina model coq/UtfModel.v of convert_utf.h (Utf8/Utf16/Utf32 Encode/Decode, LE/BE wrappers, Transcode), tied to /repo by this correspondence run",
    "extraction: ExtrOcamlBasic only (bool, option, unit, list, prod, sumbool, sumor; andb/orb inlined); N/positive/nat stay extracted inductives",
    "trusted glue: ml/glue.ml, ml/utf_driver.ml, harness/drv_utf.cpp, harness/common.h, props/utf_common.py (case syntax, hashing, reference encoder used to build sweep inputs)",
]
ASSUMPTIONS = [
    "code units handed to the library are values of the C++ character type (units src inp in the theorems)",
    "host is little-endian (LE classes native, BE classes byte-swap), as on this sandbox",
]

CROSS = [(8, 16), (8, 32), (16, 8), (16, 32), (32, 8), (32, 16)]
DEC_OPS = [("8", 16), ("8", 32)] + [(c, d) for c in ("16", "16le", "16be", "32", "32le", "32be") for d in (8, 16, 32)]
ENC_OPS = [("8", 16), ("8", 32)] + [(c, s) for c in ("16", "16le", "16be", "32", "32le", "32be") for s in (8, 16, 32)]

INTERESTING = [0x0, 0x41, 0x7F, 0x80, 0x7FF, 0x800, 0xD7FF, 0xE000, 0xFEFF, 0xFFFD, 0xFFFE, 0xFFFF, 0x10000, 0x1F600, 0x10FFFF, 0xFFFE0000 & 0x10FFFF]


def rand_text(rng, maxlen):
    n = rng.choice([0, 1, 2, 3, 5, 8, 17, 64, 255, 256, 257, rng.randrange(0, maxlen + 1)])
    n = min(n, maxlen)
    cps = []
    for _ in range(n):
        k = rng.random()
        if k < 0.25:
            c = rng.choice(INTERESTING)
        elif k < 0.45:
            c = rng.randrange(0, 0x80)
        elif k < 0.6:
            c = rng.randrange(0x80, 0x800)
        elif k < 0.8:
            c = rng.randrange(0x800, 0x10000)
        else:
            c = rng.randrange(0x10000, 0x110000)
        if 0xD800 <= c < 0xE000:
            c = 0xD7FF
        cps.append(c)
    return cps


def gen_cases(rng, tier):
    n = 4000 if tier == "quick" else 40000
    maxlen = 300 if tier == "quick" else 4096
    cases = []
    for _ in range(n):
        cps = rand_text(rng, maxlen if rng.random() < 0.05 else 40)
        kind = rng.choice(["tr", "dec", "enc"])
        pol = rng.choice("ST")
        if kind == "tr":
            sw = rng.choice(U.WIDTHS); dw = rng.choice(U.WIDTHS)
            x, y = str(sw), str(dw)
            inp = U.encs(sw, cps)
        elif kind == "dec":
            x, dw = rng.choice(DEC_OPS); y = str(dw)
            sw = int(x.rstrip("leb"))
            inp = U.encs(sw, cps)
            if x.endswith("be"):
                inp = [U.swap(sw, u) for u in inp]
        else:
            x, sw = rng.choice(ENC_OPS); y = str(sw)
            dw = int(x.rstrip("leb"))
            inp = U.encs(sw, cps)
        mk = rng.choice(["d", "d", "n", U.fl(U.encs(dw, [0x3F])), U.fl(U.encs(dw, [0x1F600, 0x21]))])
        out0 = U.encs(dw, rand_text(rng, 6)) if rng.random() < 0.7 else []
        cases.append("%s %s %s %s %s %s %s" % (kind, x, y, pol, mk, U.fl(out0), U.fl(inp)))
    return cases


def sweeps(tier):
    sw = []
    pols = "ST"
    for (a, b) in CROSS:
        for pol in pols:
            sw.append((["sweepcp", "tr", str(a), str(b), pol], 0, 0x110000))
    for pol in ("S",) if tier == "quick" else pols:
        for (c, d) in DEC_OPS:
            if c in ("16be", "32be", "16le", "32le") or tier != "quick":
                sw.append((["sweepcp", "dec", c, str(d), pol], 0, 0x110000))
        for (c, s) in ENC_OPS:
            if c in ("16be", "32be", "16le", "32le") or tier != "quick":
                sw.append((["sweepcp", "enc", c, str(s), pol], 0, 0x110000))
    for a in U.WIDTHS:   # same-width copy paths of Transcode
        sw.append((["sweepcp", "tr", str(a), str(a), "S"], 0, 0x110000))
    return sw


def run(ctx, vlib):
    impl, model = U.drivers(vlib)
    rng = ctx["rng"]
    corpus = U.load_corpus("C11")
    cases = corpus + gen_cases(rng, ctx["tier"])
    oi = vlib.run_driver(impl, cases)
    om = vlib.run_driver(model, cases)
    sws = sweeps(ctx["tier"])
    evals, explicit = U.run_sweeps(vlib, impl, model, sws)
    if explicit:
        oi2 = vlib.run_driver(impl, explicit, jobs=1)
        om2 = vlib.run_driver(model, explicit, jobs=1)
        cases += explicit; oi += oi2; om += om2
    return U.assess("C11", vlib, cases, oi, om, evals, sws, valid_only=True,
                    rule="every Unicode scalar value individually (exhaustive, hashed in both drivers, bisected on mismatch) for the listed ops, plus random valid texts with prior output/marks; non-trivial = distinct case whose input contains a multi-unit sequence in source or target form",
                    exhaustive=True)


def replay(rp, vlib):
    return U.replay(rp, vlib)
