"""C12 — ill-formed UTF input is reported or replaced per policy, never propagated."""
import utf_common as U
import C11

LEVEL = "proof"
TRUSTED_BASE = C11.TRUSTED_BASE
ASSUMPTIONS = C11.ASSUMPTIONS + [
    "an ill-formed sequence is segmented by the library's convention (lead byte's declared window); the spec skip_spec admits any segmentation into chunks of at most maxlen units standing where no well-formed sequence starts",
]

CROSS = C11.CROSS


def bad_units(rng, sw):
    k = rng.random()
    if sw == 8:
        if k < 0.2:
            return [rng.choice([0x80, 0xBF, 0xFE, 0xFF, 0xC0, 0xC1, 0xF5, 0xF8, 0xFC])]
        if k < 0.4:   # overlong
            return rng.choice([[0xC0, 0x80], [0xC1, 0xBF], [0xE0, 0x80, 0x80], [0xE0, 0x9F, 0xBF], [0xF0, 0x80, 0x80, 0x80], [0xF0, 0x8F, 0xBF, 0xBF]])
        if k < 0.55:  # surrogates / > 10FFFF
            return rng.choice([[0xED, 0xA0, 0x80], [0xED, 0xBF, 0xBF], [0xF4, 0x90, 0x80, 0x80], [0xF7, 0xBF, 0xBF, 0xBF], [0xF8, 0x88, 0x80, 0x80, 0x80], [0xFC, 0x84, 0x80, 0x80, 0x80, 0x80]])
        if k < 0.8:   # lead with wrong tail
            lead = rng.choice([0xC2, 0xDF, 0xE0, 0xE1, 0xEF, 0xF0, 0xF1, 0xF4])
            n = 1 if lead < 0xE0 else 2 if lead < 0xF0 else 3
            t = [rng.choice([0x80, 0xBF, 0x41, 0xC2, 0x00, 0xFF]) for _ in range(n)]
            return [lead] + t
        return [rng.randrange(0x80, 0x100) for _ in range(rng.randrange(1, 4))]
    if sw == 16:
        if k < 0.3:
            return [rng.choice([0xDC00, 0xDFFF, 0xDC01])]
        if k < 0.6:
            return [rng.choice([0xD800, 0xDBFF, 0xD801]), rng.choice([0x41, 0xD800, 0xDBFF, 0xE000, 0xFFFF, 0x0])]
        return [rng.choice([0xD800, 0xDBFF, 0xDC00, 0xDFFF]) for _ in range(rng.randrange(1, 4))]
    return [rng.choice([0xD800, 0xDBFF, 0xDC00, 0xDFFF, 0x110000, 0x1FFFFF, 0x200000, 0x7FFFFFFF, 0x80000000, 0xFFFFFFFF, rng.randrange(0x110000, 1 << 32)])]


def gen_cases(rng, tier):
    n = 6000 if tier == "quick" else 60000
    cases = []
    for _ in range(n):
        sw, dw = rng.choice(CROSS)
        kind = rng.choice(["tr", "tr", "dec", "enc"])
        units = []
        for _ in range(rng.choice([1, 1, 2, 3, 5])):
            units += U.encs(sw, C11.rand_text(rng, 4))
            units += bad_units(rng, sw)
        units += U.encs(sw, C11.rand_text(rng, 3))
        if rng.random() < 0.3:   # truncated tail
            tail = U.enc(sw, rng.choice([0x20AC, 0x1F600, 0x7FF, 0x10FFFF]))
            units += tail[:rng.randrange(0, len(tail))] if len(tail) > 1 else []
        pol = rng.choice("SST")
        mk = rng.choice(["d", "d", "n", U.fl(U.encs(dw, [0x3F])), U.fl(U.encs(dw, [0x1F600, 0x21]))])
        out0 = U.encs(dw, C11.rand_text(rng, 4)) if rng.random() < 0.5 else []
        if kind == "tr":
            x, y = str(sw), str(dw)
        elif kind == "dec":
            x = rng.choice([c for c in U.CLASSES if int(c.rstrip("leb")) == sw]); y = str(dw)
            if x.endswith("be"):
                units = [U.swap(sw, u) for u in units]
        else:
            x = rng.choice([c for c in U.CLASSES if int(c.rstrip("leb")) == dw]); y = str(sw)
        cases.append("%s %s %s %s %s %s %s" % (kind, x, y, pol, mk, U.fl(out0), U.fl(units)))
    return cases


def sweeps(tier):
    sw = []
    for (a, b) in CROSS:
        for pol in "ST":
            if a == 8:
                sw.append((["sweepu", "tr", "8", str(b), pol, "1"], 0, 256))
                sw.append((["sweepu", "tr", "8", str(b), pol, "2"], 0, 256 ** 2))
                if tier != "quick":
                    sw.append((["sweepu", "tr", "8", str(b), pol, "3"], 0, 256 ** 3))
                else:
                    # 3-byte strings with a lead in E0..F4 and the boundary second bytes
                    sw.append((["sweepu", "tr", "8", str(b), pol, "3"], 0xE00000, 0xF50000))
            elif a == 16:
                for ln in (1, 2, 3):
                    sw.append((["sweepu", "tr", "16", str(b), pol, str(ln)], 0, len(U.A16) ** ln))
            else:
                for ln in (1, 2):
                    sw.append((["sweepu", "tr", "32", str(b), pol, str(ln)], 0, len(U.A32) ** ln))
    if tier != "quick":
        # all 4-byte strings with lead F0..F7 and second byte in the boundary set are inside this range sweep
        for b in (16, 32):
            sw.append((["sweepu", "tr", "8", str(b), "S", "4"], 0xF0800000, 0xF0C00000))
            sw.append((["sweepu", "tr", "8", str(b), "S", "4"], 0xF4800000, 0xF4C00000))
    return sw


def run(ctx, vlib):
    impl, model = U.drivers(vlib)
    rng = ctx["rng"]
    corpus = U.load_corpus("C12")
    cases = corpus + gen_cases(rng, ctx["tier"])
    oi = vlib.run_driver(impl, cases)
    om = vlib.run_driver(model, cases)
    sws = sweeps(ctx["tier"])
    evals, explicit = U.run_sweeps(vlib, impl, model, sws)
    if explicit:
        oi2 = vlib.run_driver(impl, explicit, jobs=1)
        om2 = vlib.run_driver(model, explicit, jobs=1)
        cases += explicit; oi += oi2; om += om2
    return U.assess("C12", vlib, cases, oi, om, evals, sws, valid_only=False,
                    rule="all UTF-8 byte strings of length 1-2 (and 3 in thorough; lead E0..F4 x all tails in quick), all 1-3 unit strings over a 19-unit UTF-16 boundary alphabet, all 1-2 unit strings over a 21-unit UTF-32 alphabet, each x 2 targets x both policies (hashed sweeps, bisected on mismatch); plus random ill-formed sequences embedded in valid text with truncated tails, prior output and custom/empty marks; non-trivial = distinct case whose input is ill-formed",
                    exhaustive=True)


def replay(rp, vlib):
    return U.replay(rp, vlib)
