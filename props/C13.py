"""C13 — encoded text streams: encoding detection, BOM and chunked decoding are lossless
(DetectEncoding, CEncodedStreamReader, CEncodedStreamWriter)."""
import itertools
import stream_common as S
import utf_common as U
import C10

LEVEL = "proof"
TRUSTED_BASE = [
    "Coq 8.16.1 kernel incl. vm_compute (only for the Examples / refuting witnesses); no native_compute",
    "axioms: none (every T_C13_* theorem prints 'Closed under the global context')",
    "hand-written Gallina models coq/StreamModel.v (M-DET DetectEncoding both overloads, M-ESR CEncodedStreamReader<T,K> with K a parameter, M-ESW CEncodedStreamWriter) on top of coq/UtfModel.v (the C11/C12 model of the Utf* classes), tied to /repo by this correspondence run for K in {32,64,256} x three target widths",
    "MODELLED standard-library component coq/StreamIStream.v (std::istream read/gcount/peek/seekg/tellg/clear/eof/fail as implemented by libstdc++): not verified, validated by the `is` correspondence op (here and in C10) against std::istringstream, a short-read seekable streambuf and a non-seekable streambuf",
    "specification coq/StreamSpec.v + coq/UtfSpec.v (encoding schemes, BOMs, well-formedness) written from the Unicode standard",
    "extraction: ExtrOcamlBasic only; N/Z/positive/nat stay extracted inductives",
    "trusted glue: ml/glue.ml, ml/glue_stream.ml, ml/stream_driver.ml, harness/drv_stream.cpp, harness/common.h, props/stream_common.py, props/utf_common.py (independent reference encoder/decoder used by the judge and to build inputs)",
]
ASSUMPTIONS = [
    "host is little-endian (reinterpret_cast of the byte window yields little-endian code units), as on this sandbox",
    "the stream handed to the reader is fresh (good, at position 0) and is only read by the reader",
    "chunk size is a multiple of 4 and >= 32 (the class static_asserts it)",
    "the truncated-stream and ill-formed-text theorems take the detection as a hypothesis (BOM present, or BOM-less text starting with an ASCII character outside the listed defect classes; T_C13_illformed_*: detect (first K bytes) = (scheme, BOM length), which T_C13_illformed_detect_bom discharges for every stream that begins with a BOM)",
    "same source and target width: the text is copied, not validated (by design: T_C13_samewidth_copy says exactly what is copied); T_C13_illformed_* are stated for source width <> target width, T_C13_truncated_outside for every pair except UTF-8 into char (raw append, known finding F39)",
]

ALPHABET = [0x41, 0x7A, 0x31, 0x0, 0xE9, 0x7FF, 0x800, 0x20AC, 0xFFFD, 0x10000, 0x1F600, 0x10FFFF]
SPECIAL = [0x62, 0xE9, 0x20AC, 0x1F600]      # 1,2,3,4 bytes in UTF-8; 1,1,1,2 units in UTF-16


def gen_detect(rng, tier):
    """all texts of 1..3 characters over the 12-character alphabet x 5 schemes x BOM"""
    cases, meta = [], {}
    for n in (1, 2, 3):
        for text in itertools.product(ALPHABET, repeat=n):
            for e in S.ENC:
                for b in (False, True):
                    line = "detect %s" % S.hx(S.with_bom(b, e, list(text)))
                    if line not in meta:
                        meta[line] = (e, b, list(text)); cases.append(line)
    # the stream overload on the shorter texts
    for n in (0, 1, 2):
        for text in itertools.product(ALPHABET, repeat=n):
            e = rng.choice(list(S.ENC)); b = rng.random() < 0.5
            data = S.with_bom(b, e, list(text)) + ([0x61] * rng.choice([0, 0, 130]) if S.ENC[e][0] == 8 else [])
            cases.append("detect.stream %d %s %s" % (rng.randrange(2), rng.choice(S.KINDS), S.hx(data)))
    # the stream overload on a stream the caller has already read from (a preamble of 1..200 bytes before the text)
    for text in itertools.product(SPECIAL + [0x41], repeat=2):
        for e in S.ENC:
            for b in (False, True):
                pre = rng.choice([1, 2, 3, 4, 7, 32, 127, 128, 129, 200])
                tail = [0x61] * rng.choice([0, 5, 140]) if S.ENC[e][0] == 8 else []
                data = [rng.randrange(1, 256) for _ in range(pre)] + S.with_bom(b, e, [0x41] + list(text)) + tail
                cases.append("detect.at %d %s %d %s" % (rng.randrange(2), rng.choice(S.KINDS), pre, S.hx(data)))
    for _ in range(2000 if tier == "quick" else 20000):
        data = [rng.choice([0, 0, 0x61, 0xFF, 0xFE, 0xEF, 0xBB, 0xBF, rng.randrange(256)]) for _ in range(rng.randrange(0, 12))]
        cases.append(("detect %s" % S.hx(data)) if rng.random() < 0.7 else "detect.stream %d %s %s" % (rng.randrange(2), rng.choice(S.KINDS), S.hx(data)))
    return cases, meta


def judge_detect_at(case, out):
    """DetectEncoding(istream&) called at get position p > 0 of a SEEKABLE stream: the stream is left good at p (skipBom = false)
    or just behind a BOM that starts at p (skipBom = true), and the next bytes are the ones of the data at that position"""
    t = case.split(" ")
    skip, kind, pre = t[1] == "1", t[2], int(t[3])
    data = bytes.fromhex(t[4]) if t[4] != "-" else b""
    if out.startswith(("CRASH", "SANITIZER", "TERMINATE", "HANG")):
        return "FAIL", "did not return: %s" % out
    if kind not in S.SEEKABLE_KINDS:
        return "UNKNOWN", ""
    body = data[pre:]
    bl = 0
    for bom in (b"\xef\xbb\xbf", b"\xff\xfe\x00\x00", b"\x00\x00\xfe\xff", b"\xff\xfe", b"\xfe\xff"):
        if body.startswith(bom):
            bl = len(bom); break
    pos = pre + (bl if skip else 0)
    f = dict(x.split(":") for x in out.split(" ")[1:] if ":" in x)
    want_r = data[pos:pos + 4].hex() or "-"
    if f.get("t") == str(pos) and f.get("r") == want_r and f.get("f") == "0":
        return "HOLD", "stream left at the text"
    return "FAIL", "after DetectEncoding at position %d the stream must stand at %d and deliver %s next; answer: %s" % (pre, pos, want_r, out)


def boundary_text(K, e, bom, d, ch):
    """a text whose character ch starts at byte offsets K+d and 2K+d of the stream, about 3K+5 bytes long"""
    w = S.ENC[e][0]
    ub = w // 8
    bl = len(S.BOM[e]) if bom else 0
    L = len(U.enc(w, ch))
    o1, o2 = K + d - bl, 2 * K + d - bl
    if o1 < 0 or o1 % ub or o2 % ub:
        return None
    n1 = o1 // ub
    n2 = o2 // ub - n1 - L
    if n2 < 0:
        return None
    n3 = max(0, (3 * K + 5 - bl) // ub - (n1 + L + n2 + L))
    return [0x61] * n1 + [ch] + [0x63] * n2 + [ch] + [0x64] * n3


def gen_sweeps(rng, tier):
    sweeps = []
    classes = {}
    for K in S.ESR_K:
        for e in S.ENC:
            for bom in (False, True):
                for d in range(-4, 5):
                    for ch in SPECIAL:
                        text = boundary_text(K, e, bom, d, ch)
                        if text is None:
                            continue
                        data = S.with_bom(bom, e, text)
                        h = S.hx(data)
                        n = len(data)
                        for tgt in (8, 16, 32):
                            for pol in "ST":
                                kind = rng.choice(["s", "s", "c3", "c7", "n2"])
                                if tier != "quick" or K <= 64:
                                    rs = [(0, n + 1)]
                                else:
                                    rs = [(0, 9), (K - 8, K + 9), (2 * K - 8, 2 * K + 9), (n - 8, n + 1)]
                                for lo, hi in rs:
                                    sweeps.append((K, tgt, pol, kind, h, max(0, lo), min(hi, n + 1)))
                                key = "cuts K=%d %s bom=%d ->%d" % (K, e, bom, tgt)
                                classes[key] = classes.get(key, 0) + 1
    return sweeps, classes


RAND_CP = [0x41, 0x7A, 0x0, 0xE9, 0x7FF, 0x800, 0x20AC, 0xFFFD, 0xFEFF, 0x10000, 0x1F600, 0x10FFFF, 0x31]


def gen_esr(rng, tier):
    """explicit reader cases: mixed texts, every stream kind, random cuts, ill-formed sequences inside"""
    cases, meta = [], {}
    for _ in range(3000 if tier == "quick" else 30000):
        e = rng.choice(list(S.ENC)); b = rng.random() < 0.5
        K = rng.choice(S.ESR_K)
        n = rng.choice([0, 1, 2, 3, 5, K // 4 - 1, K // 4, K // 2, K - 1, K, K + 1, rng.randrange(0, K + 40)])
        text = [rng.choice(RAND_CP) if rng.random() < 0.5 else
                rng.choice([rng.randrange(1, 128), rng.randrange(0x80, 0x800), rng.randrange(0x800, 0xD800), rng.randrange(0x10000, 0x110000)])
                for _ in range(n)]
        if rng.random() < 0.7 and text:
            text[0] = rng.randrange(1, 128)
        data = S.with_bom(b, e, text)
        x = rng.random()
        known_scheme = True
        if x < 0.3 and data:
            data = data[:rng.randrange(len(data) + 1)]
        elif x < 0.4:
            w = S.ENC[e][0]
            pos = rng.randrange(len(data) + 1)
            bad = {8: [[0x80], [0xC0, 0x80], [0xFF], [0xED, 0xA0, 0x80], [0xF4, 0x90, 0x80, 0x80], [0xE2, 0x41]],
                   16: [[0x00, 0xDC], [0x00, 0xD8, 0x41, 0x00], [0xFF, 0xDB]],
                   32: [[0x00, 0xD8, 0x00, 0x00], [0x00, 0x00, 0x11, 0x00], [0xFF, 0xFF, 0xFF, 0xFF]]}[w]
            pos -= pos % (w // 8)
            data = data[:pos] + rng.choice(bad) + data[pos:]
        elif x < 0.45:
            data = [rng.randrange(256) for _ in range(rng.randrange(0, 80))]; known_scheme = False
        line = "esr %d %d %s %s %s" % (K, rng.choice([8, 16, 32]), rng.choice("ST"), rng.choice(S.KINDS), S.hx(data))
        cases.append(line)
        if known_scheme:
            meta[line] = (e, b)
    return cases, meta


ILL_UNITS = {8: [[0x80], [0xC0, 0x80], [0xFF], [0xED, 0xA0, 0x80], [0xF4, 0x90, 0x80, 0x80], [0xE2, 0x82], [0xF0, 0x9F, 0x98], [0xE2, 0x82, 0x41]],
             16: [[0xDC00], [0xD800], [0xD800, 0xD800], [0xDBFF, 0x41], [0xDC00, 0xD800]],
             32: [[0xD800], [0x110000], [0xFFFFFFFF]]}


def units_bytes(e, units):
    w, order = S.ENC[e]
    out = []
    for u in units:
        bs = [(u >> (8 * i)) & 0xFF for i in range(w // 8)]
        out += bs if order == "le" else bs[::-1]
    return out


def gen_ill_boundary(rng, tier):
    """ill-formed sequences at every offset around the chunk boundaries K and 2K (also straddling them, also at the very
    end of the stream and followed by a part of a code unit): T_C13_illformed_* say the boundaries play no role"""
    cases, meta = [], {}
    for K in S.ESR_K:
        for e in S.ENC:
            w = S.ENC[e][0]
            ub = w // 8
            for bom in (False, True):
                bl = len(S.BOM[e]) if bom else 0
                for base in (K, 2 * K):
                    for d in range(-8, 3):
                        o1 = base + d - bl
                        if o1 <= 0 or o1 % ub:
                            continue
                        for bad in ILL_UNITS[w]:
                            tail_kind = rng.randrange(4)
                            after = [] if tail_kind == 0 else [0x63] * rng.choice([1, 3, K // ub])
                            data = (S.BOM[e] if bom else []) + S.text_bytes(e, [0x61] * (o1 // ub)) + units_bytes(e, bad) + S.text_bytes(e, after)
                            if tail_kind == 3 and ub > 1:
                                data = data + [0x00] * rng.randrange(1, ub)
                            for pol in "ST":
                                tgt = rng.choice([t for t in (8, 16, 32) if t != w] + ([w] if rng.random() < 0.25 else []))
                                line = "esr %d %d %s %s %s" % (K, tgt, pol, rng.choice(S.KINDS), S.hx(data))
                                if line not in meta:
                                    cases.append(line); meta[line] = (e, bom)
    return cases, meta


def gen_esw(rng, tier):
    cases = []
    for _ in range(2000 if tier == "quick" else 20000):
        e = rng.choice(list(S.ENC)); ps = []
        for _ in range(rng.randrange(0, 4)):
            w = rng.choice([8, 16, 32])
            units = U.encs(w, [rng.choice(RAND_CP) for _ in range(rng.randrange(0, 6))])
            if rng.random() < 0.3:
                bad = {8: [0x80, 0xC0, 0xFF, 0xE2], 16: [0xD800, 0xDBFF, 0xDC00], 32: [0xD800, 0x110000, 0xFFFFFFFF]}[w]
                units.insert(rng.randrange(len(units) + 1), rng.choice(bad))
            ps.append("%d:%s" % (w, U.fl(units)))
        cases.append("esw %s %d %s %s" % (e, rng.randrange(2), rng.choice("ST"), "|".join(ps) if ps else "-"))
    return cases


def judge_esw(case, impl_out):
    """writer: BOM + each well-formed piece in the scheme; a refused piece writes nothing"""
    t = case.split(" ")
    e, bom, pol, pieces = t[1], t[2] == "1", t[3], t[4]
    f = impl_out.split(" ")
    if len(f) != 2:
        return "FAIL", "malformed answer"
    codes, out = f[0], S.unhx(f[1])
    want = list(S.BOM[e]) if bom else []
    ps = [] if pieces == "-" else pieces.split("|")
    if codes != "-" and len(codes) != len(ps) or (codes == "-" and ps):
        return "FAIL", "one result per Write expected"
    for i, p in enumerate(ps):
        w, units = int(p.split(":")[0]), U.pl(p.split(":")[1])
        if not U.is_wf(w, units):
            return "UNKNOWN", "ill-formed piece: see C12 for what is written under Skip"
        if codes[i] != "S":
            return "FAIL", "well-formed piece %d refused" % i
        cps, _ = S.strict_decode_all(w, units)
        want += S.text_bytes(e, cps)
    if out != want:
        return "FAIL", "expected bytes %s" % S.hx(want)
    return "HOLD", "exact"


def run(ctx, vlib):
    rng = ctx["rng"]
    tier = ctx["tier"]
    model = S.model_driver(vlib)
    impl = S.impl_driver(vlib)
    corpus = S.load_corpus("C13")
    dcases, dmeta = gen_detect(rng, tier)
    ecases, emeta = gen_esr(rng, tier)
    bcases, bmeta = gen_ill_boundary(rng, tier)
    ecases += bcases
    emeta.update(bmeta)
    wcases = gen_esw(rng, tier)
    icases = C10.gen_is(rng, 500 if tier == "quick" else 5000)
    cases = corpus + dcases + ecases + wcases + icases
    oi = vlib.run_driver(impl, cases)
    om = vlib.run_driver(model, cases)
    sweeps, classes = gen_sweeps(rng, tier)
    sw_evals, sw_nontriv, explicit = S.run_cut_sweeps(vlib, impl, model, sweeps)
    if explicit:
        cases += explicit
        oi += vlib.run_driver(impl, explicit, jobs=1)
        om += vlib.run_driver(model, explicit, jobs=1)

    known, known_cases = S.known_lines(vlib, "C13", lambda c: impl)
    failing, diffs = [], []
    seen = set()
    nontriv = 0
    verdicts = {}
    for c, a, b in zip(cases, oi, om):
        op = c.split(" ")[0]
        classes[op] = classes.get(op, 0) + 1
        if c not in seen:
            seen.add(c)
            if op in ("esr", "esw", "detect", "detect.stream", "detect.at") and len(c.split(" ")[-1]) > 8:
                nontriv += 1
        # the property predicate itself on the implementation's answer
        if op == "detect" and c in dmeta:
            v, why = S.judge_detect(c, a, dmeta[c])
        elif op == "esr":
            v, why = S.judge_esr(c, a, emeta.get(c))
        elif op == "esw":
            v, why = judge_esw(c, a)
        elif op == "detect.at":
            v, why = judge_detect_at(c, a)
        elif a.startswith(("CRASH", "SANITIZER", "TERMINATE", "HANG")):
            v, why = "FAIL", "did not return: %s" % a
        else:
            v, why = "UNKNOWN", ""
        verdicts[v] = verdicts.get(v, 0) + 1
        if v == "FAIL" and c not in known_cases:
            if len(failing) < 20:
                failing.append(dict(driver="stream", case=c[:2000], implementation=a[:600], model=b[:600], judge=v, why=why))
        elif a != b and len(diffs) < 20:
            diffs.append(dict(driver="stream", case=c[:2000], implementation=a[:600], model=b[:600], judge=v, why=why))
    # shrink what failed (bounded effort), keep the original line too
    for rec in failing[:5]:
        if rec["case"].startswith("esr ") and rec["case"] in emeta and len(rec["case"]) < 1900:
            small = S.shrink_esr(vlib, impl, rec["case"], emeta[rec["case"]])
            if small != rec["case"]:
                rec["original_case"] = rec["case"]
                rec["case"] = small
                rec["implementation"] = vlib.run_driver(impl, [small], jobs=1)[0]
                rec["model"] = vlib.run_driver(model, [small], jobs=1)[0]
                rec["why"] = S.judge_esr(small, rec["implementation"], emeta[rec["original_case"]])[1]
    samples = [dict(case=cases[i][:300], implementation=oi[i][:200], model=om[i][:200]) for i in (0, len(corpus) + 5, len(corpus) + len(dcases) + 5)]
    s0 = sweeps[len(sweeps) // 2]
    samples.append(dict(sweep="esrcuts %d %d %s %s <%d bytes> %d %d" % (s0[0], s0[1], s0[2], s0[3], len(s0[4]) // 2, s0[5], s0[6])))
    return dict(evaluations=len(cases) + sw_evals, distinct_nontrivial=nontriv + sw_nontriv, samples=samples, classes=classes,
                failing=failing, diffs=diffs, known_lines=known,
                rule="detection: all texts of 1..3 characters over a 12-character alphabet (ASCII, NUL, Latin-1, BMP, astral) x 5 schemes x BOM, the stream overload on the shorter ones x skipBom x stream kinds, and on streams the caller has already read 1..200 bytes from (detect.at, judged independently: position and next bytes), random byte strings; reader: texts of about 3K+5 bytes with a character of every UTF-8 length (1..4) / UTF-16 length starting at each stream offset K-4..K+4 and 2K-4..2K+4 x 5 schemes x BOM x 3 target widths x K in {32,64,256} x both policies, run at EVERY cut point of the byte stream (quick: every cut for K=32,64, the cuts within 8 bytes of 0, K, 2K and the end for K=256) as hashed sweeps bisected on mismatch; random mixed texts with cuts / ill-formed insertions / garbage x stream kinds; ill-formed and uncompleted sequences of every kind starting at each stream offset K-8..K+2 and 2K-8..2K+2 (straddling the chunk boundaries, at the end of the stream, followed by a part of a code unit) x 5 schemes x BOM x K x both policies, judged against skip_spec / the well-formed prefix; writer: random pieces of the three widths incl. ill-formed ones; every explicit answer of the implementation is also judged against an independent reading of the property; non-trivial = reader run that is not the single-chunk answer 'SE' / explicit case longer than 4 bytes",
                exhaustive=True, broken="correspondence stream model (M-DET / M-ESR / M-ESW) vs convert_utf.h (drv_stream)",
                extra=dict(sweeps=len(sweeps), sweep_evaluations=sw_evals, verdicts=verdicts))


def replay(rp, vlib):
    model = S.model_driver(vlib)
    impl = S.impl_driver(vlib)
    c = rp["case"]
    a = vlib.run_driver(impl, [c], jobs=1)[0]
    b = vlib.run_driver(model, [c], jobs=1)[0]
    op = c.split(" ")[0]
    res = dict(case=c, implementation=a, model=b)
    if op == "esr":
        res["judge"], res["why"] = S.judge_esr(c, a)
    elif op == "esw":
        res["judge"], res["why"] = judge_esw(c, a)
    return res
