"""C14 — ISO-8601 text of times and durations is calendar-correct and parses back exactly."""
import chrono_common as K

LEVEL = "proof"
TRUSTED_BASE = [
    "Coq 8.16.1 kernel incl. vm_compute (one-era calendar sweep of 146,097 days, refutation witnesses, Examples); no native_compute",
    "axioms: none (every T_C14_* theorem prints 'Closed under the global context')",
    "hand-written Gallina model coq/ChronoModel.v of convert_chrono.h / bin_timestamp.h and of the libstdc++ <chrono> templates they instantiate (duration_cast, floor, round, duration operators with common_type and integral promotion), tied to /repo by this correspondence run",
    "modelled library functions (validated by the correspondence only): std::to_chars / std::from_chars for integers, snprintf(\"%04ld-%02d-..\") incl. its return value on truncation, std::isdigit / std::isspace in the C locale",
    "extraction: ExtrOcamlBasic only; Z/N/positive/nat stay extracted inductives",
    "T_C14_bin_ts_wire composes this model with the MsgPack family's coq/MpModel.v (wr_ts, read_ts: hand-written models of WriteValue / ReadValue(CBinTimestamp), theorems of C06 / C07); tied to /repo end to end by the ts.wire cases (SaveObject / LoadObject<MsgPackArchive> of a time_point / duration through types/std/chrono.h; the driver links src/msgpack/*.cpp)",
    "trusted glue: ml/glue.ml, ml/glue_chrono.ml, ml/chrono_driver.ml, harness/drv_chrono.cpp, harness/common.h, props/chrono_common.py (case syntax, hashing, decimal<->Z, sanitizer-report -> UB class mapping)",
]
ASSUMPTIONS = [
    "LP64 Linux / libstdc++ 12: int = 32 bit, long = long long = intmax_t = time_t = 64 bit, two's complement narrowing casts",
    "time points use system_clock's epoch 1970-01-01T00:00:00Z without leap seconds (as the library documents)",
    "a run of the implementation that UBSan/ASan aborts (signed overflow, negation overflow, stack-buffer-overflow) is the model outcome UB of the same class; without the sanitizers the behaviour of those inputs is whatever the compiler produced",
    "time_point printing with an unsigned representation and duration printing with an unsigned sub-second representation do not compile in the library (std::abs ambiguity) and are outside the catalogue",
]

DAY_LO = K.days_of_civil(-10000, 1, 1)
DAY_HI = K.days_of_civil(20001, 1, 1)

SELECTED_DAYS = [  # leap days, century and 400-year boundaries, epoch, years 0/-1/9999/10000 and more
    (1970, 1, 1), (1969, 12, 31), (2000, 2, 29), (2000, 3, 1), (1900, 2, 28), (1900, 3, 1), (2100, 2, 28), (2100, 3, 1),
    (2024, 2, 29), (2023, 2, 28), (2023, 12, 31), (2024, 1, 1), (1600, 2, 29), (1600, 12, 31), (1601, 1, 1), (2400, 2, 29),
    (0, 1, 1), (0, 2, 29), (0, 12, 31), (-1, 12, 31), (-1, 1, 1), (1, 1, 1), (9999, 12, 31), (10000, 1, 1),
    (-400, 2, 29), (-401, 12, 31), (-4, 2, 29), (-100, 3, 1), (1582, 10, 4), (1582, 10, 15), (2038, 1, 19), (1901, 12, 13),
    (1999, 12, 31), (2000, 1, 1), (2001, 1, 1), (-9999, 1, 1), (19999, 12, 31), (400, 2, 29), (1972, 6, 30), (2016, 12, 31),
]


def tpd(p):
    return 86400 * 10 ** 9 // K.TICK_NS[p]


def safe_tp_range(p, r):
    """counts whose time_point printing does not run into sanitizer-reported UB in the implementation
    (only days + 719468 overflow for the last 719468 values of time_point<days,int64> is left)"""
    lo, hi = K.RMIN[r], K.RMAX[r]
    if p == "d":
        pass  # K35 repaired in /repo 2854d54: the whole range is UB-free
    return lo, hi


def boundary_values(p, r, k):
    lo, hi = K.RMIN[r], K.RMAX[r]
    vals = set()
    for base in (lo, hi, 0, 2 ** 31, -2 ** 31, 2 ** 32, 2 ** 63 - 1, -2 ** 63, 2 ** 63):
        kk = k if base in (lo, hi, 0) else min(k, 8)
        for d in range(-kk, kk + 1):
            vals.add(base + d)
    t = K.TICK_NS[p]
    # instants at calendar boundaries, +/- a few ticks
    for (y, m, d) in [(0, 1, 1), (-1, 12, 31), (10000, 1, 1), (9999, 12, 31), (1, 1, 1), (-999, 1, 1), (-1000, 12, 31), (1000, 1, 1),
                      (2000, 2, 29), (1900, 3, 1), (100000, 1, 1), (-10000, 1, 1)]:
        ns = K.days_of_civil(y, m, d) * 86400 * 10 ** 9
        for dd in (-2, -1, 0, 1, 2):
            vals.add(ns // t + dd)
    # first full day / buffer thresholds
    if p != "d":
        fd = -((-lo) // tpd(p)) * tpd(p)
        for dd in range(-3, 4):
            vals.add(fd + dd)
    for dd in range(-3, 4):
        vals.add(2 ** 63 - 1 - 719468 + dd)
    for yr in (10 ** 15, 10 ** 16, -10 ** 15, -10 ** 16, 10 ** 14, -10 ** 14):
        c = K.days_before_year(yr) * 86400 * 10 ** 9 // t
        for dd in (-1, 0, 1):
            vals.add(c + dd)
    return sorted(v for v in vals if lo <= v <= hi)


def rand_value(rng, r):
    lo, hi = K.RMIN[r], K.RMAX[r]
    if rng.random() < 0.3:
        return rng.randrange(lo, hi + 1)
    b = rng.randrange(1, 65)
    v = rng.getrandbits(b)
    if K.signed(r) and rng.random() < 0.5:
        v = -v
    return min(hi, max(lo, v))


def explicit_cases(rng, tier):
    k = 40 if tier == "quick" else 1000
    nrand = 20000 if tier == "quick" else 300000
    risky, plain = [], []
    for p in K.PRECS:
        for r in K.REPS:
            if r == "i8":
                vals = list(range(-128, 128))
            else:
                vals = boundary_values(p, r, k)
            for c in vals:
                if K.can_print_tp(p, r):
                    risky.append("tp.print %s %s %d" % (p, r, c))
                if K.can_print_dur(p, r):
                    risky.append("dur.print %s %s %d" % (p, r, c))
                plain.append("ts.to tp %s %s %d" % (p, r, c))
                plain.append("ts.to dur %s %s %d" % (p, r, c))
    for c in boundary_values("s", "i64", k):
        risky.append("rt.print %d" % c)
    for _ in range(nrand):
        p = rng.choice(K.PRECS); r = rng.choice(K.REPS)
        c = rand_value(rng, r)
        op = rng.choice(["tp.print", "tp.print", "dur.print", "ts.to tp", "ts.to dur"])
        if op == "tp.print" and not K.can_print_tp(p, r):
            op = "ts.to tp"
        if op == "dur.print" and not K.can_print_dur(p, r):
            op = "ts.to dur"
        (risky if op.endswith("print") else plain).append("%s %s %s %d" % (op, p, r, c))
    # through the MsgPack archive (To(value, CBinTimestamp&), WriteValue; ReadValue, To(CBinTimestamp, value&)):
    # seconds around the borders of the three timestamp formats, with and without a fraction, and random values
    for p in K.PRECS:
        t = K.TICK_NS[p]
        for r in K.REPS:
            lo, hi = K.RMIN[r], K.RMAX[r]
            vals = set([lo, hi, 0, 1, -1])
            for sec in (0, 1, 2 ** 32 - 1, 2 ** 32, 2 ** 32 + 1, 2 ** 34 - 1, 2 ** 34, 2 ** 34 + 1, -1, -2, -2 ** 34, 2 ** 62, -2 ** 62):
                c = sec * 10 ** 9 // t
                for dd in (-1, 0, 1):
                    vals.add(c + dd)
            for c in sorted(v for v in vals if lo <= v <= hi):
                plain.append("ts.wire tp %s %s %d" % (p, r, c))
                plain.append("ts.wire dur %s %s %d" % (p, r, c))
    for _ in range(1500 if tier == "quick" else 40000):
        p = rng.choice(K.PRECS); r = rng.choice(K.REPS)
        plain.append("ts.wire %s %s %s %d" % (rng.choice(["tp", "dur"]), p, r, rand_value(rng, r)))
    # struct tm printing (no calendar): field values as given
    for _ in range(300 if tier == "quick" else 3000):
        y = rng.choice([0, 1, -1, 70, 123, 1970, 9999, 10000, -999, -1000, 2 ** 31 - 1, -2 ** 31, rng.randrange(-2 ** 31, 2 ** 31)])
        f = [rng.choice([0, 1, 9, 10, 11, 12, 31, 59, 99, 100, -1, -9, -10, rng.randrange(-200, 200)]) for _ in range(5)]
        plain.append("tm.print %d %d %d %d %d %d" % (y, f[0], f[1], f[2], f[3], f[4]))
    return risky, plain


def sweeps(rng, tier):
    sw = []
    q = tier == "quick"
    n_days = DAY_HI - DAY_LO
    if q:
        a = K.days_of_civil(1500, 1, 1); b = K.days_of_civil(2500, 1, 1)
        sw.append((("sweep.rt", "tp", "d", "i64"), a, b - a, 1))
        sw.append((("sweep.rt", "tp", "d", "i64"), DAY_LO, n_days // 31, 31))
        a = K.days_of_civil(1900, 1, 1); b = K.days_of_civil(2100, 1, 1)
        sw.append((("sweep.rt", "tp", "s", "i64"), a * 86400, b - a, 86400))
        sw.append((("sweep.rt", "tp", "s", "i64"), DAY_LO * 86400, n_days // 41, 86400 * 41))
        sw.append((("sweep.rt", "tp", "s", "i64"), DAY_LO * 86400 + 86399, n_days // 43, 86400 * 43 - 1))
        sel = SELECTED_DAYS[:4]
    else:
        sw.append((("sweep.rt", "tp", "d", "i64"), DAY_LO, n_days, 1))
        sw.append((("sweep.rt", "tp", "s", "i64"), DAY_LO * 86400, n_days, 86400))
        sw.append((("sweep.rt", "tp", "s", "i64"), DAY_LO * 86400 + 86399, n_days, 86399))
        sw.append((("sweep.rt", "tp", "d", "i32"), DAY_LO, n_days // 3, 3))
        sw.append((("sweep.rt", "tp", "h", "i64"), DAY_LO * 24, n_days // 5, 24 * 5 + 1))
        sw.append((("sweep.rt", "tp", "min", "i64"), DAY_LO * 1440, n_days // 5, 1440 * 5 + 61))
        sw.append((("sweep.rt", "tp", "ms", "i64"), DAY_LO * 86400000, n_days // 5, 86400000 * 5 + 3661001))
        sel = SELECTED_DAYS
    for (y, m, d) in sel:
        sw.append((("sweep.rt", "tp", "s", "i64"), K.days_of_civil(y, m, d) * 86400, 86400, 1))
    # arithmetic progressions with random start and step inside the UB-free range of every (P,R)
    n = 1500 if q else 20000
    for p in K.PRECS:
        for r in ("i64", "i32", "u64"):
            for kind, what in (("sweep.rt", "tp"), ("sweep.rt", "dur"), ("sweep.ts", "tp"), ("sweep.ts", "dur")):
                if kind == "sweep.rt" and what == "tp" and not K.can_print_tp(p, r):
                    continue
                if kind == "sweep.rt" and what == "dur" and not K.can_print_dur(p, r):
                    continue
                if kind == "sweep.rt" and what == "tp":
                    lo, hi = safe_tp_range(p, r)
                else:
                    lo, hi = K.RMIN[r] + 1, K.RMAX[r]
                for _ in range(2):
                    span = hi - lo
                    if rng.random() < 0.5:
                        bl = rng.randrange(8, max(9, span.bit_length()))
                        span = min(span, 1 << bl)
                        start = rng.randrange(lo, hi - span + 1)
                    else:
                        start = lo
                    step = max(1, span // n - rng.randrange(0, max(1, span // (n * 64) + 1)))
                    cnt = min(n, span // step)
                    if cnt > 0:
                        sw.append(((kind, what, p, r), start, cnt, step))
    return sw


def run(ctx, vlib):
    impl, model = K.drivers(vlib)
    rng = ctx["rng"]
    tier = ctx["tier"]
    corpus = K.load_corpus("C14")
    risky, plain = explicit_cases(rng, tier)
    risky = corpus + risky
    oi_r, om_r = K.run_both(vlib, impl, model, risky, small=True)
    oi_p, om_p = K.run_both(vlib, impl, model, plain)
    cases = risky + plain
    oi, om = oi_r + oi_p, om_r + om_p
    # second phase: parse back what the implementation printed / convert its timestamps back
    back = K.second_phase(cases, oi)
    src_index = {}
    j = 0
    for i, (line, a) in enumerate(zip(cases, oi)):
        if a.startswith("OK ") and line.split(" ")[0] in ("tp.print", "dur.print", "rt.print", "ts.to"):
            src_index[len(cases) + j] = i
            j += 1
    oi_b, om_b = K.run_both(vlib, impl, model, back, small=True)
    sws = sweeps(rng, tier)
    sweep_evals, explicit = K.run_sweeps(vlib, impl, model, sws)
    all_cases = cases + back
    all_oi, all_om = oi + oi_b, om + om_b
    if explicit:
        oi2, om2 = K.run_both(vlib, impl, model, explicit, small=True)
        back2 = K.second_phase(explicit, oi2)
        oi3, om3 = K.run_both(vlib, impl, model, back2, small=True)
        base = len(all_cases)
        jj = 0
        for i, (line, a) in enumerate(zip(explicit, oi2)):
            if a.startswith("OK "):
                src_index[base + len(explicit) + jj] = base + i
                jj += 1
        all_cases += explicit + back2; all_oi += oi2 + oi3; all_om += om2 + om3
    return K.assess("C14", vlib, impl, model, all_cases, all_oi, all_om, src_index, sweep_evals, sws,
                    rule=("hashed print+parse-back sweeps (bisected on mismatch): %s day of years -10000..+20000 for time_point<days,int64> and "
                          "time_point<seconds,int64> (midnight and 23:59:59 progressions), every second of %d selected days, random "
                          "arithmetic progressions inside the UB-free range of every (precision, representation) for time_point and duration "
                          "text and the CBinTimestamp conversions; explicit cases: min/max +/- %d ticks, calendar-boundary instants and buffer "
                          "thresholds for every (P,R), all 256 values of every int8 type, random 64-bit values (uniform and by bit length), "
                          "each printed text parsed back and each timestamp converted back; non-trivial = negative / beyond 2^31 / error or UB outcome")
                    % ("every" if tier != "quick" else "every (years 1500-2500) / every 31st", 4 if tier == "quick" else len(SELECTED_DAYS), 40 if tier == "quick" else 1000),
                    exhaustive=(tier != "quick"))


def replay(rp, vlib):
    return K.replay(rp, vlib)
