"""C15 — ISO-8601 parsing either yields the denoted value or throws; it never wraps."""
import chrono_common as K
import C14

LEVEL = "proof"
TRUSTED_BASE = [t.replace("T_C14_", "T_C15_") for t in C14.TRUSTED_BASE]
ASSUMPTIONS = C14.ASSUMPTIONS + [
    "char16_t / char32_t input is narrowed by Utf8::Encode with the default policy (model: UtfModel.transcode, property C11/C12) before parsing",
]

BIG = [2 ** 31 - 1, 2 ** 31, 2 ** 31 + 1, 2 ** 32 - 1, 2 ** 32, 2 ** 63 - 1, 2 ** 63, 2 ** 63 + 1, 2 ** 64 - 1, 2 ** 64, 2 ** 64 + 1,
       10 ** 19, 10 ** 20, 10 ** 25, 127, 128, 129, 255, 256]


RW = ["i64", "i64", "i64", "i32", "u64", "i8"]     # representation weights for the string generators


def year_str(rng, y, loose=False):
    if loose and rng.random() < 0.5:
        return str(y) if y >= 0 else "-" + str(-y)
    return K.year_text(y)


def two(rng, v, loose):
    if loose and rng.random() < 0.5:
        return rng.choice(["%d" % v, "%03d" % v, "%02d" % v])
    return "%02d" % v


def frac_str(rng):
    k = rng.random()
    if k < 0.35:
        return ""
    sep = rng.choice(".,") if rng.random() < 0.9 else rng.choice(";:")
    n = rng.choice([1, 2, 3, 3, 4, 5, 6, 6, 7, 8, 9, 9, 10, 12, 20])
    kind = rng.random()
    if kind < 0.2:
        ds = "0" * n
    elif kind < 0.4:
        ds = "9" * n
    elif kind < 0.6:
        # half-way patterns: ...5 / ...4999 / ...5001 around every rounding position
        pos = rng.randrange(0, n)
        ds = "".join(rng.choice("0123456789") for _ in range(pos)) + rng.choice(["5", "49", "50", "51"]) + "0" * n
        ds = ds[:n]
    elif kind < 0.7:
        ds = "0" * (n - 1) + "1"
    else:
        ds = "".join(rng.choice("0123456789") for _ in range(n))
    return sep + ds


def tp_text_from(rng, y, mo, d, h, mi, s, loose=False):
    return "%s-%s-%sT%s:%s:%s" % (year_str(rng, y, loose), two(rng, mo, loose), two(rng, d, loose), two(rng, h, loose), two(rng, mi, loose), two(rng, s, loose))


def near_limit_instant(rng, p, r):
    """a date-time whose instant is within a few ticks/seconds/days of the limits of (p, r)"""
    lim = rng.choice([K.RMIN[r], K.RMAX[r]])
    ns = lim * K.TICK_NS[p]
    ns += rng.choice([0, 0, 1, -1, 2, -2, 10 ** 9, -10 ** 9, 86400 * 10 ** 9, -86400 * 10 ** 9, K.TICK_NS[p], -K.TICK_NS[p],
                      rng.randrange(-10 ** 12, 10 ** 12), rng.randrange(-10 ** 15, 10 ** 15)])
    secs, fns = divmod(ns, 10 ** 9)
    days, sod = divmod(secs, 86400)
    y, m, d = K.civil_of_days(days)
    base = "%s-%02d-%02dT%02d:%02d:%02d" % (K.year_text(y), m, d, sod // 3600, sod % 3600 // 60, sod % 60)
    if fns or rng.random() < 0.3:
        base += rng.choice(".,") + ("%09d" % fns).rstrip("0").ljust(rng.choice([1, 3, 6, 9]), "0")[:9]
    return base + "Z"


def gen_tp(rng):
    k = rng.random()
    if k < 0.35:     # valid or nearly valid calendar fields
        y = rng.choice([1970, 2000, 2023, 2024, 1900, 2100, 1600, 0, -1, 1, 9999, 10000, -9999, -10000, 1677, 2262, 1678, 2261,
                        rng.randrange(1, 9999), rng.randrange(-300000, 300000), rng.randrange(-2 ** 40, 2 ** 40)])
        mo = rng.choice([1, 2, 2, 3, 4, 6, 9, 11, 12, rng.randrange(1, 13)])
        d = rng.choice([1, 28, 29, 30, 31, rng.randrange(1, 29)])
        if rng.random() < 0.85:
            d = min(d, K.dim(y, mo) + (1 if rng.random() < 0.3 else 0))
        h, mi, s = rng.choice([0, 23, rng.randrange(24)]), rng.choice([0, 59, rng.randrange(60)]), rng.choice([0, 59, rng.randrange(60)])
        return tp_text_from(rng, y, mo, d, h, mi, s, loose=rng.random() < 0.15) + frac_str(rng) + "Z"
    if k < 0.5:      # every field at / below / above its range
        y = rng.choice([2023, 2024, 1900, 2000])
        f = dict(mo=rng.randrange(1, 13), d=rng.randrange(1, 29), h=rng.randrange(24), mi=rng.randrange(60), s=rng.randrange(60))
        which = rng.choice(["mo", "d", "h", "mi", "s"])
        f[which] = rng.choice({"mo": [0, 1, 12, 13, 99], "d": [0, 1, 28, 29, 30, 31, 32, 99], "h": [0, 23, 24, 25, 99],
                               "mi": [0, 59, 60, 61, 99], "s": [0, 59, 60, 61, 99]}[which])
        if which == "d":
            f["mo"] = rng.choice([1, 2, 4, 6, 12])
        return tp_text_from(rng, y, f["mo"], f["d"], f["h"], f["mi"], f["s"]) + frac_str(rng) + "Z"
    if k < 0.62:     # huge years
        y = rng.choice(BIG) + rng.choice([-1, 0, 1, -400, 400, -399])
        y = y // rng.choice([1, 1, 1, 146097, 400, 365])
        if rng.random() < 0.5:
            y = -y
        ys = ("+" if y >= 0 else "-") + str(abs(y)) if rng.random() < 0.8 else str(y)
        return "%s-%02d-%02dT%02d:%02d:%02dZ" % (ys, rng.choice([1, 2, 3, 12]), rng.choice([1, 28]), rng.randrange(24), rng.randrange(60), rng.randrange(60))
    if k < 0.8:      # near the limits of a random (P,R); the caller pairs it with the same (P,R) mostly
        return None
    # structural variants
    base = tp_text_from(rng, rng.randrange(1, 9999), rng.randrange(1, 13), rng.randrange(1, 29), rng.randrange(24), rng.randrange(60), rng.randrange(60))
    v = rng.random()
    if v < 0.15:
        return base                          # missing Z
    if v < 0.3:
        return base + rng.choice(["z", "Zx", "Z ", "Z0", "+00:00", "-01:00", " Z", "ZZ"])
    if v < 0.45:
        return base.replace("T", rng.choice(["t", " ", "", "TT"])) + "Z"
    if v < 0.6:
        return base.replace("-", rng.choice(["/", "", ".", "--"]), rng.choice([1, 2])) + "Z"
    if v < 0.7:
        return base.replace(":", rng.choice(["", ".", "-", "::"]), 1) + "Z"
    if v < 0.8:
        return rng.choice(["+", "-", "+-", "-+", "++", " ", "Y"]) + base + "Z"
    if v < 0.9:
        return base + rng.choice([".", ",", ".Z", ",Z", ". 5Z", ".-5Z", ".+5Z", ".5.5Z", ".5,5Z"])
    return rng.choice(["", "Z", "T", "-", "2023", "2023-", "2023-01", "2023-01-01", "2023-01-01T", "2023-01-01T00", "2023-01-01T00:00", "2023-01-01T00:00:0"])


def mutate(rng, s):
    b = bytearray(s.encode("latin-1"))
    for _ in range(rng.choice([1, 1, 2, 3])):
        k = rng.random()
        pos = rng.randrange(0, len(b) + 1)
        if k < 0.35 and b:
            b[min(pos, len(b) - 1)] = rng.choice([rng.randrange(256), ord(rng.choice("0123456789-+:.,TZPWDHMS zY")), 0, 0x80, 0xFF])
        elif k < 0.6 and b:
            del b[min(pos, len(b) - 1)]
        elif k < 0.85:
            b.insert(pos, rng.choice([rng.randrange(256), ord(rng.choice("0123456789-+:.,TZPWDHMS "))]))
        else:
            b = b[:pos]
    return bytes(b)


def dur_number(rng, p, r, unit_ns):
    """a component value: small, or near the point where value*unit meets the limits of (p,r), or huge"""
    k = rng.random()
    if k < 0.45:
        return rng.choice([0, 1, 2, 7, 23, 24, 59, 60, 61, 100, 1000, rng.randrange(0, 100000)])
    if k < 0.8:
        lim = max(abs(K.RMIN[r]), K.RMAX[r]) if rng.random() < 0.5 else K.RMAX[r]
        v = lim * K.TICK_NS[p] // unit_ns
        return max(0, v + rng.choice([0, 0, 1, -1, 2, -2, 1000, -1000]))
    return rng.choice(BIG) + rng.choice([-1, 0, 1])


UNITS_NS = {"W": 604800 * 10 ** 9, "D": 86400 * 10 ** 9, "H": 3600 * 10 ** 9, "M": 60 * 10 ** 9, "S": 10 ** 9}


def gen_dur(rng, p, r):
    k = rng.random()
    sign = rng.choice(["", "", "", "-", "-", "+"])
    if k < 0.7:
        date = [(u, rng.random() < 0.35) for u in "WD"]
        time = [(u, rng.random() < 0.4) for u in "HMS"]
        s = sign + "P"
        for u, on in date:
            if on:
                s += "%d%s" % (dur_number(rng, p, r, UNITS_NS[u]), u)
        tpart = ""
        for u, on in time:
            if on:
                tpart += "%d" % dur_number(rng, p, r, UNITS_NS[u])
                if u == "S":
                    tpart += frac_str(rng)
                tpart += u
        if tpart or rng.random() < 0.05:
            s += "T" + tpart
        return s
    if k < 0.8:      # wrong order / repeated / wrong section / years and months
        parts = []
        for _ in range(rng.randrange(1, 5)):
            parts.append("%d%s" % (rng.choice([0, 1, 5, 100]), rng.choice("WDHMSYMT")))
        s = sign + "P" + "".join(parts)
        if rng.random() < 0.5:
            i = rng.randrange(2, len(s) + 1)
            s = s[:i] + "T" + s[i:]
        return s
    if k < 0.9:      # fractions in other parts, trailing things, lowercase
        return sign + rng.choice(["P1.5D", "PT1.5H", "PT1.5M", "PT1.5", "PT1,5S", "PT.5S", "PT1.S", "P1D ", "P1D x", "P1DT", "PT", "P", "p1d",
                                  "PT1s", "P1W2D", "P2D1W", "PT1S1H", "P1D1D", "PT0S", "PT0.0S", "P0D", "PT1.0000000000S", "PT1.0000000001S",
                                  "PT1.999999999S", "PT0.9999999995S", "P1DT1H1M1.5S\n", "P1D\t", "P 1D", "P-1D", "P+1D", "--P1D", "+-P1D", "PP1D"])
    return sign + "P" + "".join(rng.choice("0123456789WDTHMS.,") for _ in range(rng.randrange(0, 12)))


def cast_cases(rng, tier):
    out = []
    pers = ["ns", "us", "ms", "s", "min", "h", "d", "w"]
    num = {"ns": (1, 10 ** 9), "us": (1, 10 ** 6), "ms": (1, 1000), "s": (1, 1), "min": (60, 1), "h": (3600, 1), "d": (86400, 1), "w": (604800, 1),
           "r7": (7, 1), "r5": (5, 1), "r2_3": (2, 3)}
    pairs = [(a, b) for a in pers for b in pers] + [("r7", "r5"), ("r5", "r7"), ("s", "r2_3"), ("r2_3", "s")]
    reps = 6 if tier == "quick" else 60
    for (sp, dp) in pairs:
        for sr in ("i64", "u64", "i32"):
            for dr in K.REPS:
                (sn, sd), (dn, dd) = num[sp], num[dp]
                f_num, f_den = sn * dd, sd * dn          # dst count = c * f_num / f_den
                vals = set([0, 1, -1, 2, K.RMIN[sr], K.RMAX[sr], K.RMIN[sr] + 1, K.RMAX[sr] - 1])
                for lim in (K.RMIN[dr], K.RMAX[dr], 2 ** 63 - 1, -2 ** 63, 2 ** 64 - 1):
                    c0 = lim * f_den // f_num
                    for d in (-2, -1, 0, 1, 2):
                        vals.add(c0 + d)
                    vals.add((lim // max(1, f_num // f_den if f_den == 1 else 1)))
                for _ in range(reps):
                    vals.add(C14.rand_value(rng, sr))
                    vals.add(rng.randrange(-300, 300) * max(1, f_den // f_num if f_num == 1 else f_den))
                for c in vals:
                    if K.RMIN[sr] <= c <= K.RMAX[sr]:
                        out.append("cast %s %s %s %s %d" % (sp, sr, dp, dr, c))
    return out


def ts_from_cases(rng, tier):
    out = []
    n = 40 if tier == "quick" else 400
    nss = [0, 1, 499, 500, 501, 499999, 500000, 500001, 499999999, 500000000, 500000001, 999999999, 999999500, 999500000, 999999, 1000000,
           -1, -500000000, 1000000000, 2 ** 31 - 1, -2 ** 31]
    for p in K.PRECS:
        for r in K.REPS:
            secs = set([0, 1, -1, 59, 60, 3600, 86400, -86400, 2 ** 31, -2 ** 31, 2 ** 63 - 1, -2 ** 63])
            for lim in (K.RMIN[r], K.RMAX[r]):
                s0 = lim * K.TICK_NS[p] // 10 ** 9
                for d in (-2, -1, 0, 1, 2):
                    secs.add(s0 + d)
            for _ in range(n):
                secs.add(C14.rand_value(rng, "i64"))
            for s in secs:
                if -2 ** 63 <= s < 2 ** 63:
                    for ns in ([rng.choice(nss), rng.choice(nss), rng.randrange(0, 10 ** 9)] if tier == "quick" else nss + [rng.randrange(0, 10 ** 9)]):
                        out.append("ts.from %s %s %s %d %d" % (rng.choice(["tp", "dur"]), p, r, s, ns))
    return out


def fraction_cases():
    """all 1..9 digit lengths with boundary values (the forall over values is T_C15_fraction_exact)"""
    out = []
    for n in range(1, 13):
        for v in ("0" * n, "0" * (n - 1) + "1", "9" * n, "5" + "0" * (n - 1), "4" + "9" * (n - 1), "1" + "0" * (n - 1), ("123456789" * 2)[:n], ("987654321" * 2)[:n]):
            for p in K.PRECS:
                out.append("tp.parse %s i64 %s" % (p, K.hx("2001-02-03T04:05:06.%sZ" % v)))
                out.append("dur.parse %s i64 %s" % (p, K.hx("PT7.%sS" % v)))
                out.append("dur.parse %s i64 %s" % (p, K.hx("-PT7,%sS" % v)))
    return out


def gen_cases(rng, tier):
    n_tp = 150000 if tier == "quick" else 3000000
    n_dur = 150000 if tier == "quick" else 3000000
    risky, plain = [], []
    for _ in range(n_tp):
        p = rng.choice(K.PRECS); r = rng.choice(RW)
        s = gen_tp(rng)
        if s is None:
            s = near_limit_instant(rng, p, r)
        b = s.encode("latin-1")
        if rng.random() < 0.12:
            b = mutate(rng, s)
        w = rng.random()
        big = len(b) > 24 and (b[:1] in b"+-" or b[:6].isdigit())
        dest = risky if big else plain
        if w < 0.9:
            dest.append("tp.parse %s %s %s" % (p, r, b.hex() if b else "-"))
        else:
            units = list(b)
            if rng.random() < 0.2 and units:
                units[rng.randrange(len(units))] = rng.choice([0xFF10, 0x5A + 0xFEE0, 0x2212, 0xD800, 0xDC00, 0x10FFFF, 0x110000, 0xE9])
            wd = rng.choice([16, 32])
            units = [u for u in units if wd == 32 or u <= 0xFFFF]
            dest.append("tp.parse%d %s %s %s" % (wd, p, r, ",".join("%x" % u for u in units) if units else "-"))
        if rng.random() < 0.02:
            plain.append("rt.parse %s" % (b.hex() if b else "-"))
            plain.append("tm.parse %s" % (b.hex() if b else "-"))
    for _ in range(n_dur):
        p = rng.choice(K.PRECS); r = rng.choice(RW)
        s = gen_dur(rng, p, r)
        b = s.encode("latin-1")
        if rng.random() < 0.1:
            b = mutate(rng, s)
        dest = risky if b"9223372036854775808" in b else plain
        if rng.random() < 0.9:
            dest.append("dur.parse %s %s %s" % (p, r, b.hex() if b else "-"))
        else:
            units = list(b)
            if rng.random() < 0.2 and units:
                units[rng.randrange(len(units))] = rng.choice([0xFF10, 0x2212, 0xD800, 0x10FFFF, 0xE9])
            wd = rng.choice([16, 32])
            units = [u for u in units if wd == 32 or u <= 0xFFFF]
            dest.append("dur.parse%d %s %s %s" % (wd, p, r, ",".join("%x" % u for u in units) if units else "-"))
    plain += fraction_cases()
    plain += cast_cases(rng, tier)
    plain += ts_from_cases(rng, tier)
    return risky, plain


def run(ctx, vlib):
    impl, model = K.drivers(vlib)
    rng = ctx["rng"]
    tier = ctx["tier"]
    corpus = K.load_corpus("C15")
    risky, plain = gen_cases(rng, tier)
    risky = corpus + risky
    oi_r, om_r = K.run_both(vlib, impl, model, risky, small=True)
    oi_p, om_p = K.run_both(vlib, impl, model, plain)
    cases = risky + plain
    return K.assess("C15", vlib, impl, model, cases, oi_r + oi_p, om_r + om_p, {}, (0, 0), [],
                    rule=("grammar-generated time-point and duration strings for every (precision, representation) in {ns..days} x {int64,int32,uint64,int8}: "
                          "mostly-valid fields, each field at/below/above its range (day 28..32 against the month and year), years and component "
                          "magnitudes around 2^31, 2^63, 2^64 and beyond, instants within ticks/seconds/days of every type's limits, fractions of "
                          "1..20 digits with half-way patterns, '.'/',' separators, structural variants (missing Z/T, trailing text, wrong order, "
                          "Y/M, fractions outside seconds), byte-level mutations; char16_t/char32_t inputs incl. non-ASCII; SafeDurationCast over "
                          "all unit pairs x representation pairs at guard boundaries (+ general-ratio pairs); CBinTimestamp -> value at limits; "
                          "non-trivial = error/UB outcome, sign, fraction or negative result"),
                    exhaustive=False)


def replay(rp, vlib):
    return K.replay(rp, vlib)
