"""C16 — number/text conversion is lossless; numeric parsing is total and range-checked."""
import re
from fractions import Fraction
import num_common as N

LEVEL = "proof"     # integer, bool, width glue: proof; floating-point text: correspondence only (say "partial" in MANIFEST)
EXPLANATION = ("integer, bool and string-width glue: Coq proof (T_C16_*) + exhaustive correspondence; "
               "floating-point text (libstdc++ to_chars/from_chars, third party): correspondence only - an exact-rational "
               "oracle on boundary/random bit patterns, and in the thorough tier every one of the 2^32 float patterns")
TRUSTED_BASE = [
    "Coq 8.16.1 kernel incl. vm_compute (witnesses of the _refuted theorems and Examples); theorems closed under the global context",
    "MODELLED, not verified: std::from_chars / std::to_chars for integer types (coq/NumModel.v from_chars_int, to_chars_int written from [charconv]); validated on every run by their own ops stdfc / stdtc / sweepstd against the real libstdc++ functions: all 8/16-bit values printed and re-read into every integer type, boundary 64-bit values, malformed strings, buffer capacities 0..21",
    "hand-written model coq/NumModel.v (parse_num, validate, parse_bool, to_text) tied to /repo by correspondence: all 8/16-bit values x 4 string widths printed and parsed back into 5 types, literal-grammar strings in 4 widths, bool literals",
    "UTF narrowing/widening uses the UTF model coq/UtfModel.v (family utf, C11/C12) and its theorems transcode_skip / transcode_exact'",
    "floating-point half NOT modelled in Coq: python exact-rational oracle (props/C16.py fp_rt_ok / fp_parse_allowed) and, inside the C++ driver, glibc strtof/strtod as an independent reader for the exhaustive float sweep",
    "extraction (ExtrOcamlBasic only) and driver glue ml/num_driver.ml, ml/glue_num.ml, harness/drv_num.cpp, props/num_common.py",
    "std::isdigit on values outside unsigned char is formally undefined; GCC folds the builtin to a range test (T_C16_*_isdigit_domain_* record the class)",
]
ASSUMPTIONS = [
    "platform: x86-64 Linux, GCC 12 libstdc++ (BITSERIALIZER_HAS_FLOAT_FROM_CHARS = 1), char signed, wchar_t 32 bit",
    "numeric literal grammar of the statement: '-'? digit+ (no '+', no exponent); a fraction is '.' digit; blanks are space and TAB",
    "where a literal is both fractional and out of range the statement does not order the two exceptions; the range wins here (T_C16_int_classify_frac_first_* pin the other reading)",
]

INT_NUM = [t for t in N.INT_TYPES if t != "bool"]


# ------------------------------------------------------------------ text construction

def encode(w, cps):
    """code points (ints; values >= 0x110000 or surrogates are passed through as raw units where possible)"""
    if w in ("32", "wc"):
        return list(cps)
    out = []
    if w == "16":
        for c in cps:
            if c < 0x10000:
                out.append(c)
            elif c < 0x110000:
                out += [0xD800 + (c - 0x10000) // 1024, 0xDC00 + (c - 0x10000) % 1024]
            else:
                out.append(c & 0xFFFF)
        return out
    for c in cps:
        if c < 0x80:
            out.append(c)
        elif c < 0x800:
            out += [0xC0 + c // 64, 0x80 + c % 64]
        elif c < 0x10000:
            out += [0xE0 + c // 4096, 0x80 + (c // 64) % 64, 0x80 + c % 64]
        elif c < 0x110000:
            out += [0xF0 + c // 262144, 0x80 + (c // 4096) % 64, 0x80 + (c // 64) % 64, 0x80 + c % 64]
        else:
            out.append(c & 0xFF)
    return out


BLANKS = ["", "", " ", "\t", "  \t ", "\n", "\r", "\x0b", " ", "　", " \n"]
SIGNS = ["", "", "", "-", "-", "+", "--", "-+", "- "]
FRACS = ["", "", "", ".", ".5", ".0", ".x", "..5", ".٥", ".５", ". 5", ".-5"]
EXPS = ["", "", "", "e5", "E-3", "e+2", "e"]
TRAILS = ["", "", "x", " ", " 1", "\0", "\x001", "é", "١٢", "５", "\U0001f642", "-", ",", "_", "f"]


def digits_part(rng):
    k = rng.random()
    if k < 0.45:
        t = rng.choice(INT_NUM)
        lo, hi = N.RANGE[t]
        v = rng.choice([lo, hi, lo - 1, hi + 1, lo + 1, hi - 1, 0, 1, 9, 10, hi * 10, hi // 10])
        s = str(abs(v))
    elif k < 0.75:
        s = "".join(rng.choice("0123456789") for _ in range(rng.choice([1, 2, 3, 5, 10, 19, 20, 21, 30, 60])))
    elif k < 0.9:
        s = "0" * rng.choice([1, 2, 25]) + str(rng.randrange(0, 70000))
    else:
        s = ""
    return s


def gen_text(rng):
    return rng.choice(BLANKS) + rng.choice(SIGNS) + digits_part(rng) + rng.choice(FRACS) + rng.choice(EXPS) + rng.choice(TRAILS)


NOISE = {"8": [0xFF, 0x80, 0xC0, 0xE2, 0xB1, 0xF8], "16": [0xD800, 0xDC00, 0xDBFF, 0xFFFF], "32": [0x110000, 0xD800, 0xFFFFFFFF, 0x80000031, 0x7FFFFFFF],
         "wc": [0x110000, 0xDFFF, 0xFFFFFFFF, 0x80000031]}

BOOL_CORE = ["0", "1", "2", "9", "00", "01", "10", "11", "007", "true", "false", "tru", "fals", "truex", "falsey", "t", "f", "yes", "no",
             "1x", "0x", "1.", "1.5", "0.0", "1 ", "1\t1", "-1", "+1", "-0", "", "truefalse", "１", "1１", "1١", "trüe", "true"]


def case_variants(rng, word):
    return "".join(c.upper() if rng.random() < 0.5 else c.lower() for c in word)


def gen_cases(rng, tier):
    cases = []
    classes = {}
    groups = []        # (first index, count) of lines that carry the same text in the four widths

    def add(cls, line):
        cases.append(line)
        classes[cls] = classes.get(cls, 0) + 1

    scale = 1 if tier == "quick" else 12
    # 1. literal grammar, same text in the four widths, integer targets
    for _ in range(2500 * scale):
        s = gen_text(rng)
        cps = [ord(c) for c in s]
        T = rng.choice(INT_NUM)
        groups.append((len(cases), 4))
        for w in N.WIDTHS:
            add("num.parse grammar", "num.parse %s %s %s" % (T, w, N.fl(encode(w, cps))))
    # 2. raw unit noise (ill-formed units) after / inside the literal
    for _ in range(800 * scale):
        w = rng.choice(N.WIDTHS)
        u = encode(w, [ord(c) for c in rng.choice(BLANKS) + rng.choice(SIGNS) + digits_part(rng) + rng.choice(FRACS)])
        pos = rng.randrange(0, len(u) + 1)
        u = u[:pos] + [rng.choice(NOISE[w])] + u[pos:]
        if rng.random() < 0.3:
            u += encode(w, [ord(c) for c in rng.choice([".5", "5", "x"])])
        add("num.parse ill-formed units", "num.parse %s %s %s" % (rng.choice(INT_NUM), w, N.fl(u)))
    # 3. round trip of boundary and random values of the 32/64-bit types (8/16-bit are swept exhaustively)
    for T in ("i32", "u32", "i64", "u64"):
        lo, hi = N.RANGE[T]
        vals = set([lo, lo + 1, -1, 0, 1, 9, 10, 99, 100, hi - 1, hi])
        for k in range(1, 20):
            vals |= {10 ** k, 10 ** k - 1, -(10 ** k), -(10 ** k) + 1}
        for k in range(1, 64):
            vals |= {2 ** k, 2 ** k - 1, -(2 ** k), -(2 ** k) - 1}
        vals = sorted(v for v in vals if lo <= v <= hi)
        vals += [rng.randrange(lo, hi + 1) for _ in range(300 * scale)]
        for v in vals:
            w = rng.choice(N.WIDTHS)
            out0 = rng.choice([[], [], N.txt("ab"), encode(w, [0x20AC])])
            add("num.tostr 32/64", "num.tostr %s %s %s %s" % (T, w, N.hx(v), N.fl(out0)))
            add("num.parse decimal text 32/64", "num.parse %s %s %s" % (T, w, N.fl(N.txt(str(v)))))
            T2 = rng.choice(INT_NUM)
            add("num.parse decimal text other target", "num.parse %s %s %s" % (T2, rng.choice(N.WIDTHS), N.fl(N.txt(str(v)))))
    for T in N.INT_TYPES:
        lo, hi = N.RANGE[T]
        for v in sorted(set([lo, hi, 0, 1])):
            for w in N.WIDTHS:
                add("num.tostr limits", "num.tostr %s %s %s %s" % (T, w, N.hx(v), "-"))
    # 4. bool literals
    boolish = list(BOOL_CORE)
    for word in ("true", "false"):
        for m in range(2 ** len(word)):
            boolish.append("".join(c.upper() if m >> i & 1 else c for i, c in enumerate(word)))
    for s in boolish:
        for b in ("", " ", "\t ", "\n"):
            for tr in ("", "x", " ", "1"):
                cps = [ord(c) for c in b + s + tr]
                groups.append((len(cases), 4))
                for w in N.WIDTHS:
                    add("bool.parse literals", "bool.parse %s %s" % (w, N.fl(encode(w, cps))))
    for _ in range(400 * scale):
        s = gen_text(rng) if rng.random() < 0.5 else rng.choice(BLANKS) + case_variants(rng, rng.choice(["true", "false", "tru", "falsee"])) + rng.choice(TRAILS)
        cps = [ord(c) for c in s]
        groups.append((len(cases), 4))
        for w in N.WIDTHS:
            add("bool.parse random", "bool.parse %s %s" % (w, N.fl(encode(w, cps))))
    for w in N.WIDTHS:
        for u in NOISE[w]:
            add("bool.parse ill-formed units", "bool.parse %s %s" % (w, N.fl([u])))
            add("bool.parse ill-formed units", "bool.parse %s %s" % (w, N.fl([0x31, u])))
            add("bool.parse ill-formed units", "bool.parse %s %s" % (w, N.fl([0x20, 0x30, u, 0x31])))
    # 5. the modelled standard functions against the real ones
    for _ in range(2500 * scale):
        s = rng.choice(SIGNS) + digits_part(rng) + rng.choice(FRACS) + rng.choice(TRAILS)
        if rng.random() < 0.1:
            s = rng.choice([" ", "\t"]) + s
        b = encode("8", [ord(c) for c in s])
        add("stdfc grammar", "stdfc %s %s" % (rng.choice(INT_NUM), N.fl(b)))
    for T in INT_NUM:
        lo, hi = N.RANGE[T]
        for v in sorted(set([lo, lo + 1, -10, -9, -1, 0, 1, 9, 10, 99, 100, hi - 1, hi]) ):
            if lo <= v <= hi:
                for cap in (0, 1, 2, 3, len(str(v)) - 1, len(str(v)), len(str(v)) + 1, 19, 20, 21, 42):
                    if cap >= 0:
                        add("stdtc capacities", "stdtc %s %d %s" % (T, cap, N.hx(v)))
                for T2 in INT_NUM:
                    add("stdfc limits", "stdfc %s %s" % (T2, N.fl(N.txt(str(v)))))
                    add("stdfc limits", "stdfc %s %s" % (T2, N.fl(N.txt(str(v + 1)))))
                    add("stdfc limits", "stdfc %s %s" % (T2, N.fl(N.txt(str(v - 1)))))
    # 6. floating-point text (exact-rational oracle)
    import C04
    for T in N.FP_TYPES:
        pats = list(C04.FP_BOUNDARY[T])
        nd = N.FP[T][4]
        p = N.FP[T][0]
        for e in range(0, 2 ** (nd * 4 - p) - 1, max(1, 2 ** (nd * 4 - p) // 64)):     # one value per exponent slice
            pats.append("%0*x" % (nd, (e << (p - 1)) | rng.getrandbits(p - 1)))
        for k in range(-45 if T == "f32" else -323, 39 if T == "f32" else 309, 3 if T == "f64" and tier == "quick" else 1):     # powers of ten
            kind, r = N.rne_fraction(Fraction(10) ** k, T)
            if kind == "ok":
                pats.append(N.fp_bits(T, r))
        pats += ["%0*x" % (nd, rng.getrandbits(nd * 4)) for _ in range(1500 * scale)]
        for b in pats:
            add("fp.rt %s" % T, "fp.rt %s %s %s" % (T, rng.choice(N.WIDTHS), b))
        for _ in range(1200 * scale):
            add("fp.parse %s" % T, "fp.parse %s %s %s" % (T, rng.choice(N.WIDTHS), N.fl(encode("32", [ord(c) for c in gen_fp_text(rng, T)]))))
    return cases, classes, groups


def gen_fp_text(rng, T):
    k = rng.random()
    if k < 0.1:
        core = rng.choice(["inf", "INF", "Infinity", "nan", "NaN", "nan(1)", "in", "na", "infx", "-inf", "-nan"])
        return rng.choice(["", " ", "\t"]) + core + rng.choice(["", "x", " "])
    ip = digits_part(rng) if rng.random() < 0.85 else ""
    fp = rng.choice(["", ".", "." + "".join(rng.choice("0123456789") for _ in range(rng.choice([1, 2, 8, 17, 25, 40])))])
    emax = 45 if T == "f32" else 330
    ex = rng.choice(["", "", "e%d" % rng.randrange(-emax, emax), "E%+d" % rng.randrange(-emax, emax), "e", "e+", "e-", "e5000", "e-5000"])
    return rng.choice(["", "", " ", "\t ", "\n"]) + rng.choice(["", "", "-", "+"]) + ip + fp + ex + rng.choice(["", "", "x", " ", "f", "é"])


# ------------------------------------------------------------------ exact oracle for floating-point text

FP_LIT = re.compile(r"-?(?:(?:\d+\.?\d*|\.\d+)(?:[eE][+-]?\d+)?|(?i:infinity|inf|nan(?:\([0-9A-Za-z_]*\))?))")


def ascii_prefix(units):
    s = ""
    for u in units:
        if u >= 0x80 or u == 0:
            break
        s += chr(u)
    return s


def exact_value(lit):
    """Fraction of a decimal literal; exponents beyond +-5000 are clamped symbolically"""
    m = re.fullmatch(r"(-?)(\d*)\.?(\d*)(?:[eE]([+-]?\d+))?", lit)
    sign, ip, fp, ex = m.group(1), m.group(2), m.group(3), m.group(4)
    digits = int((ip + fp) or "0")
    e = (int(ex) if ex else 0) - len(fp)
    if digits == 0:
        return Fraction(0), sign == "-"
    if e > 6000:
        return "huge", sign == "-"
    if e < -6000:
        return "tiny", sign == "-"
    return Fraction(digits) * Fraction(10) ** e, sign == "-"


def fp_parse_allowed(T, units):
    """answers C16 allows for Convert::To<T>(text), T floating"""
    s = ascii_prefix(units).lstrip(" \t")
    m = FP_LIT.match(s)
    if not m or m.group(0) in ("-",):
        return {"INV"}
    lit = m.group(0)
    low = lit.lower().lstrip("-")
    if low.startswith("inf"):
        return {"OK " + N.fp_bits(T, float("-inf") if lit.startswith("-") else float("inf"))}
    if low.startswith("nan"):
        return {"OK NAN"}
    val, neg = exact_value(lit)
    if val == "huge":
        return {"OOR"}
    if val == "tiny":
        return {"OOR", "OK " + N.fp_bits(T, -0.0 if neg else 0.0)}
    if val == 0:
        return {"OK " + N.fp_bits(T, -0.0 if neg else 0.0)}
    kind, r = N.rne_fraction(-val if neg else val, T)
    if kind == "inf":
        return {"OOR"}
    p, emax = N.FP[T][0], N.FP[T][1]
    min_normal = Fraction(2) ** (3 - emax - 1)
    acc = {"OK " + N.fp_bits(T, r)}
    if abs(Fraction(r)) < min_normal:
        acc.add("OOR")                       # underflow may be reported as out of range
    return acc


def sig_digits(text):
    m = re.fullmatch(r"(-?)(\d*)\.?(\d*)(?:[eE]([+-]?\d+))?", text)
    if not m or (m.group(2) == "" and m.group(3) == ""):
        return None
    ip, fp, ex = m.group(2), m.group(3), m.group(4)
    d = (ip + fp)
    e10 = len(ip) + (int(ex) if ex else 0)
    lead = len(d) - len(d.lstrip("0"))
    d = d.lstrip("0"); e10 -= lead
    d = d.rstrip("0")
    return d, e10


def min_chars(nd, k):
    """fewest characters to write D * 10^k (D: nd digits, no trailing zero) in printf %f or %e style"""
    fixed = nd + k if k >= 0 else (nd + 1 if k > -nd else 2 - k)
    E = k + nd - 1
    sci = (1 if nd == 1 else nd + 1) + 2 + (3 if abs(E) >= 100 else 2)
    return min(fixed, sci)


def fp_rt_ok(T, bits, ans):
    """is 'OK <units> <back>' a lossless shortest text for the value with these bits?  returns (ok, why)"""
    f = ans.split(" ")
    if len(f) < 3 or f[0] != "OK":
        return False, "ToString failed: " + ans
    units = N.pl(f[1])
    back = " ".join(f[2:])
    if any(u >= 0x80 for u in units):
        return False, "non-ASCII text"
    text = "".join(chr(u) for u in units)
    if N.fp_is_nan(T, bits):
        return (text in ("nan", "-nan") and back == "OK NAN"), "NaN text/parse-back"
    canon = bits.lower().rjust(N.FP[T][4], "0")
    if back != "OK " + canon:
        return False, "text does not parse back to the bit-identical value: " + back
    x = N.fp_of_bits(T, bits)
    if N.fp_is_inf(T, bits):
        return text == ("-inf" if x < 0 else "inf"), "infinity text"
    try:
        val = Fraction(text)
    except (ValueError, ZeroDivisionError):
        return False, "text is not a decimal literal: " + text
    if val == 0:
        ok = (x == 0) and (text.startswith("-") == (canon[0] in "89abcdef"))
        return ok, "zero text"
    kind, r = N.rne_fraction(val, T)
    if kind != "ok" or N.fp_bits(T, r) != canon:
        return False, "exact value of the text does not round to the value"
    sd = sig_digits(text)
    if sd is None:
        return False, "unexpected text form"
    d, e10 = sd
    tlen = len(text) - (1 if text.startswith("-") else 0)
    ax = abs(Fraction(x))
    for n in range(1, len(d)):
        # the two n-digit decimals around the value
        k = e10 - n
        scaled = ax / Fraction(10) ** k
        fl_ = scaled.numerator // scaled.denominator
        for cand in (fl_, fl_ + 1):
            if cand == 0:
                continue
            v = Fraction(cand) * Fraction(10) ** k
            kind, r = N.rne_fraction(-v if x < 0 else v, T)
            if kind == "ok" and N.fp_bits(T, r) == canon:
                cs = str(cand).rstrip("0")
                kk = k + len(str(cand)) - len(cs)
                if min_chars(len(cs), kk) < tlen:
                    return False, "not the shortest: %se%d reads back as the value and needs only %d characters" % (cs, kk, min_chars(len(cs), kk))
    return True, ""


def extra_judge(line, a):
    t = line.split(" ")
    if t[0] == "fp.rt":
        ok, why = fp_rt_ok(t[1], t[3], a)
        return (a, {a}) if ok else ("ORACLE-REJECTS: " + why, set())
    if t[0] == "fp.parse":
        acc = fp_parse_allowed(t[1], N.pl(t[3]))
        return (a, acc) if a in acc else (sorted(acc)[0], acc)
    if t[0] in ("stdfc", "stdtc"):
        return ("(modelled standard function)", {a})      # a wrong model of the standard library, not a property failure
    return None, None


# ------------------------------------------------------------------ sweeps

def sweeps(tier):
    sw = []
    for T in ("bool", "char", "i8", "u8", "i16", "u16"):
        for w in N.WIDTHS:
            sw.append((["sweeptext", T, w], 0, N.count_values(T), 2 if T == "bool" else 6))
    for T in ("char", "i8", "u8", "i16", "u16"):
        sw.append((["sweepstd", T], 0, N.count_values(T), 10))
    return sw


def expand(tokens, i):
    op, T = tokens[0], tokens[1]
    v = N.nth_value(T, i)
    s = N.fl(N.txt(str(v)))
    if op == "sweeptext":
        w = tokens[2]
        if T == "bool":
            return ["num.tostr bool %s %s -" % (w, N.hx(v)), "bool.parse %s %s" % (w, N.fl(N.txt("true" if v else "false")))]
        return ["num.tostr %s %s %s -" % (T, w, N.hx(v))] + ["num.parse %s %s %s" % (T2, w, s) for T2 in ("char", "i8", "u8", "i16", "u16")]
    return ["stdtc %s 42 %s" % (T, N.hx(v))] + ["stdfc %s %s" % (T2, s) for T2 in INT_NUM]


def nontrivial(line, model_answer):
    t = line.split(" ")
    if t[0] in ("num.parse", "bool.parse", "stdfc", "fp.parse"):
        return True
    return not model_answer.startswith("OK ")


def fp_sweep(vlib, impl, tier, notes):
    """the real to_chars/from_chars pair on float bit patterns, checked inside an optimised driver"""
    fast = impl.fast
    lines = []
    if tier == "quick":
        for k in range(64):            # 64 slices of 2^18 consecutive patterns spread over the 2^32 range + all exponent boundaries
            lo = k * (2 ** 26) + (k * 7919 % 200) * 2 ** 18
            lines.append("sweepfp f32 %x %x 1" % (lo, lo + 2 ** 18))
        lines.append("sweepfp f32 0 100000000 fff1")
        lines.append("sweepfp f64 0 fff0000000000000 3ffd5a5a5a5a5")
    else:
        for k in range(256):
            lines.append("sweepfp f32 %x %x 1" % (k * 2 ** 24, (k + 1) * 2 ** 24))
        lines.append("sweepfp f64 0 fff0000000000000 ffd5a5a5a5")
        for e in range(0, 2047, 1):
            lines.append("sweepfp f64 %x %x 1" % (e << 52, (e << 52) + 2048))
            lines.append("sweepfp f64 %x %x 1" % (((e + 1) << 52) - 2048, (e + 1) << 52))
    outs = vlib.run_driver(fast, lines, chunk=1, timeout=3000)
    total = bad = 0
    failing = []
    for l, o in zip(lines, outs):
        f = o.split(" ")
        if len(f) >= 4 and f[0] == "FPSWEEP":
            total += int(f[1]); bad += int(f[2])
            if int(f[2]):
                b, why = f[3].split(":", 1)
                T = l.split(" ")[1]
                failing.append(dict(driver="num", case="fp.rt %s 8 %s" % (T, b.rjust(N.FP[T][4], "0")), implementation=why, model="lossless shortest text",
                                    judge="FAIL", why="float text sweep: " + why + " (%s of %s patterns in %s)" % (f[2], f[1], l)))
        else:
            failing.append(dict(driver="num", case=l, implementation=o, model="FPSWEEP n 0 -", judge="FAIL", why="float sweep did not complete"))
    notes.append("float text sweep: %d bit patterns checked in-driver (round trip bit-identical, glibc strtof/strtod reads the same value, no round-tripping decimal can be written with fewer characters), %d bad" % (total, bad))
    return total, failing


def run(ctx, vlib):
    impl, model = N.drivers(vlib, need=("text", "fast"))
    rng = ctx["rng"]
    corpus = N.load_corpus("C16")
    gen, classes, groups = gen_cases(rng, ctx["tier"])
    groups = [(a + len(corpus), n) for a, n in groups]
    cases = corpus + gen
    oi = N.run_impl(vlib, impl, cases)
    om = vlib.run_driver(model, cases)
    sws = sweeps(ctx["tier"])
    evals, explicit = N.run_sweeps(vlib, impl, model, sws, expand)
    if explicit:
        cases += explicit
        oi += N.run_impl(vlib, impl, explicit, jobs=1)
        om += vlib.run_driver(model, explicit, jobs=1)
    res = N.assess("C16", vlib, impl, model, cases, oi, om, evals, sws, classes,
                   rule="integers: ALL values of char/int8/uint8/int16/uint16/bool x 4 string widths printed and parsed back into 5 types (hashed sweeps), boundary (+-10^k, +-2^k, limits) and random 32/64-bit values with prior string content; strings from a literal grammar (blanks incl. non-blank whitespace, signs incl. '+', overlong digit runs, leading zeros, fractions, exponents, trailing text, non-ASCII digits, embedded NUL) each in the 4 widths, ill-formed units; bool literals in all letter cases; the modelled std::from_chars/to_chars against the real ones (exhaustive 8/16-bit, limits, capacities).  floats: boundary/random bit patterns and literal strings against an exact-rational oracle; in-driver sweep of float bit patterns (ALL 2^32 in thorough).  non-trivial = distinct parse case or failing print",
                   nontrivial_fn=nontrivial, extra_judge=extra_judge)
    # width independence observed directly on the implementation
    for a, n in groups:
        outs = set(N.norm(x) for x in oi[a:a + n])
        if len(outs) > 1 and len(res["failing"]) < 20:
            res["failing"].append(dict(driver="num", case=cases[a], implementation=" / ".join(N.norm(x) for x in oi[a:a + n]),
                                       model=" / ".join(om[a:a + n]), judge="FAIL",
                                       why="the same text gives different results in the four string widths: " + " ; ".join(cases[a:a + n])))
    notes = ["float half: correspondence against an exact-rational oracle only (no Coq model of libstdc++'s floating to_chars/from_chars)"]
    total, ffail = fp_sweep(vlib, impl, ctx["tier"], notes)
    res["evaluations"] += total
    res["classes"]["sweepfp (in-driver float text check)"] = total
    res["failing"] += ffail[:10]
    res["notes"] = notes
    res["explanation"] = EXPLANATION
    return res


def replay(rp, vlib):
    return N.replay(rp, vlib, extra_judge)
