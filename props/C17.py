"""C17 — validation reports exactly the failing fields and rules, after a full load."""
import arch_common as A

LEVEL = "proof"
TRUSTED_BASE = [
    "Coq 8.16.1 kernel incl. vm_compute (used only for the _refuted witness and the Examples); no native_compute",
    "axioms: none (every T_C17_* theorem prints 'Closed under the global context')",
    "hand-written Gallina model coq/ArchModel.v part 2 of validators.h, key_value_proxy.h (VisitArgs), serialization_context.h (AddValidationError / OnFinishSerialization), LoadObject; field values are loaded by the container model of part 1; tied to /repo by this correspondence run on RapidJSON, MsgPack, CSV and pugixml (XML) archives",
    "GetPath() of the scopes is modelled as parent path + '/' + key, array elements numbered from 1 (RapidJSON, MsgPack) or 0 (CSV row index); XML (xml_arch): pugi::xml_node::path(), i.e. '/' + root element name, then element names WITHOUT indices - items of one array share their path (T_C17_xml_*)",
    "XML documents are restricted to what the archive can carry and the model decides: member keys that are element names, canonical numeric text (scalar roots included since finding A01 was repaired by /repo b0f5582); element names of non-members follow the writer's convention value / array / object (xml_names)",
    "extraction: ExtrOcamlBasic only; N/Z/positive/nat stay extracted inductives",
    "trusted glue: coq/ArchCodec.v (class catalogue, value printing), ml/glue.ml, ml/arch_driver.ml, harness/drv_arch.cpp (C++ twin of the class catalogue, document encoders), harness/common.h, props/arch_common.py",
    "XML attributes (AttributeValue members) are written in documents as members keyed '@name'; their path is the path of a child element of the same name (GetPath() of the attribute scope is the element's path)",
    "Email and PhoneNumber are mirrored for the correspondence and opaque in the theorems (the property fixes no semantics for them)",
]
ASSUMPTIONS = [
    "object documents have distinct keys",
    "validators are pure functions of (value, loaded)",
    "the std::map of errors is observed through its iteration order (sorted by path); the model keeps first-insertion order and the drivers sort",
    "the state of the target object after an early ValidationException (maxValidationErrors > 0) is not modelled",
]


def classify(line, out):
    f = line.split(" ")
    oc = out.split(" ")[0]
    if oc == "VAL":
        m, _ = A.parse_val(out)
        oc = "VAL(%s paths)" % (len(m) if len(m) < 4 else "4+")
    cap = "max=0" if f[3] == "0" else "max>0"
    return ["%s %s -> %s" % (A.CLASS_NAMES[int(f[2])], cap, oc), "%s max=%s -> %s" % (f[1], f[3], out.split(" ")[0])]


def run(ctx, vlib):
    impl, model = A.drivers(vlib)
    rng = ctx["rng"]
    corpus = A.load_corpus("C17")
    cases = corpus + A.gen_validate(rng, ctx["tier"])
    oi = vlib.run_driver(impl, cases)
    om = vlib.run_driver(model, cases)
    failing, diffs, classes = [], [], {}
    seen, nt = set(), 0
    # the F32 class of every case, decided by the extracted class predicate of T_C17_capped_outside (truncated)
    cls = A.class_of(vlib, model, cases)
    for c in cls:
        key = "F32 class (truncated): %s" % c
        classes[key] = classes.get(key, 0) + 1
    for i, line in enumerate(cases):
        for key in classify(line, om[i]):
            classes[key] = classes.get(key, 0) + 1
        if line not in seen:
            seen.add(line)
            if not om[i].startswith("OK"):
                nt += 1
        if oi[i] != om[i]:
            verdict, why = A.judge_c17(line, oi[i], {"IN": True, "OUT": False}.get(cls[i]))
            if cls[i] == "IN":
                why = "inside the F32 class (truncated) the implementation no longer answers as recorded; the property predicate says %s: %s" % (verdict, why)
                verdict = "KNOWN-FINDING-CHANGED"
            rec = dict(driver="arch", case=line, implementation=oi[i], model=om[i], judge=verdict, why=why, defect_class=cls[i])
            if verdict == "FAIL" and len(failing) < 20:
                failing.append(rec)
            elif len(diffs) < 20:
                diffs.append(rec)
    # MsgPack, JSON and XML through std::istream must report exactly what the memory load reports
    n_stream = A.stream_vs_memory(vlib, impl, cases, oi, om, failing)
    known_lines, known_cases = A.known_findings("C17", vlib, impl, model)
    diffs += A.STALE_KNOWN
    failing = [f for f in failing if f["case"] not in known_cases]
    samples = [dict(case=cases[i], implementation=oi[i], model=om[i]) for i in range(0, min(len(cases), 4))]
    return dict(evaluations=len(cases) + n_stream, distinct_nontrivial=nt, samples=samples, classes=classes, failing=failing,
                diffs=diffs, known_lines=known_lines, exhaustive=False,
                rule="12 validated classes (two of them XML only: members serialized with AttributeValue, also inside array items; flat, several failing rules per field, Email/PhoneNumber/lambda, nested, inside vector, inside map, same key twice, five-field for the caps, root array incl. CSV, nested-in-array-in-class) x random documents putting every field in {valid, at / just inside / just outside each Range, MinSize, MaxSize bound, absent, null, wrong type} x maxValidationErrors in {0,1,2,3,100} x {JSON, MsgPack, XML, CSV for the root array} x policies; plus the one-field-at-a-time bound neighbourhoods of the two flat classes; every MsgPack / JSON / XML case a second time through std::istream (implementation only, must equal the memory load); non-trivial = distinct case whose outcome is a ValidationException or another exception",
                broken="correspondence arch model (ArchModel.v part 2) vs validators.h/key_value_proxy.h/serialization_context.h (drv_arch validate)")


def replay(rp, vlib):
    impl, model = A.drivers(vlib)
    line = rp["case"]
    a = vlib.run_driver(impl, [line], jobs=1)[0]
    b = vlib.run_driver(model, [line], jobs=1)[0]
    v, why = A.judge_c17(line, a)
    return dict(case=line, implementation=a, model=b, judge=v, why=why)
