"""C18 — loading into a populated target gives the same result as loading into a fresh one."""
import arch_common as A

LEVEL = "proof"
TRUSTED_BASE = [
    "Coq 8.16.1 kernel incl. vm_compute (used only for the _refuted witnesses and the Examples); no native_compute",
    "axioms: none (every T_C18_* theorem prints 'Closed under the global context')",
    "hand-written Gallina model coq/ArchModel.v part 1 of generic_container.h, generic_set.h, generic_map.h, SerializeFixedSizeArray, types/std/{vector,forward_list,valarray,queue,stack,bitset,optional,memory,pair}.h, tied to /repo by this correspondence run on RapidJSON, MsgPack, CSV and pugixml (XML) archives",
    "XML is the instance xml_arch of the model: text leaves converted per target type, a child-less element opens as an empty scope, members = items (named value / array / object by the encoder, as by the library's writer); documents restricted to element-name keys, canonical numeric text (scalar roots included since A01 was repaired by /repo b0f5582)",
    "archive abstraction: an array scope delivers its element documents one per Serialize call and reports an estimated size; an object scope delivers its keys and loads by key (first member with that key)",
    "extraction: ExtrOcamlBasic only; N/Z/positive/nat stay extracted inductives",
    "trusted glue: coq/ArchCodec.v (value syntax <-> typed values, catalogue), ml/glue.ml, ml/arch_driver.ml, harness/drv_arch.cpp (document encoders for JSON/MsgPack/CSV/XML, value builders/printers), harness/common.h, props/arch_common.py",
    "modelled, not verified: std::vector/deque/list::resize, forward_list::emplace_after, std::map::try_emplace/find/operator[], set::insert with hint, priority_queue observed through its underlying container",
]
ASSUMPTIONS = [
    "object documents have distinct keys (lookup by key = first member with that key)",
    "string -> number conversion of object keys, CSV cells and XML text is exercised on canonical decimal text and on clearly non-numeric text only (the rest is the num family's subject)",
    "integers in documents are below 2^62 in magnitude",
]


def classify(line, out):
    f = line.split(" ")
    t = A.TYPES[int(f[2])]
    kind = t[1] if t[0] == "seq" else t[0]
    oc = "ok" if out.startswith("OK") else out.split(" ")[0]
    return "%s %s mode=%s -> %s" % (f[1], kind, f[3], oc)


def run(ctx, vlib):
    impl, model = A.drivers(vlib)
    rng = ctx["rng"]
    corpus = A.load_corpus("C18")
    cases = corpus + A.gen_popload(rng, ctx["tier"])
    oi = vlib.run_driver(impl, cases)
    om = vlib.run_driver(model, cases)
    failing, diffs, classes = [], [], {}
    seen, nt = set(), 0
    diff_idx = [i for i in range(len(cases)) if oi[i] != om[i]]
    fresh = {}
    # the F36 class of every case, decided by the extracted class predicate of T_C18_all_types_outside (has_unloaded)
    cls = A.class_of(vlib, model, cases)
    for c in cls:
        key = "F36 class (has_unloaded): %s" % c
        classes[key] = classes.get(key, 0) + 1
    if diff_idx:
        sub = diff_idx[:400]
        fo = vlib.run_driver(impl, [A.c18_fresh_line(cases[i]) for i in sub])
        fresh = dict(zip(sub, fo))
    for i, line in enumerate(cases):
        key = classify(line, om[i])
        classes[key] = classes.get(key, 0) + 1
        if line not in seen:
            seen.add(line)
            f = line.split(" ")
            if f[5] != A.ser(A.c18_default(A.TYPES[int(f[2])])) or not om[i].startswith("OK"):
                nt += 1
        if oi[i] != om[i] and i in fresh:
            verdict, why = A.judge_c18(line, oi[i], fresh[i])
            if cls[i] == "IN":
                # inside the known class the model records what the code does today (stale elements kept): any other answer
                # is a change of the known finding, whether or not the new answer satisfies the property
                why = "inside the F36 class (has_unloaded) the implementation no longer answers as recorded; the property predicate says %s: %s" % (verdict, why)
                verdict = "KNOWN-FINDING-CHANGED"
            rec = dict(driver="arch", case=line, implementation=oi[i], model=om[i], fresh_target=fresh[i], judge=verdict, why=why, defect_class=cls[i])
            if verdict == "FAIL" and len(failing) < 20:
                failing.append(rec)
            elif len(diffs) < 20:
                diffs.append(rec)
    # MsgPack, JSON and XML through std::istream must give exactly what the memory load gives
    n_stream = A.stream_vs_memory(vlib, impl, cases, oi, om, failing)
    known_lines, known_cases = A.known_findings("C18", vlib, impl, model)
    diffs += A.STALE_KNOWN
    failing = [f for f in failing if f["case"] not in known_cases]
    samples = [dict(case=cases[i], implementation=oi[i], model=om[i]) for i in range(0, min(len(cases), 4))]
    return dict(evaluations=len(cases) + n_stream, distinct_nontrivial=nt, samples=samples, classes=classes, failing=failing,
                diffs=diffs, known_lines=known_lines, exhaustive=False,
                rule="every (prior size, data size) in {0..5}^2 for each of the 27 sized container types of a 44-type catalogue (vector deque list forward_list valarray queue stack priority_queue vector<bool> sets multisets maps multimaps incl. unordered, nested combinations) x {JSON, MsgPack, XML (all types that have an XML root value), CSV where the type is an array of flat objects}, once with documents whose elements all load and once with defective positions (null, wrong type, out of range, wrong array size, missing/extra/reordered members, unconvertible keys) under random policies; fixed-size arrays, bitset, optional/unique_ptr/shared_ptr, pair, scalars with random sizes; the five map types x MapLoadMode {Clean, OnlyExistKeys, UpdateKeys} x {0..5}^2 key counts with overlapping key pools; every MsgPack / JSON / XML case a second time through std::istream (implementation only, must equal the memory load); non-trivial = distinct case whose prior target is not the default-constructed one or whose outcome is an exception",
                broken="correspondence arch model (ArchModel.v part 1) vs generic_container.h/generic_map.h/generic_set.h/types/std (drv_arch popload)")


def replay(rp, vlib):
    impl, model = A.drivers(vlib)
    line = rp["case"]
    a = vlib.run_driver(impl, [line], jobs=1)[0]
    b = vlib.run_driver(model, [line], jobs=1)[0]
    fr = vlib.run_driver(impl, [A.c18_fresh_line(line)], jobs=1)[0]
    v, why = A.judge_c18(line, a, fr)
    return dict(case=line, implementation=a, model=b, fresh_target=fr, judge=v, why=why)
