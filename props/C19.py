"""C19 — independent serialisations on different threads do not interfere.

Three parts: (a) Coq theorem about interleavings of operations that share only constants (unconditional);
(b) the translator: tools/inventory.py regenerates coq/InvGenerated.v from the clang AST of the current sources at
import time of this module (i.e. before `check` builds Properties_C19.vo), so T_C19_statics_benign is re-checked
against what the code says now; (c) observation: harness/drv_threads.cpp under ThreadSanitizer."""
import os, re, subprocess
import inv_common as IC

LEVEL = "proof"     # partial, see EXPLANATION
EXPLANATION = (
    "partial: data-race freedom under real interleavings is runtime behaviour and is NOT proved. What is proved (Coq, closed "
    "under the global context): every fair interleaving of per-thread operation lists whose operations do not write the shared "
    "store gives every thread the results and private state of its sequential run (T_C19_interleaving_eq_sequential, "
    "T_C19_schedule_independent, T_C19_steps_commute), and the hypothesis is necessary (T_C19_writer_breaks_it). What ties this to "
    "the code is a translator, not a model: on every run tools/inventory.py rebuilds coq/InvGenerated.v from the clang JSON AST of "
    "all public headers and every src/**/*.cpp, and the kernel re-checks forallb benign statics = true (every object with static "
    "storage duration declared in a library file is const with thread-safe initialisation, or written only inside "
    "EnumRegistry<T>::Register, or never written by the library) and that no non-reentrant C function is called. What is only "
    "observed: ThreadSanitizer runs of T in {2,4,8} threads x seeded random mixes of 20 operation kinds (save/load in four archives, "
    "memory and stream, Convert::To for numbers/enums/chrono/UTF, validation-failing and mismatching loads, loads from shared const "
    "buffers), each compared with a sequential golden run. A new mutable static breaks the theorem; the check then searches for a "
    "TSan report or result mismatch and reports it as the failing schedule, otherwise as a broken obligation.")
TRUSTED_BASE = [
    "Coq 8.16.1 kernel incl. vm_compute (evaluates `benign` over the regenerated list); axioms: none (every T_C19_* prints 'Closed under the global context')",
    "the translator tools/inventory.py (clang++ 14 -Xclang -ast-dump=json, stream-parsed; syntactic write-site classification; trusted, cross-checked on every run by an independent textual scan for `static` declarations and exercised by the mutation self-tests)",
    "the fixed 'use' section that inventory.py appends to the all-headers translation unit (instantiates the templates that own statics)",
    "ThreadSanitizer (gcc libtsan) happens-before race detection; harness/drv_threads.cpp, harness/inv_entities.h, harness/common.h; props/C19.py, props/inv_common.py",
    "no executable model of the C++ memory model: the link between `reader` in the theorem and the library's operations is the inventory (syntactic), not a proof",
]
ASSUMPTIONS = [
    "each thread works on its own objects, buffers and streams; only DefaultOptions, the enum tables, const source objects and const input buffers are shared (the property's own precondition)",
    "EnumRegistry<T>::Register is reached only from the initialiser of the namespace-scope constant declared by REGISTER_ENUM, i.e. during static initialisation; no thread that uses the library is started from a static initialiser",
    "a user writing DefaultOptions (non-const, never written by the library) while other threads serialise is outside the property",
    "dynamic initialisation of namespace-scope constants happens before main on one thread; function-local statics are initialised thread-safely (C++11 [stmt.dcl]/4)",
    "third-party libraries (RapidJSON, pugixml, libstdc++) are covered by the TSan runs only, not by the inventory",
]

# translator step, before `check` compiles the theorems
INVENTORY = IC.maybe_regenerate()

TSAN_ENV = "halt_on_error=1 exitcode=66 second_deadlock_stack=1"


def race_summary(binary, line):
    """re-run one case alone and summarise the ThreadSanitizer report"""
    env = dict(os.environ)
    env["TSAN_OPTIONS"] = TSAN_ENV
    try:
        p = subprocess.run([binary], input=line + "\n", capture_output=True, text=True, timeout=600, env=env)
    except subprocess.TimeoutExpired:
        return "HANG", ""
    err = p.stderr
    if "ThreadSanitizer" not in err:
        return (p.stdout.strip().split("\n")[-1] if p.stdout.strip() else "CRASH(rc=%s)" % p.returncode), err[-2000:]
    kind = re.search(r"WARNING: ThreadSanitizer: ([^\n(]+)", err)
    loc = re.search(r"Location is (global|heap block|stack|thread-local)[^\n]*", err)
    frames = re.findall(r"#\d+ ([^\n]*?)(?: /|\s\(|$)", err, re.M)
    lib = [f for f in frames if "BitSerializer" in f][:2]
    summ = (kind.group(1).strip() if kind else "report")
    if loc:
        summ += "; " + loc.group(0).strip()[:160]
    if lib:
        summ += "; in " + " <- ".join(x.strip()[:120] for x in lib)
    return "RACE " + summ, err[:6000]


def run_rounds(vlib, binary, lines):
    os.environ["TSAN_OPTIONS"] = TSAN_ENV
    outs = vlib.run_driver(binary, lines, timeout=900, chunk=max(1, len(lines) // (2 * vlib.NCPU) or 1))
    res = []
    for l, o in zip(lines, outs):
        detail = ""
        if not o.startswith("OK "):
            if o.startswith("CRASH") or o.startswith("SANITIZER") or o == "TERMINATE":
                o, detail = race_summary(binary, l)
        res.append((l, o, detail))
    return res


def gen_lines(rng, tier, boost=False):
    lines = []
    if tier == "quick" and not boost:
        plan = [(2, 40, 200), (4, 40, 200), (8, 24, 200)]
    else:
        plan = [(2, 500, 400), (4, 500, 400), (8, 400, 400)] if tier != "quick" else [(2, 120, 300), (4, 120, 300), (8, 120, 300)]
    for T, rounds, nops in plan:
        for _ in range(rounds):
            lines.append("run %d %d %d" % (T, rng.randrange(1, 10 ** 9), nops))
    return lines


def text_scan_statics():
    """independent, purely textual cross-check of the translator: every line of a library file that looks like the
    declaration of a static data object must be in the inventory at that file:line"""
    import inventory
    repo = inventory.REPO
    pat = re.compile(r"^\s*(?:inline\s+)?static\s+(?:inline\s+)?(?:constexpr\s+|const\s+)*[A-Za-z_][\w:<>,\s\*&]*?[\s\*&]([A-Za-z_]\w*)\s*(?:\[[^\]]*\])?\s*(?:=|;|\{)")
    found = []
    files = [os.path.join("include", h) for h in inventory.public_headers()] + [os.path.relpath(p, repo) for p in inventory.src_cpps()]
    for top in ("src",):
        for root, dirs, fs in os.walk(os.path.join(repo, top)):
            if "testing_tools" in root:
                continue
            for f in fs:
                if f.endswith(".h"):
                    files.append(os.path.relpath(os.path.join(root, f), repo))
    for rel in sorted(set(files)):
        try:
            txt = open(os.path.join(repo, rel), errors="replace").read().split("\n")
        except OSError:
            continue
        for i, line in enumerate(txt, 1):
            if "(" in line.split("=")[0] and not re.search(r"\[\s*\w*\s*\]", line.split("=")[0]):
                continue        # a function declaration
            if line.rstrip().endswith("\\"):
                continue        # inside a macro definition
            m = pat.match(line)
            if m and "static_assert" not in line and "static_cast" not in line.split("=")[0]:
                found.append((rel, i, m.group(1)))
    return found


def run(ctx, vlib):
    inv = IC.current_inventory()
    binary = IC.build_threads(vlib)
    rng = ctx["rng"]
    notes = []
    failing, diffs = [], []
    if inv is None:
        # no fresh inventory (the translator failed, or VERIF_NO_REGEN=1): the theorems were checked against the STORED
        # coq/InvGenerated.v, which is not tied to /repo's current source - that is a broken tie, not a pass
        diffs.append(dict(driver="inventory", case="tools/inventory.py regenerate", implementation="no inventory of the current source",
                          model="coq/InvGenerated.v as stored", judge="TIE-BROKEN",
                          why="the translator did not run (%s): Properties_C19 was checked against a stale generated file" % (IC.REGEN_ERROR or "VERIF_NO_REGEN=1")))

    # ---- (b) what the inventory says, for the report (the verdict on it is the Coq theorem)
    offenders = None
    missing = []
    if inv is not None:
        offenders = IC.coq_eval("map st_name (filter (fun r => negb (benign r)) statics)")
        bad_calls = IC.coq_eval("map uc_callee (filter (fun c => str_in (uc_callee c) nonreentrant) external_calls)")
        if inv.get("errors"):
            notes.append("inventory: clang failed on %s" % ", ".join(e["label"] for e in inv["errors"]))
        # compared by (file, variable name): the textual scan does not evaluate #if, so line numbers of alternative
        # branches differ from what the compiler saw
        have = set((s["file"], s["name"].split("::")[-1]) for s in inv["statics"])
        for rel, line, name in text_scan_statics():
            if (rel, name) not in have:
                missing.append("%s:%d %s" % (rel, line, name))
        if missing:
            diffs.append(dict(driver="inventory", case="textual scan for static declarations", implementation="; ".join(missing[:10]),
                              model="every such declaration is in coq/InvGenerated.v", judge="UNKNOWN",
                              why="the translator missed a declaration that a textual scan finds: the inventory cannot be trusted"))
        if offenders:
            notes.append("non-benign statics: " + "; ".join(offenders))
        if bad_calls:
            notes.append("non-reentrant C functions called: " + "; ".join(bad_calls))
    else:
        notes.append("inventory regeneration disabled (VERIF_NO_REGEN=1): theorems checked against the stored coq/InvGenerated.v")

    # ---- (c) observation under ThreadSanitizer.  A broken obligation widens the search.
    boost = (not ctx.get("proofs_ok", True)) or bool(offenders)
    corpus = IC.load_corpus("C19")
    lines = corpus + gen_lines(rng, ctx["tier"], boost)
    # in batches, so that a tree on which every round races does not cost the whole volume
    res = []
    bad = 0
    batch = 3 * vlib.NCPU
    for i in range(0, len(lines), batch):
        part = run_rounds(vlib, binary, lines[i:i + batch])
        res += part
        bad += sum(1 for _, o, _ in part if not o.startswith("OK "))
        if bad >= 3:
            notes.append("stopped after %d of %d rounds: %d failing rounds found" % (len(res), len(lines), bad))
            break
    classes = {}
    ops_total = 0
    seen = set()
    for l, o, detail in res:
        T = l.split(" ")[1]
        key = "T=%s %s" % (T, o.split(" ")[0])
        classes[key] = classes.get(key, 0) + 1
        if o.startswith("OK "):
            ops_total += int(o.split(" ")[2])
            seen.add(o.split(" ")[3])
            continue
        why = ("ThreadSanitizer reported a race between threads that share only constants" if o.startswith("RACE")
               else "a thread's results under concurrency differ from its sequential run" if o.startswith("MISMATCH")
               else "the concurrent run did not complete")
        if len(failing) < 3:
            rec = dict(driver="threads", case=l, implementation=o, expected="OK <T> <ops> <hash> (no race, results equal to the sequential golden run)",
                       judge="FAIL", why=why, tsan_report=detail[:4000])
            if offenders:
                rec["non_benign_statics"] = offenders
            failing.append(rec)

    if offenders and not failing:
        # no failing schedule found: the replay of the broken obligation at least names the objects
        diffs.append(dict(driver="inventory", case="statics inventory of the current sources", implementation="not benign: " + "; ".join(offenders),
                          model="forallb benign statics = true (T_C19_statics_benign)", judge="UNKNOWN",
                          why="a mutable object with static storage duration that is written outside static initialisation; %d rounds under ThreadSanitizer showed no race or mismatch (the code that writes it may not be reached by the driver)" % len(res),
                          write_sites=[dict(static=s_["name"], writes=sorted(set((w[0], w[1]) for w in s_["writes"]))) for s_ in (inv["statics"] if inv else []) if s_["name"] in offenders]))
    samples = [dict(case=l, implementation=o) for l, o, _ in res[:3]]
    if inv is not None:
        nonconst = [s for s in inv["statics"] if s["constness"] == "no"]
        samples.append(dict(inventory=dict(statics=len(inv["statics"]), non_const=[s["name"] for s in nonconst], destructors=len(inv["dtors"]),
                                           translation_units=1 + len(inv["sources"]), wall_s=inv.get("wall"))))
        classes["inventory: statics const/constexpr"] = len(inv["statics"]) - len(nonconst)
        classes["inventory: statics non-const"] = len(nonconst)
        classes["inventory: external callees checked against the non-reentrant list"] = len(inv.get("external_calls", []))
    return dict(evaluations=ops_total + (len(inv["statics"]) if inv else 0), distinct_nontrivial=len(seen),
                rule="evaluations = serialisation/conversion operations executed concurrently under ThreadSanitizer and re-executed sequentially for comparison, plus the static-storage objects judged by `benign`; non-trivial = distinct (T, seed) rounds whose per-thread result lists all matched the sequential run (distinct result hashes)",
                samples=samples, classes=classes, failing=failing, diffs=diffs, known_lines=[], notes=notes,
                broken="translator cross-check (textual scan vs inventory)" if missing else "T_C19_statics_benign over the regenerated inventory",
                extra=dict(non_benign_statics=offenders, text_scan_missing=missing))


def replay(rp, vlib):
    binary = IC.build_threads(vlib)
    line = rp["case"]
    if not line.startswith("run "):
        return dict(case=line, note="not a thread-driver case")
    (l, o, detail), = run_rounds(vlib, binary, [line])
    return dict(case=line, implementation=o, expected="OK <T> <ops> <hash>", judge="HOLD" if o.startswith("OK ") else "FAIL", tsan_report=detail[:4000])
