"""C20 — every failure surfaces as a catchable exception: no terminate, no leak.

(a) Coq: propagation theorems over the Exn language, models of the two scopes whose destructors call throwing code (CSV
and MsgPack: full strength since the repairs of F18 / F17; the unguarded destructors kept as refuted variants); (b) translator: tools/inventory.py regenerates
coq/InvGenerated.v at import time of this module (before `check` builds Properties_C20.vo): T_C20_throwing_dtors pins the
set of destructors that call possibly-throwing code; (c) correspondence of the two scope models with the library
(extracted OCaml model vs harness/drv_fault.cpp) and exhaustive fault enumeration (truncation, allocation failure, stream
failure, library-detected save errors), each fault point in its own child process under ASan+LSan."""
import os, re
import inv_common as IC

LEVEL = "proof"     # partial, see EXPLANATION
EXPLANATION = (
    "partial. Proved (Coq, closed under the global context): in the exception/scope semantics of C++ (destructors run innermost "
    "first on normal and exceptional exit; an exception leaving an implicitly-noexcept destructor calls std::terminate) an exception "
    "thrown by any action at any nesting depth reaches the caller as that exception and the process is never terminated, provided no "
    "destructor on the way can throw (T_C20_propagation, T_C20_never_terminate, T_C20_err_was_thrown). For the MsgPack map load "
    "(memory reader, modelled byte subset) and for the CSV save (string writer) this holds at full strength for every input since F17 "
    "and F18 were repaired in /repo (T_C20_msgpack_never_terminates, T_C20_msgpack_propagates, T_C20_msgpack_complete_doc_ok, "
    "T_C20_csv_never_terminates, T_C20_csv_width_error_surfaces: OutOfRange exactly when a row differs in width from the first); "
    "T_C20_msgpack_unguarded_dtor_terminates and T_C20_csv_unguarded_dtor_terminates show the old destructors violating it. The two scope models are tied to the code by correspondence (extracted model vs driver on every "
    "truncation of generated maps and on random row-width lists). The translator (clang AST, regenerated every run) pins the set of "
    "destructors and of noexcept functions whose bodies call possibly-throwing code (T_C20_throwing_dtors, T_C20_noexcept_callers), so a "
    "destructor that starts calling throwing code breaks an obligation before a failing input is known. NOT proved, only observed by "
    "exhaustive fault injection in child processes under ASan+LSan: allocation failure at every operator new, stream failure at every "
    "byte, truncation at every length of representative documents in all four archives, library-detected mid-save errors; leak freedom; "
    "destructibility after failure. TERMINATE / HANG outcomes explained by the listed known findings are reported as KNOWN-FINDING "
    "(none is open: F17, F18, I37, I38, I39, I41 were found by this machinery and repaired in /repo); any other TERMINATE, HANG, LEAK or CRASH "
    "is a violation.")
TRUSTED_BASE = [
    "Coq 8.16.1 kernel incl. vm_compute; axioms: none (every T_C20_* prints 'Closed under the global context')",
    "modelled, not verified: the C++ rule that an exception leaving a destructor without noexcept(false) calls std::terminate ([except.spec], [except.terminate]) — it is the definition of `close` in coq/InvSpec.v",
    "hand-written models coq/InvModel.v of CMsgPackReadObjectScope (memory reader, fixmap/fixstr/fixint subset) and CCsvWriteObjectScope (string writer), tied to /repo by this correspondence run; extraction: ExtrOcamlBasic only",
    "the translator tools/inventory.py (clang++ 14 JSON AST): destructors with bodies and their non-noexcept callees; callees declared outside the library files are conservatively treated as possibly throwing; calls inside a try block with a catch-all handler are not counted",
    "harness/drv_fault.cpp (global operator new/delete replacement, faulty streambufs, fork per case, set_terminate handler that prints the stack, -fno-inline so that destructor frames stay visible), AddressSanitizer/LeakSanitizer/UBSan of gcc; ml/inv_driver.ml, ml/glue.ml; props/C20.py, props/inv_common.py",
]
ASSUMPTIONS = [
    "the heap is not modelled: allocation-failure and leak results are observations over the scenario catalogue (51 scenarios, among them byte containers as last member / root / elements and UTF-16 / UTF-32 encoded load streams whose characters straddle the reader's chunk boundaries), exhaustive in the fault position but not in the document; for save scenarios an output stream that refuses or throws at a byte the fault-free save writes must make SaveObject raise (a normal return is a silently truncated document)",
    "a non-noexcept callee of a destructor is treated as possibly throwing on syntactic grounds; a destructor whose callees are all noexcept is taken not to throw",
    "the stream reader of MsgPack and the stream writer of CSV are not modelled; their scopes are the same classes and are covered by the fault enumeration",
    "alignment checking of UBSan is off in the fault driver (F35, misaligned loads in the MsgPack readers, was repaired by ebf776b; the other drivers run with it on)",
]

INVENTORY = IC.maybe_regenerate()

# ---------------------------------------------------------------------------------------------- model correspondence

def fixstr(s):
    return "%02x" % (0xA0 + len(s)) + s.encode().hex()


def gen_map_doc(rng):
    n = rng.choice([0, 1, 1, 2, 2, 3, 4, 6, 15])
    out = "%02x" % (0x80 + n)
    used = set()
    for i in range(n):
        if rng.random() < 0.2:
            k = rng.randrange(0, 0x80)
            while ("i", k) in used:
                k = rng.randrange(0, 0x80)
            used.add(("i", k))
            out += "%02x" % k
        else:
            while True:
                ln = rng.choice([0, 1, 1, 2, 3, 5, 8, 31])
                k = "".join(rng.choice("abcdefghijklmnopqrstuvwxyz") for _ in range(ln))
                if k not in used and (ln > 0 or "" not in used):
                    break
            used.add(k)
            out += fixstr(k)
        if rng.random() < 0.06:
            out += fixstr("v")          # a string where an int is expected: MismatchedTypes under the default policy
        else:
            out += "%02x" % rng.choice([0, 1, 0x7F, rng.randrange(0, 0x80), 0xFF, 0xE0])
    return out


def gen_model_cases(rng, tier):
    cases = ["mpmap -", "mpmap 80", "mpmap 81", "mpmap 8f", "csvrows -", "csvrows 0", "csvrows 2,1", "csvrows 1,2", "csvrows 3,3,3"]
    ndocs = 60 if tier == "quick" else 600
    for _ in range(ndocs):
        d = gen_map_doc(rng)
        nb = len(d) // 2
        for k in range(0, nb + 1):
            cases.append("mpmap " + (d[:2 * k] if k else "-"))
        if rng.random() < 0.5:
            cases.append("mpmap " + d + "%02x" % rng.randrange(0, 0x80))      # trailing byte after a complete document
    nrand = 400 if tier == "quick" else 6000
    for _ in range(nrand):      # arbitrary in-domain byte strings
        n = rng.randrange(0, 16)
        body = "".join("%02x" % rng.choice([rng.randrange(0, 0x80), rng.randrange(0xA0, 0xC0), rng.randrange(0xE0, 0x100)]) for _ in range(rng.randrange(0, 14)))
        cases.append("mpmap %02x%s" % (0x80 + n, body))
    nrows = 150 if tier == "quick" else 1500
    for _ in range(nrows):
        w0 = rng.randrange(0, 6)
        ws = [w0] * rng.randrange(0, 6)
        if rng.random() < 0.6 and ws:
            for _ in range(rng.randrange(1, 3)):
                ws[rng.randrange(0, len(ws))] = rng.randrange(0, 6)
        cases.append("csvrows " + (",".join("%x" % w for w in ws) if ws else "-"))
    # distinct, order kept
    seen, out = set(), []
    for c in cases:
        if c not in seen:
            seen.add(c)
            out.append(c)
    return out


def norm(ans):
    return "TERMINATE" if ans.startswith("TERMINATE") else ans


# ---------------------------------------------------------------------------------------------- fault enumeration

def points(n, tier, lo=0):
    """fault positions lo..n-1: all of them when few or in the thorough tier, else both ends dense + a stride"""
    allp = list(range(lo, n))
    if tier != "quick" or len(allp) <= 96:
        return allp
    head, tail = allp[:40], allp[-24:]
    mid = allp[40:-24]
    step = max(1, len(mid) // 32)
    return sorted(set(head + tail + mid[::step]))


def axes_of(counts):
    """(scenario, axis, lo, n) for every fault axis that applies"""
    r = []
    for name, kind, (ln, allocs, sbytes, plain) in counts:
        if "l" in kind:
            r.append((name, "trunc", 0, ln))
        r.append((name, "alloc", 1, allocs + 1))
        if kind.endswith("s"):
            r.append((name, "sfail", 0, sbytes))
            r.append((name, "sthrow", 0, sbytes))
    return r


def probe_lines(counts):
    """first / middle / last position of every axis: decides whether an axis hangs (each hanging point costs the
    child's alarm time, so the quick tier then samples that axis sparsely)"""
    lines = []
    for name, ax, lo, n in axes_of(counts):
        if n > lo:
            for k in sorted(set([lo, (lo + n - 1) // 2, n - 1])):
                lines.append("scen %s %s %d" % (name, ax, k))
    return lines


def fault_lines(counts, tier, hanging=()):
    lines = []
    for name, kind, _ in counts:
        lines.append("scen %s plain" % name)
    for name, ax, lo, n in axes_of(counts):
        pts = points(n, tier, lo)
        if (name, ax) in hanging and tier == "quick":
            pts = pts[::max(1, len(pts) // 6)]
        lines += ["scen %s %s %d" % (name, ax, k) for k in pts]
    return lines


ACCEPT = re.compile(r"^(OK|EXC\([A-Za-z_]+\))$")


def explain(known, line, ans):
    """id of the known finding that explains a TERMINATE answer, or None"""
    for k in known:
        cov = k.get("covers")
        if cov and re.search(cov, ans) and re.search(k.get("scenarios", ".*"), line):
            return k["id"]
    return None


def one_pass(vlib, impl, model, rng, tier, known, classes):
    """model correspondence + fault enumeration at the volume of `tier`"""
    failing, diffs = [], []
    # ---- (c1) the scope models against the library
    corpus = IC.load_corpus("C20")
    cases = corpus + gen_model_cases(rng, tier)
    cases = [c for c in cases if c.startswith(("mpmap ", "csvrows "))]
    oi = vlib.run_driver(impl, cases, timeout=900)
    om = vlib.run_driver(model, cases)
    nontrivial = set()
    for c, a, b in zip(cases, oi, om):
        key = "model %s %s" % (c.split(" ")[0], b)
        classes[key] = classes.get(key, 0) + 1
        if b == "UNMODELLED":
            continue
        if b != "OK":
            nontrivial.add(c)
        if norm(a) != b:
            rec = dict(driver="fault", case=c, implementation=a, model=b)
            if a.startswith(("LEAK", "CRASH", "HANG")) or (a.startswith("TERMINATE") and not explain(known, c, a)):
                rec.update(judge="FAIL", why="the implementation ends in %s where the property demands a catchable exception" % a.split("(")[0],
                           expected="OK or EXC(<category>)")
                failing.append(rec)
            else:
                rec.update(judge="UNKNOWN", why="scope model and library disagree; both outcomes are allowed by C20")
                diffs.append(rec)

    # ---- (c2) fault enumeration over the scenario catalogue
    listing = vlib.run_driver(impl, ["list"], jobs=1)[0].split(" ")
    scen = [tuple(x.split(":")) for x in listing if ":" in x]
    cl = vlib.run_driver(impl, ["scen %s count" % n for n, _ in scen], timeout=900)
    counts = []
    for (n, kind), ans in zip(scen, cl):
        f = ans.split(" ")
        if f[0] == "N":
            counts.append((n, kind, (int(f[1]), int(f[2]), int(f[3]), f[4])))
        else:
            # the scenario does not even complete without an injected fault (e.g. the CSV ragged-rows save terminates):
            # it still gets its plain run and, through it, its verdict; allocation points cannot be counted
            counts.append((n, kind, (0, 0, 0, ans)))
    pl = probe_lines(counts)
    po = dict(zip(pl, vlib.run_driver(impl, pl, timeout=1800, chunk=4)))
    hang_votes = {}
    for l, a in po.items():
        t = l.split(" ")
        if a == "HANG":
            hang_votes[(t[1], t[2])] = hang_votes.get((t[1], t[2]), 0) + 1
    hanging = set(k for k, v in hang_votes.items() if v >= 2)
    flines = [l for l in fault_lines(counts, tier, hanging) if l not in po]
    flines += [c for c in corpus if c.startswith("scen ") and c not in po and c not in flines]
    fo = vlib.run_driver(impl, flines, timeout=1800, chunk=max(4, len(flines) // (4 * vlib.NCPU)))
    flines = pl + flines
    fo = [po[l] for l in pl] + fo
    term_by = {}
    written = dict((n, (kind, c[2], c[3])) for n, kind, c in counts)      # scenario -> (kind, bytes the fault-free save writes, its answer)
    for l, a in zip(flines, fo):
        t = l.split(" ")
        ax = t[2]
        key = "%s %s" % (ax, a.split("(")[0] if not a.startswith("EXC") else "EXC")
        classes[key] = classes.get(key, 0) + 1
        if ACCEPT.match(a) or a == "NA":
            # MessagePack is prefix-free: a strict prefix that loads is a failure of the stated property
            if ax == "trunc" and a == "OK" and t[1].startswith("mp_"):
                failing.append(dict(driver="fault", case=l, implementation=a, expected="EXC(<category>): every strict prefix of a MessagePack document must be rejected",
                                    judge="FAIL", why="a strict prefix of a MessagePack document was loaded without an error"))
            # an output stream that refuses (or throws at) a byte the save does write: returning normally is a silently truncated document
            kind, sbytes, plain = written.get(t[1], ("", 0, ""))
            if ax in ("sfail", "sthrow") and a == "OK" and kind == "ss" and plain == "OK" and len(t) >= 4 and int(t[3]) < sbytes:
                failing.append(dict(driver="fault", case=l, implementation=a,
                                    expected="EXC(<category>): the stream refused byte %s of the %d the save writes" % (t[3], sbytes), judge="FAIL",
                                    why="the output stream failed at byte %s and SaveObject returned normally: the failure did not reach the caller" % t[3]))
            continue
        kid = explain(known, l, a) if a.startswith(("TERMINATE", "HANG")) else None
        if kid:
            term_by.setdefault(kid, []).append((l, a))
            continue
        failing.append(dict(driver="fault", case=l, implementation=a, expected="OK or EXC(<category>)", judge="FAIL",
                            why="%s at this fault point: the failure does not reach the caller as a catchable exception%s" % (
                                a.split("(")[0], "" if a.startswith("TERMINATE") else " / memory is leaked or corrupted")))
    return dict(cases=cases, oi=oi, om=om, flines=flines, fo=fo, failing=failing, diffs=diffs, nontrivial=nontrivial,
                term_by=term_by, scenarios=len(scen))


def run(ctx, vlib):
    inv = IC.current_inventory()
    impl = IC.build_fault(vlib)
    model = vlib.build_model("inv")
    rng = ctx["rng"]
    notes, known_lines = [], []
    classes = {}
    known = IC.load_known(vlib, "C20")

    # ---- what the inventory says (names for the report; the verdict is T_C20_throwing_dtors / T_C20_noexcept_callers)
    new_dtors = None
    new_noexcept = None
    if inv is not None:
        exp = IC.expected_throwing_dtors() or []
        cur = [(d["name"], d["callees"]) for d in inv["dtors"] if d["callees"] or d["noexcept_false"]]
        new_dtors = ["%s -> %s" % (n, ", ".join(c)) for (n, c) in cur if (n, c) not in exp]
        gone = ["%s" % n for (n, c) in exp if (n, c) not in cur]
        if new_dtors:
            notes.append("destructors calling possibly-throwing code that are not in the expected list: " + "; ".join(new_dtors))
        if gone:
            notes.append("expected throwing destructors no longer found (rename or repair): " + "; ".join(gone))
        expn = IC.coq_eval("expected_noexcept_callers", "InvSpec") or []
        new_noexcept = ["%s -> %s" % (d["name"], ", ".join(d["callees"])) for d in inv.get("noexcept_fns", []) if d["name"] not in expn]
        if new_noexcept:
            notes.append("noexcept functions calling possibly-throwing code that are not in the expected list: " + "; ".join(new_noexcept))
        if inv.get("errors"):
            notes.append("inventory: clang failed on %s" % ", ".join(e["label"] for e in inv["errors"]))
        classes["inventory: noexcept functions with a body"] = inv.get("noexcept_fn_count", 0)
        classes["inventory: noexcept functions calling non-noexcept code"] = len(inv.get("noexcept_fns", []))
        classes["inventory: destructors with a body"] = len(inv["dtors"])
        classes["inventory: destructors calling non-noexcept code"] = len(cur)
    else:
        notes.append("inventory regeneration disabled (VERIF_NO_REGEN=1)")

    tier = ctx["tier"]
    r = one_pass(vlib, impl, model, rng, tier, known, classes)
    broken_obligation = (not ctx.get("proofs_ok", True)) or bool(new_dtors) or bool(new_noexcept)
    if broken_obligation and not r["failing"] and tier == "quick":
        # an obligation no longer checks and the quick volume shows no failing input: search at thorough volume
        notes.append("proof/translator obligation broken and no failing input at quick volume: searched at thorough volume")
        tier = "thorough"
        classes = {k: v for k, v in classes.items() if k.startswith("inventory")}
        r = one_pass(vlib, impl, model, rng, tier, known, classes)
    cases, oi, om, flines, fo = r["cases"], r["oi"], r["om"], r["flines"], r["fo"]
    term_by = r["term_by"]
    # the shortest failing inputs make the best replays
    failing = sorted(r["failing"], key=lambda f: (len(f["case"]), f["case"]))[:3]
    diffs = r["diffs"][:20]
    if inv is None:
        # no fresh inventory (the translator failed, or VERIF_NO_REGEN=1): a broken tie, not a pass
        diffs.append(dict(driver="inventory", case="tools/inventory.py regenerate", implementation="no inventory of the current source",
                          model="coq/InvGenerated.v as stored", judge="TIE-BROKEN",
                          why="the translator did not run (%s): Properties_C20 was checked against a stale generated file" % (IC.REGEN_ERROR or "VERIF_NO_REGEN=1")))

    # ---- known findings: witness replay.  A case ending in " *" is an axis: some position of it (all of them were
    # enumerated above) must show the listed answer — used where the position depends on the allocator's behaviour.
    if known:
        fixed_cases = [k["case"] for k in known if not k["case"].endswith(" *")]
        outs = dict(zip(fixed_cases, vlib.run_driver(impl, fixed_cases, jobs=1))) if fixed_cases else {}
        fault_res = dict(zip(flines, fo))
        for k in known:
            if k["case"].endswith(" *"):
                pre = k["case"][:-1]
                hits = [l for l, a in fault_res.items() if l.startswith(pre) and a == k["implementation"]]
                o = k["implementation"] if hits else "no position of this axis ends that way"
                shown = hits[0] if hits else k["case"]
            else:
                o = outs.get(k["case"], "?")
                shown = k["case"]
            if o == k["implementation"]:
                extra = len(term_by.get(k["id"], []))
                known_lines.append("%s: %s [case: %s -> %s]%s" % (k["id"], k["what"], shown, o,
                                   " (+%d fault points of this run end the same way)" % extra if extra else ""))
            else:
                diffs.append(dict(driver="fault", case=k["case"], implementation=o, model=k["implementation"], judge="UNKNOWN",
                                  why="the witness of known finding %s no longer reproduces" % k["id"]))

    if (new_dtors or new_noexcept) and not failing:
        diffs.append(dict(driver="inventory", case="destructor / noexcept inventory of the current sources",
                          implementation="not in the expected lists: " + "; ".join((new_dtors or []) + (new_noexcept or [])),
                          model="T_C20_throwing_dtors / T_C20_noexcept_callers", judge="UNKNOWN",
                          why="a destructor or noexcept function started calling possibly-throwing code; no fault point of the %s enumeration makes it throw" % tier))
    samples = [dict(case=c, implementation=a, model=b) for c, a, b in list(zip(cases, oi, om))[2:5]]
    samples += [dict(case=l, implementation=a) for l, a in list(zip(flines, fo))[:3]]
    if inv is not None:
        samples.append(dict(inventory=[dict(destructor=d["name"], callees=d["callees"]) for d in inv["dtors"] if d["callees"]]))
    nt_fault = sum(1 for a in fo if a != "OK" and a != "NA")
    return dict(evaluations=len(cases) + len(flines), distinct_nontrivial=len(r["nontrivial"]) + nt_fault,
                rule="evaluations = model-comparable cases (every truncation of generated {fixstr|fixint -> fixint} MsgPack maps, random in-domain byte strings, random CSV row-width lists) + fault points (scenario x axis x position, each in its own child process); non-trivial = distinct cases on which the outcome is not plain success",
                samples=samples, classes=classes, failing=failing, diffs=diffs, known_lines=known_lines, notes=notes,
                broken="correspondence of the scope models (coq/InvModel.v) with the library (drv_fault)",
                extra=dict(new_throwing_dtors=new_dtors, new_noexcept_callers=new_noexcept, scenarios=r["scenarios"], tier_used=tier,
                           failing_total=len(r["failing"]),
                           terminate_points_explained={k: len(v) for k, v in term_by.items()}))


def replay(rp, vlib):
    impl = IC.build_fault(vlib)
    line = rp["case"]
    a = vlib.run_driver(impl, [line], jobs=1)[0]
    res = dict(case=line, implementation=a, expected=rp.get("expected", "OK or EXC(<category>)"))
    if line.startswith(("mpmap ", "csvrows ")):
        model = vlib.build_model("inv")
        res["model"] = vlib.run_driver(model, [line], jobs=1)[0]
    res["judge"] = "HOLD" if ACCEPT.match(a) else "FAIL"
    return res
