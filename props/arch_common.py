"""Shared pieces of the arch checks (C17 validation, C18 loading into populated targets): drivers,
the value/document syntax, python mirrors of the two driver catalogues (only what the generators
and the property judges need), case generators, and an independent executable reading of the
property predicates (used only to classify a model/implementation disagreement)."""
import os

# F12 (MsgPack array scope did not advance its index when an element was skipped, C05) was fixed in
# /repo by 19b4852; before that an array element that "fails to load without throwing" desynchronised
# the MsgPack reader, which is outside the abstraction of the arch model (every Serialize consumes
# exactly one element document), and such documents were generated for JSON/CSV only.  Set to False
# to restrict the MsgPack generators again.
MSGPACK_ARRAY_ELEMENT_MAY_SKIP = True

INT_MIN, INT_MAX = -2147483648, 2147483647


def drivers(vlib):
    # full ASan+UBSan incl. the alignment check (F35, misaligned reads of the MsgPack reader, was fixed by ebf776b)
    impl = vlib.build_cpp("drv_arch", ["drv_arch.cpp"] + vlib.repo_sources("src/msgpack/*.cpp", "src/csv/*.cpp", "src/common/*.cpp"),
                          libs=["-lpugixml"])
    model = vlib.build_model("arch")
    return impl, model


# ------------------------------------------------------------------ value / document syntax

class M(list):
    """a map / object: list of (key, value) pairs, keys int or str"""
    pass


def ser(x):
    if x is None:
        return "n"
    if x is True:
        return "t"
    if x is False:
        return "f"
    if isinstance(x, int):
        return "i%d" % x
    if isinstance(x, str):
        return "s" + x.encode("latin-1").hex()
    if isinstance(x, M):
        return "{" + ",".join(ser(k) + ":" + ser(v) for k, v in x) + "}"
    if isinstance(x, list):
        return "[" + ",".join(ser(e) for e in x) + "]"
    raise ValueError(x)


def parse(s):
    pos = [0]

    def peek():
        return s[pos[0]] if pos[0] < len(s) else ""

    def value():
        c = peek()
        if c == "n":
            pos[0] += 1
            return None
        if c == "t":
            pos[0] += 1
            return True
        if c == "f":
            pos[0] += 1
            return False
        if c == "i":
            pos[0] += 1
            st = pos[0]
            if peek() == "-":
                pos[0] += 1
            while peek().isdigit():
                pos[0] += 1
            return int(s[st:pos[0]])
        if c == "s":
            pos[0] += 1
            st = pos[0]
            while peek() != "" and peek() in "0123456789abcdef":
                pos[0] += 1
            return bytes.fromhex(s[st:pos[0]]).decode("latin-1")
        if c == "[":
            pos[0] += 1
            r = []
            if peek() == "]":
                pos[0] += 1
                return r
            r.append(value())
            while peek() == ",":
                pos[0] += 1
                r.append(value())
            assert peek() == "]"
            pos[0] += 1
            return r
        if c == "{":
            pos[0] += 1
            r = M()
            if peek() == "}":
                pos[0] += 1
                return r
            while True:
                k = value()
                assert peek() == ":"
                pos[0] += 1
                r.append((k, value()))
                if peek() == ",":
                    pos[0] += 1
                    continue
                break
            assert peek() == "}"
            pos[0] += 1
            return r
        raise ValueError("syntax at %d in %s" % (pos[0], s))

    v = value()
    if pos[0] != len(s):
        raise ValueError("trailing")
    return v


# ------------------------------------------------------------------ C18: type catalogue (mirror of type_catalogue)

I, B, S = ("int",), ("bool",), ("str",)


def seq(kind, e):
    return ("seq", kind, e)


TYPES = [
    seq("vector", I), seq("deque", I), seq("list", I), seq("fwd", I), seq("valarray", I),
    seq("queue", I), seq("stack", I), seq("pqueue", I),
    ("vbool",), ("arr", 3, I), ("bitset", 4),
    ("set", False, "int"), ("set", True, "int"), ("set", False, "str"), ("set", True, "str"),
    ("map", "int", I), ("map", "int", I), ("map", "str", I),
    ("mmap", "int", I), ("mmap", "str", I),
    ("ptr", I), ("ptr", I), ("ptr", I),
    seq("vector", S), seq("vector", seq("vector", I)), seq("vector", ("ptr", I)),
    seq("vector", ("map", "str", I)), ("map", "str", seq("vector", I)), ("ptr", seq("vector", I)),
    seq("vector", ("pair", I, I)), seq("list", ("pair", I, I)), seq("deque", ("pair", I, I)), seq("fwd", ("pair", I, I)),
    ("arr", 2, seq("vector", I)), seq("vector", ("arr", 2, I)), ("pair", I, seq("vector", I)),
    ("map", "int", ("map", "int", I)), seq("vector", ("ptr", seq("vector", I))), ("arr", 3, I),
    seq("deque", seq("list", S)), S, I, seq("vector", ("vbool",)), seq("list", ("set", False, "str")),
]
TYPE_NAMES = [
    "vector<int>", "deque<int>", "list<int>", "forward_list<int>", "valarray<int>", "queue<int>", "stack<int>",
    "priority_queue<int>", "vector<bool>", "array<int,3>", "bitset<4>", "set<int>", "multiset<int>",
    "unordered_set<string>", "unordered_multiset<string>", "map<int,int>", "unordered_map<int,int>", "map<string,int>",
    "multimap<int,int>", "unordered_multimap<string,int>", "optional<int>", "unique_ptr<int>", "shared_ptr<int>",
    "vector<string>", "vector<vector<int>>", "vector<optional<int>>", "vector<map<string,int>>",
    "map<string,vector<int>>", "optional<vector<int>>", "vector<pair<int,int>>", "list<pair<int,int>>",
    "deque<pair<int,int>>", "forward_list<pair<int,int>>", "array<vector<int>,2>", "vector<array<int,2>>",
    "pair<int,vector<int>>", "map<int,map<int,int>>", "vector<unique_ptr<vector<int>>>", "int[3]",
    "deque<list<string>>", "string", "int", "vector<vector<bool>>", "list<set<string>>",
]
CSV_TYPES = [18, 29, 30, 31, 32]
MAP_TYPES = [15, 16, 17, 27, 36]
SIZED = [i for i, t in enumerate(TYPES) if t[0] in ("seq", "vbool", "set", "map", "mmap")]

WORDS = ["", "a", "b", "bc", "xyz", "hello", "k1", "k2", "Zq", "w w"]
KEYWORDS = ["a", "b", "c", "d", "e", "k1", "k2", "zz"]


def rint(rng):
    return rng.choice([0, 1, -1, 2, 3, 5, 7, 9, 42, -17, 100, 255, 256, 65536, INT_MIN, INT_MAX, rng.randrange(-1000, 1000)])


def gen_key(kt, rng):
    return rng.randrange(-3, 12) if kt == "int" else rng.choice(KEYWORDS)


def gen_value(t, rng, n=None):
    """a well-typed value of catalogue type t (the prior content of the target); n = top-level size"""
    k = t[0]
    if k == "int":
        return rint(rng)
    if k == "bool":
        return rng.random() < 0.5
    if k == "str":
        return rng.choice(WORDS)
    if n is None:
        n = rng.choice([0, 1, 2, 3, 5])
    if k == "seq":
        return [gen_value(t[2], rng) for _ in range(n)]
    if k == "vbool":
        return [rng.random() < 0.5 for _ in range(n)]
    if k == "arr":
        return [gen_value(t[2], rng) for _ in range(t[1])]
    if k == "bitset":
        return [rng.random() < 0.5 for _ in range(t[1])]
    if k == "set":
        if t[1]:
            return [gen_key(t[2], rng) for _ in range(n)]
        pool = list(range(-3, 12)) if t[2] == "int" else list(KEYWORDS)
        rng.shuffle(pool)
        return pool[:n]
    if k == "map":
        pool = list(range(-3, 12)) if t[1] == "int" else list(KEYWORDS)
        rng.shuffle(pool)
        return M((key, gen_value(t[2], rng)) for key in pool[:n])
    if k == "mmap":
        return M((gen_key(t[1], rng), gen_value(t[2], rng)) for _ in range(n))
    if k == "ptr":
        return None if (n == 0 or rng.random() < 0.3) else gen_value(t[1], rng)
    if k == "pair":
        return [gen_value(t[1], rng), gen_value(t[2], rng)]
    raise ValueError(t)


class Ctx:
    def __init__(self, arch, pol, bad):
        self.arch, self.pol, self.bad = arch, pol, bad


def bad_scalar(kind, rng, ctx, strict):
    """a document that does not load into a scalar of the given kind; strict = it must throw
    (positions where 'not loaded without an exception' is outside the model: F12 / uninitialised set element)"""
    opts = []
    mism = {"int": ["x", "", [], M()], "bool": ["x", [], M()], "str": [5, True, [], M()]}[kind]
    over = {"int": [INT_MAX + 1, INT_MIN - 1, 2 ** 40, -(2 ** 40)], "bool": [2, -1, 300], "str": []}[kind]
    if not strict or ctx.pol[0] == "T":
        opts += mism
    if over and (not strict or ctx.pol[1] == "T"):
        opts += over
    if not strict:
        opts += [None, None]
    elif kind == "str" and ctx.arch == "json" and ctx.pol[0] == "T":
        opts += [None]           # RapidJSON: null into a string is a mismatched type
    return rng.choice(opts) if opts else None


def good_scalar(kind, rng):
    if kind == "int":
        return rng.choice([rint(rng), rint(rng), rint(rng), True, False])
    if kind == "bool":
        return rng.choice([True, False, True, False, 0, 1])
    return rng.choice(WORDS)


def gen_doc(t, rng, ctx, n=None, strict=False):
    """a document aimed at catalogue type t; each position is defective with probability ctx.bad.
    strict: a value at this position must load or throw (see bad_scalar)"""
    k = t[0]
    bad = rng.random() < ctx.bad
    if k in ("int", "bool", "str"):
        if bad:
            b = bad_scalar(k, rng, ctx, strict)
            if b is not None or not strict:
                return b
        return good_scalar(k, rng)
    if n is None:
        n = rng.choice([0, 1, 2, 3, 5])
    if bad and rng.random() < 0.35:
        # the whole container position holds something else
        if strict:
            if ctx.pol[0] == "T":
                return rng.choice([5, "x", M() if k not in ("map", "pair") else []] + ([None] if ctx.arch != "mp" else []))
        else:
            return rng.choice([None, 5, "x", M() if k not in ("map", "pair") else []])
    elem_strict = (ctx.arch == "mp" and not MSGPACK_ARRAY_ELEMENT_MAY_SKIP)
    if k == "seq":
        return [gen_doc(t[2], rng, ctx, strict=elem_strict) for _ in range(n)]
    if k == "vbool":
        return [gen_doc(B, rng, ctx, strict=elem_strict) for _ in range(n)]
    if k == "arr":
        m = t[1] + (rng.choice([-1, 1, 2]) if bad else 0)
        return [gen_doc(t[2], rng, ctx, strict=elem_strict) for _ in range(max(0, m))]
    if k == "bitset":
        m = t[1] + (rng.choice([-1, 1]) if bad else 0)
        return [gen_doc(B, rng, ctx, strict=elem_strict) for _ in range(max(0, m))]
    if k == "set":
        return [gen_doc((t[2],), rng, ctx, strict=elem_strict) for _ in range(n)]
    if k == "map":
        keys = []
        pool = list(range(-3, 12)) if t[1] == "int" else list(KEYWORDS)
        rng.shuffle(pool)
        for key in pool[:n]:
            if rng.random() < ctx.bad:
                key = rng.choice(["x", "", INT_MAX + 1, "9999999999"]) if t[1] == "int" else rng.choice([5, -1, ""])
                if ctx.arch != "mp" and isinstance(key, int):
                    key = str(key)
            keys.append(key)
        seen, out = set(), M()
        for key in keys:
            if key in seen:
                continue
            seen.add(key)
            out.append((key, gen_doc(t[2], rng, ctx)))
        if out and ctx.arch in DUPLICATE_KEY_ARCHS and rng.random() < 0.12:
            # a key that occurs twice in the document (JSON / XML: the object scope answers every request for it with
            # the FIRST member of that name, and VisitKeys enumerates it twice)
            out.insert(rng.randrange(len(out) + 1), (rng.choice(out)[0], gen_doc(t[2], rng, ctx)))
        return out
    if k == "mmap":
        rows = []
        for _ in range(n):
            rows.append(gen_pair_doc((t[1],), t[2], rng, ctx, elem_strict))
        return rows
    if k == "ptr":
        if rng.random() < 0.25 and not strict:
            return None
        return gen_doc(t[1], rng, ctx, strict=strict)
    if k == "pair":
        return gen_pair_doc(t[1], t[2], rng, ctx, strict)
    raise ValueError(t)


def gen_pair_doc(ta, tb, rng, ctx, strict):
    members = [("key", gen_doc(ta, rng, ctx)), ("value", gen_doc(tb, rng, ctx))]
    if rng.random() < ctx.bad:
        c = rng.random()
        if c < 0.3:
            members.pop(rng.randrange(2))
        elif c < 0.5:
            members.reverse()
        elif c < 0.7:
            members.insert(rng.randrange(3), ("extra", rint(rng)))
        elif not strict:
            return rng.choice([None, 5, []])
        elif ctx.pol[0] == "T":
            return rng.choice([5, []])
    return M(members)


def gen_csv_doc(t, rng, ctx, n):
    """CSV: root array of rows over the columns key,value (or only one of them); cells are ints,
    empty (null) or non-numeric text"""
    cols = rng.choice([["key", "value"]] * 4 + [["value", "key"], ["key"], ["value"], ["key", "value", "extra"]])
    rows = []
    for _ in range(n):
        row = M()
        for c in cols:
            if rng.random() < ctx.bad:
                v = rng.choice([None, None, "x", "abc", INT_MAX + 1, -(2 ** 40)])
            else:
                v = rint(rng)
            row.append((c, v))
        rows.append(row)
    return rows


# ------------------------------------------------------------------ XML: what the archive can carry
# An XML document is a tree of named elements with text leaves.  The document trees of the other archives are sent
# through XmlArchive after a restriction to what that can express and to what the model's xml_arch decides:
#   - member keys must be element names (integer keys are written k<i> by the encoder, on both sides);
#   - text is sent as it is except bytes that are not XML characters / not UTF-8 (replaced), and numeric text is kept
#     canonical: "12x", " 12", "+5" are std::from_chars's business (num family), not this model's;
#   - a scalar at the ROOT is included again since /repo b0f5582 repaired finding A01 (PugiXmlRootScope opened a text element
#     as array / object scope): MismatchedTypes under ThrowError, not loaded under Skip, as the model's xml_arch says.
XML_TYPES = [i for i in range(44) if i not in (20, 21, 22, 40, 41)]     # root optional / smart pointers / scalars: no XML root value


def xml_name(k):
    if isinstance(k, int) and not isinstance(k, bool):
        return k                     # the encoder writes k<i>
    k = str(k)
    if k.startswith("@") and len(k) > 1:
        return "@" + xml_name(k[1:])         # an attribute of the element
    k = "".join(c if (c.isascii() and (c.isalnum() or c in "_")) else "_" for c in k)
    if not k or not (k[0].isalpha() or k[0] == "_"):
        k = "n" + k
    return k


def xml_text(v):
    out = "".join(c if (32 <= ord(c) < 127) else "u" for c in v)
    st = out.strip()
    if st != out or (st and (st[0] in "+-" or st[0].isdigit()) and not (st.lstrip("-").isdigit() and not st.startswith("--") and st not in ("-",))):
        # leading / trailing blanks are fine for strings but not canonical for numbers; keep the shape, drop the ambiguity
        if st and (st[0] in "+-" or st[0].isdigit()):
            out = "x" + st
    if out.lower() in ("true", "false") and out not in ("true", "false"):
        out = "x" + out
    return out


def xml_sanitize(d, root=True):
    if isinstance(d, M):
        seen, out = set(), M()
        for k, v in d:
            k = xml_name(k)
            out.append((k, xml_sanitize(v, False)))
        return out
    if isinstance(d, list):
        return [xml_sanitize(e, False) for e in d]
    if isinstance(d, str):
        return xml_text(d)
    return d


def pick_pol(rng, bad):
    if bad == 0:
        return rng.choice(["TT", "TT", "SS", "ST", "TS"])
    return rng.choice(["SS", "SS", "ST", "TS", "TT"])


def popload_line(arch, ti, mode, pol, prior, doc):
    return "popload %s %d %s %s %s %s" % (arch, ti, mode, pol, ser(prior), ser(doc))


def archs_for(ti):
    return ["json", "mp"] + (["csv"] if ti in CSV_TYPES else []) + (["xml"] if ti in XML_TYPES else [])


def gen_popload(rng, tier):
    """(prior size, data size) in {0..5}^2 for every sized container kind and every archive that can hold it,
    once with documents whose elements all load and once with defective positions; all other catalogue
    types with random sizes; the three MapLoadMode's on the map types"""
    reps = 10 if tier == "quick" else 100
    cases = []
    for _ in range(reps):
        for ti, t in enumerate(TYPES):
            sizes = [(p, d) for p in range(6) for d in range(6)] if ti in SIZED else [(None, None)] * 12
            for (ps, ds) in sizes:
                for arch in archs_for(ti):
                    for bad in (0.0, 0.3):
                        pol = pick_pol(rng, bad)
                        ctx = Ctx(arch, pol, bad)
                        prior = gen_value(t, rng, ps)
                        doc = gen_csv_doc(t, rng, ctx, ds if ds is not None else rng.randrange(4)) if arch == "csv" else gen_doc(t, rng, ctx, ds)
                        if arch == "xml":
                            doc = xml_sanitize(doc)
                        cases.append(popload_line(arch, ti, "-", pol, prior, doc))
        for ti in MAP_TYPES:
            t = TYPES[ti]
            for mode in "cou":
                for ps in range(6):
                    for ds in range(6):
                        for arch in ("json", "mp", "xml"):
                            bad = rng.choice([0.0, 0.0, 0.3])
                            pol = pick_pol(rng, bad)
                            ctx = Ctx(arch, pol, bad)
                            doc = gen_doc(t, rng, ctx, ds)
                            if arch == "xml":
                                doc = xml_sanitize(doc)
                            cases.append(popload_line(arch, ti, mode, pol, gen_value(t, rng, ps), doc))
    return cases


# ------------------------------------------------------------------ C18: the property read off the implementation

def c18_default(t):
    k = t[0]
    if k == "int":
        return 0
    if k == "bool":
        return False
    if k == "str":
        return ""
    if k == "arr":
        return [c18_default(t[2]) for _ in range(t[1])]
    if k == "bitset":
        return [False] * t[1]
    if k in ("map", "mmap"):
        return M()
    if k == "ptr":
        return None
    if k == "pair":
        return [c18_default(t[1]), c18_default(t[2])]
    return []


def c18_fresh_line(line):
    f = line.split(" ")
    f[5] = ser(c18_default(TYPES[int(f[2])]))
    return " ".join(f)


def conv_key_py(kt, key):
    """key of the target map a document key converts to (None: not convertible / skipped)"""
    if kt == "int":
        if isinstance(key, int):
            return key if INT_MIN <= key <= INT_MAX else None
        s = key
        if s.startswith("-"):
            s = s[1:]
        if s.isdigit() and s.isascii():
            v = int(key)
            return v if INT_MIN <= v <= INT_MAX else None
        return None
    return str(key)


def judge_c18(line, impl_out, impl_fresh_out):
    """does the implementation's behaviour on this case satisfy C18 as stated?  (FAIL / HOLD / UNKNOWN, why)"""
    f = line.split(" ")
    ti, mode = int(f[2]), f[3]
    if impl_out.split("(")[0] in ("CRASH", "SANITIZER", "TERMINATE", "HANG"):
        return "FAIL", "the load did not return: %s" % impl_out
    if mode in "-c":
        if impl_out == impl_fresh_out:
            return "HOLD", "same outcome as loading into a default-constructed target"
        return "FAIL", "populated target gives %s, default-constructed target gives %s" % (impl_out, impl_fresh_out)
    if not impl_out.startswith("OK "):
        return "UNKNOWN", "load did not complete (%s)" % impl_out
    try:
        prior, doc, res = parse(f[5]), parse(f[6]), parse(impl_out[3:])
    except Exception:
        return "UNKNOWN", "unparsable"
    if not isinstance(doc, M):
        return ("HOLD", "document is not an object; target unchanged") if sorted(ser(k) for k, _ in res) == sorted(ser(k) for k, _ in prior) else ("FAIL", "keys changed although the document is not an object")
    pk = set(k for k, _ in prior)
    rk = set(k for k, _ in res)
    dk = set(x for x in (conv_key_py(TYPES[ti][1], k) for k, _ in doc) if x is not None)
    if mode == "o":
        if rk != pk:
            return "FAIL", "OnlyExistKeys changed the key set: %s -> %s" % (sorted(map(str, pk)), sorted(map(str, rk)))
        pm, rm = dict(prior), dict(res)
        for k in pk - dk:
            if ser(pm[k]) != ser(rm[k]):
                return "FAIL", "OnlyExistKeys changed the value of key %s that is not in the document" % k
        return "HOLD", "key set unchanged, untouched keys keep their values"
    if not pk <= rk:
        return "FAIL", "UpdateKeys removed keys %s" % sorted(map(str, pk - rk))
    if rk != pk | dk:
        return "FAIL", "UpdateKeys: keys %s, expected prior + document = %s" % (sorted(map(str, rk)), sorted(map(str, pk | dk)))
    pm, rm = dict(prior), dict(res)
    for k in pk - dk:
        if ser(pm[k]) != ser(rm[k]):
            return "FAIL", "UpdateKeys changed the value of key %s that is not in the document" % k
    return "HOLD", "keys = prior + document, untouched keys keep their values"


# ------------------------------------------------------------------ C17: class catalogue (mirror of class_catalogue)

def R(msg=None):
    return ("required", msg)


def RG(lo, hi, msg=None):
    return ("range", lo, hi, msg)


def MN(n, msg=None):
    return ("minsize", n, msg)


def MX(n, msg=None):
    return ("maxsize", n, msg)


EVEN = ("even",)
OPAQUE = ("opaque",)     # Email / PhoneNumber / other lambdas: no semantics fixed by the property

FLAT = [("x", "int", [R(), RG(1, 5)]), ("s", "str", [R(), MN(2), MX(4)]), ("y", "int", [R()])]
MULTI = [("a", "int", [RG(1, 5), RG(3, 9, "custom r2"), EVEN]), ("b", "str", [MN(5), MX(2), R("b required")]),
         ("c", "int", [R(), RG(-3, 3)]), ("d", "str", [MX(0)])]
TEXT = [("e", "str", [R(), OPAQUE]), ("p", "str", [OPAQUE]), ("q", "str", [OPAQUE]), ("r", "str", [OPAQUE, OPAQUE]), ("nick", "str", [OPAQUE])]
NESTED = [("id", "int", [R()]), ("inner", ("obj", FLAT), [R()]), ("tail", "int", [RG(0, 10)])]
INARRAY = [("items", ("vec", FLAT), [MN(1), MX(3)]), ("n", "int", [R()])]
INMAP = [("m", ("map", FLAT), [MX(2), R()]), ("z", "int", [R()])]
DUP = [("x", "int", [RG(1, 5)]), ("x", "int", [R(), RG(2, 9, "second")]), ("v", "vecint", [MN(2), MX(3), R()])]
MANY = [("f%d" % i, "int", [R("f%d missing" % i), RG(0, 9), EVEN]) for i in range(1, 6)]
DEEP = [("list", ("vec", NESTED), [MN(1)]), ("k", "int", [R()])]
# XML only: members serialized with AttributeValue ("attr_int" / "attr_str"; in documents: members keyed "@name")
ATTR = [("id", "attr_int", [R(), RG(1, 5)]), ("name", "attr_str", [MN(2), MX(4)]), ("x", "int", [R()]), ("x", "attr_int", [RG(0, 9, "attr x")])]
ATTRLIST = [("list", ("vec", ATTR), [MN(1)]), ("k", "attr_int", [R()])]
CLASSES = [("obj", FLAT), ("obj", MULTI), ("obj", TEXT), ("obj", NESTED), ("obj", INARRAY), ("obj", INMAP),
           ("obj", DUP), ("obj", MANY), ("vec", FLAT), ("obj", DEEP), ("obj", ATTR), ("obj", ATTRLIST)]
CLASS_NAMES = ["Flat", "Multi", "Text", "Nested", "InArray", "InMap", "Dup", "Many", "vector<Flat>", "Deep", "Attr", "AttrList"]
XML_ONLY_CLASSES = (10, 11)

EMAILS = ["a@b.c", "john.smith@mail.example.com", "x@y", "a..b@c.d", "@b.c", "a@", "a@b.", "a@-b.c", "a@b-.c", "a@1b.c",
          "a b@c.d", "noat.example.com", ".a@b.c", "a.@b.c", "a@b..c", "a@b.c-d", "A_%+-=?^`{|}~!#$&'*/@Ex-ample.COM",
          "a@" + "b" * 63 + ".c", "a@" + "b" * 64 + ".c", "a" * 64 + "@b.c", "a" * 65 + "@b.c", "a@b@c.d", "", "a@b\x7f.c", "\xe9@b.c"]
PHONES = ["+555 (55) 555-55-55", "(55) 555 55 55", "555 5 55 55", "+1234567", "+123456", "1234567", "+1234567890123456",
          "+123-4567", "+-1234567", "+1234567-", "+12((3))4567", "+12(34567", "+12)34567", "+12(3)4(5)67", "+12a4567", "123", "1234",
          "12", "12345", "+ 1 2 3", "", "++1234567", "1+234567", "+()1234567", "+(1)-234567", "12-", "1--2", "(12)", "(1 )2"]


def bound_values(vs, kind):
    """values at, just inside and just outside every bound of the field's validators"""
    out = []
    for v in vs:
        if v[0] == "range":
            out += [v[1] - 1, v[1], v[1] + 1, v[2] - 1, v[2], v[2] + 1]
        if v[0] in ("minsize", "maxsize"):
            out += [max(0, v[1] - 1), v[1], v[1] + 1]
    return out


def gen_field_doc(ft, vs, rng, key, arch, strict=False):
    """a document for one field, or the marker ABSENT"""
    c = rng.random()
    if c < 0.12:
        return ABSENT
    if ft == "attr_int":
        if c < 0.30:
            return rng.choice(["x", "", None, INT_MAX + 1, True])
        b = bound_values(vs, ft)
        return rng.choice(b + b + [0, 1, 2, 4, 6, 7, -1, 10, 11, rng.randrange(-20, 20)] + ["3", "7"])
    if ft == "attr_str":
        if c < 0.22:
            return rng.choice([5, True, None, ""])
        b = bound_values(vs, ft)
        n = rng.choice(b + b + [0, 1, 3, 6]) if b else rng.randrange(0, 8)
        return "".join(rng.choice("abcxyz") for _ in range(n))
    if ft == "int":
        if c < 0.20:
            return None
        if c < 0.30:
            return rng.choice(["x", [], M(), INT_MAX + 1, "12x"]) if arch != "csv" else rng.choice(["x", "abc", INT_MAX + 1])
        b = bound_values(vs, ft)
        pool = b + b + [0, 1, 2, 4, 6, 7, -1, 10, 11, rng.randrange(-20, 20)]
        if arch != "csv":
            pool += [True, False]
        return rng.choice(pool)
    if ft == "str":
        if c < 0.20:
            return None
        if c < 0.28 and arch != "csv":
            return rng.choice([5, [], M(), True])
        if key in ("e", "r"):
            return rng.choice(EMAILS + PHONES[:6])
        if key in ("p", "q"):
            return rng.choice(PHONES)
        if key == "nick":
            return rng.choice(["nick", "two words", " ", "", "a b c"])
        b = bound_values(vs, ft)
        n = rng.choice(b + b + [0, 1, 3, 6]) if b else rng.randrange(0, 8)
        return "".join(rng.choice("abcxyz") for _ in range(n))
    if ft == "vecint":
        if c < 0.20:
            return None
        if c < 0.28:
            return rng.choice([5, "x", M()])
        n = rng.choice(bound_values(vs, ft) + [0, 1, 4])
        elems = [rint(rng) for _ in range(n)]
        if elems and rng.random() < 0.2 and arch == "json":
            elems[rng.randrange(len(elems))] = None
        return elems
    kind, fields = ft
    if c < 0.18:
        return None
    if c < 0.26:
        return rng.choice([5, "x", [] if kind != "vec" else M()])
    if kind == "obj":
        return gen_obj_doc(fields, rng, arch)
    if kind == "vec":
        n = rng.choice(bound_values(vs, ft) + [0, 1, 2, 3, 5])
        out = []
        for _ in range(n):
            if rng.random() < 0.1 and not (arch == "mp" and not MSGPACK_ARRAY_ELEMENT_MAY_SKIP):
                out.append(rng.choice([None, 5, "x"]))
            else:
                out.append(gen_obj_doc(fields, rng, arch))
        return out
    n = rng.choice(bound_values(vs, ft) + [0, 1, 2, 3])
    keys = list(KEYWORDS)
    rng.shuffle(keys)
    return M((k, gen_obj_doc(fields, rng, arch) if rng.random() > 0.1 else rng.choice([None, 5])) for k in keys[:n])


ABSENT = object()
DUPLICATE_KEY_ARCHS = ("json", "xml")      # archives whose documents may carry the same key twice in the generated cases


def gen_obj_doc(fields, rng, arch):
    members = M()
    seen = set()
    for key, ft, vs in fields:
        mkey = "@" + key if ft in ("attr_int", "attr_str") else key
        if mkey in seen:
            continue
        seen.add(mkey)
        d = gen_field_doc(ft, vs, rng, key, arch)
        if d is not ABSENT:
            members.append((mkey, d))
    if rng.random() < 0.3:
        rng.shuffle(members)
    if rng.random() < 0.15:
        members.insert(rng.randrange(len(members) + 1), ("unknown", rint(rng)))
    plain = [(k, ft, vs) for k, ft, vs in fields if ft not in ("attr_int", "attr_str") and any(m[0] == k for m in members)]
    if plain and arch in DUPLICATE_KEY_ARCHS and rng.random() < 0.1:
        # a member that occurs twice (first member of a name wins)
        k, ft, vs = rng.choice(plain)
        d = gen_field_doc(ft, vs, rng, k, arch)
        if d is not ABSENT:
            members.insert(rng.randrange(len(members) + 1), (k, d))
    return members


def gen_csv_rows(fields, rng, n):
    cols = [k for k, _, _ in fields]
    if rng.random() < 0.3:
        cols.pop(rng.randrange(len(cols)))
    rows = []
    for _ in range(n):
        row = M()
        for key, ft, vs in fields:
            if key not in cols:
                continue
            d = gen_field_doc(ft, vs, rng, key, "csv")
            if d is ABSENT or isinstance(d, (list, bool)):
                d = None
            row.append((key, d))
        rows.append(row)
    return rows


def validate_line(arch, ci, mx, pol, doc):
    return "validate %s %d %d %s %s" % (arch, ci, mx, pol, ser(doc))


def gen_validate(rng, tier):
    n_per = 2000 if tier == "quick" else 20000
    cases = []
    for ci, (kind, fields) in enumerate(CLASSES):
        for _ in range(n_per):
            arch = rng.choice(["json", "json", "mp", "mp", "xml", "xml"] + (["csv", "csv"] if ci == 8 else []))
            if ci in XML_ONLY_CLASSES:
                arch = "xml"
            if kind == "obj":
                doc = gen_obj_doc(fields, rng, arch)
            elif arch == "csv":
                doc = gen_csv_rows(fields, rng, rng.randrange(0, 5))
            else:
                doc = [gen_obj_doc(fields, rng, arch) for _ in range(rng.randrange(0, 5))]
            if rng.random() < 0.04 and arch != "csv":      # CSV text is always a table
                doc = rng.choice([None, 5, [], M()])
            if arch == "xml":
                doc = xml_sanitize(doc)
            pol = rng.choice(["SS", "SS", "SS", "TT", "ST", "TS"])
            for mx in (0, 1, 2, 3, 100):
                cases.append(validate_line(arch, ci, mx, pol, doc))
    # every bound neighbourhood of the flat classes, one field at a time, all other fields valid
    good = {"x": 3, "s": "abc", "y": 1, "a": 4, "b": "", "c": 0, "d": ""}
    for ci in (0, 1):
        fields = CLASSES[ci][1]
        for key, ft, vs in fields:
            vals = bound_values(vs, ft)
            if ft == "str":
                vals = ["q" * n for n in vals]
            for v in vals + [None, ABSENT, "zz" if ft == "int" else 5]:
                members = M()
                for k2, _, _ in fields:
                    if k2 == key:
                        if v is not ABSENT:
                            members.append((k2, v))
                    else:
                        members.append((k2, good[k2]))
                for arch in ("json", "mp", "xml"):
                    for mx in (0, 1, 2):
                        cases.append(validate_line(arch, ci, mx, "SS", xml_sanitize(members) if arch == "xml" else members))
    return cases


# ------------------------------------------------------------------ C17: the property read off the implementation

def xml_has_text(d):
    """the element that encodes d has a text child (so it is a scalar, not a scope)"""
    return isinstance(d, bool) or (isinstance(d, int)) or (isinstance(d, str) and d != "")


def xml_item_name(d):
    return "object" if isinstance(d, M) else "array" if isinstance(d, list) else "value"


def xml_is_attr(k):
    return isinstance(k, str) and k.startswith("@")


def xml_members(d):
    """members an object scope sees on the element that encodes d (d has no text); attributes keep their '@' key and are
    looked up by the attribute fields only"""
    if isinstance(d, M):
        return M(("k%d" % k if isinstance(k, int) and not isinstance(k, bool) else k, v) for k, v in d)
    if isinstance(d, list):
        return M((xml_item_name(e), e) for e in d)
    return M()


def xml_items(d):
    if isinstance(d, M):
        return [v for k, v in d if not xml_is_attr(k)]
    if isinstance(d, list):
        return list(d)
    return []


def py_load_scalar(ft, d, arch):
    """(loaded?, value) under the Skip policies; None = outside what this reference decides"""
    if arch == "xml":
        if not xml_has_text(d):
            return (False, None)
        if ft == "int":
            if isinstance(d, bool):
                return (False, None)
            if isinstance(d, int):
                return (True, d) if INT_MIN <= d <= INT_MAX else (False, None)
            t = d[1:] if d.startswith("-") else d
            if t.isdigit() and t.isascii():
                return (True, int(d)) if INT_MIN <= int(d) <= INT_MAX else (False, None)
            return (False, None)
        if ft == "str":
            return (True, ("true" if d else "false") if isinstance(d, bool) else str(d))
        return None
    if ft == "int":
        if isinstance(d, bool):
            return (True, int(d))
        if isinstance(d, int):
            return (True, d) if INT_MIN <= d <= INT_MAX else (False, None)
        return (False, None)
    if ft == "str":
        if isinstance(d, str):
            return (True, d)
        if d is None and arch == "csv":
            return (True, "")
        return (False, None)
    return None


def expected_messages(vs, loaded, value, size):
    """messages the documented semantics demand, in declaration order; None entries = opaque validator"""
    out = []
    for v in vs:
        if v[0] == "required":
            if not loaded:
                out.append(v[1] or "This field is required")
        elif v[0] == "range":
            if loaded and (value < v[1] or value > v[2]):
                out.append(v[3] or "Value must be between %d and %d" % (v[1], v[2]))
        elif v[0] == "minsize":
            if loaded and size < v[1]:
                out.append(v[2] or "The minimum size of this field should be %d" % v[1])
        elif v[0] == "maxsize":
            if loaded and size > v[1]:
                out.append(v[2] or "The maximum size of this field should be not greater than %d" % v[1])
        elif v[0] == "even":
            if loaded and value % 2 != 0:
                out.append("must be even")
        else:
            out.append(None)
    return out


def expected_report(fields, members, path, arch, first_index, acc):
    """appends (path, [messages]) per field visit in program order; raises Undecided where the
    reference does not fix the outcome"""
    md = {}
    for k, v in members:
        md.setdefault(k, v)
    for key, ft, vs in fields:
        fp = path + "/" + key
        if ft in ("attr_int", "attr_str"):
            # AttributeValue: the attribute [key] of the element; same path as a child element of that name
            present = ("@" + key) in md
            d = md.get("@" + key)
            if not present:
                loaded, value = False, None
            elif ft == "attr_str":
                loaded, value = True, ("" if d is None or isinstance(d, (list,)) else ("true" if d else "false") if isinstance(d, bool) else str(d))
            else:
                loaded, value = py_load_scalar("int", d, "xml") if xml_has_text(d) else (False, None)
            acc.append((fp, expected_messages(vs, loaded, value, len(value) if isinstance(value, str) else 0)))
            continue
        present = key in md
        d = md.get(key)
        if ft in ("int", "str"):
            loaded, value = py_load_scalar(ft, d, arch) if present else (False, None)
            acc.append((fp, expected_messages(vs, loaded, value, len(value) if isinstance(value, str) else 0)))
        elif ft == "vecint":
            if arch == "xml":
                loaded = present and not xml_has_text(d)
                acc.append((fp, expected_messages(vs, loaded, None, len(xml_items(d)) if loaded else 0)))
                continue
            loaded = present and isinstance(d, list)
            acc.append((fp, expected_messages(vs, loaded, None, len(d) if loaded else 0)))
        else:
            kind, sub = ft
            if arch == "xml":
                # every element without text opens as a scope; array items are named, not numbered
                loaded = present and not xml_has_text(d)
                n = 0
                if loaded and kind == "obj":
                    expected_report(sub, xml_members(d), fp, arch, first_index, acc)
                elif loaded and kind == "vec":
                    for e in xml_items(d):
                        n += 1
                        if not xml_has_text(e):
                            expected_report(sub, xml_members(e), fp + "/" + xml_item_name(e), arch, first_index, acc)
                elif loaded:
                    for k2, e in xml_members(d):
                        if xml_is_attr(k2):
                            continue
                        n += 1
                        if not xml_has_text(e):
                            expected_report(sub, xml_members(e), fp + "/" + str(k2), arch, first_index, acc)
                acc.append((fp, expected_messages(vs, loaded, None, n)))
                continue
            if kind == "obj":
                loaded = present and isinstance(d, M)
                if loaded:
                    expected_report(sub, d, fp, arch, first_index, acc)
                acc.append((fp, expected_messages(vs, loaded, None, 0)))
            elif kind == "vec":
                loaded = present and isinstance(d, list) and not isinstance(d, M)
                n = 0
                if loaded:
                    for i, e in enumerate(d):
                        n += 1
                        if isinstance(e, M):
                            expected_report(sub, e, fp + "/" + str(i + first_index), arch, first_index, acc)
                acc.append((fp, expected_messages(vs, loaded, None, n)))
            else:
                loaded = present and isinstance(d, M)
                n = 0
                if loaded:
                    for k2, e in d:
                        n += 1
                        if isinstance(e, M):
                            expected_report(sub, e, fp + "/" + str(k2), arch, first_index, acc)
                acc.append((fp, expected_messages(vs, loaded, None, n)))


def parse_val(out):
    """VAL answer -> ({path: [messages]}, state)"""
    t = out.split(" ")
    m = {}
    if t[1]:
        for item in t[1].split(";"):
            p, ms = item.split(":")
            key = bytes.fromhex(p).decode("latin-1") if p not in ("-", "") else ""
            m[key] = [bytes.fromhex(x).decode("latin-1") if x != "-" else "" for x in ms.split(",")]
    return m, t[2]


def judge_c17(line, impl_out, in_class=None):
    """in_class: the F32 class of the case as decided by the extracted predicate (True / False / None = not applicable or
    not asked).  Outside the class the capped report must be the full-strength one: every reported path with ALL its
    failing messages (T_C17_capped_outside); inside it a path may have lost its later messages"""
    f = line.split(" ")
    arch, ci, mx, pol = f[1], int(f[2]), int(f[3]), f[4]
    if impl_out.split("(")[0] in ("CRASH", "SANITIZER", "TERMINATE", "HANG"):
        return "FAIL", "the load did not return: %s" % impl_out
    if impl_out.startswith("EXC:") or impl_out.startswith("BADCASE"):
        return "UNKNOWN", "another error was raised (%s)" % impl_out
    try:
        doc = parse(f[5])
    except Exception:
        return "UNKNOWN", "unparsable"
    kind, fields = CLASSES[ci]
    first_index = 0 if arch == "csv" else 1
    acc = []
    if arch == "xml":
        if xml_has_text(doc):
            # a text root is not a scope: not loaded (Skip) - nothing is validated - or MismatchedTypes (ThrowError)
            return ("HOLD", "text root is not loaded, nothing validated") if impl_out.startswith("OK ") else ("FAIL", "a text root element was opened as a scope (A01)")
        rp = "/" + xml_item_name(doc)
        if kind == "obj":
            expected_report(fields, xml_members(doc), rp, arch, first_index, acc)
        else:
            for e in xml_items(doc):
                if not xml_has_text(e):
                    expected_report(fields, xml_members(e), rp + "/" + xml_item_name(e), arch, first_index, acc)
    elif kind == "obj":
        if not isinstance(doc, M):
            return "UNKNOWN", "root document is not an object"
        expected_report(fields, doc, "", arch, first_index, acc)
    else:
        if not isinstance(doc, list) or isinstance(doc, M):
            return "UNKNOWN", "root document is not an array"
        for i, e in enumerate(doc):
            if isinstance(e, M):
                expected_report(fields, e, "/" + str(i + first_index), arch, first_index, acc)
    # documented report: per path the failing messages in order (opaque validators: unknown)
    exp = {}
    opaque_paths = set()
    order = []
    for p, ms in acc:
        for m in ms:
            if m is None:
                opaque_paths.add(p)
            else:
                if p not in exp:
                    order.append(p)
                exp.setdefault(p, []).append(m)
    if impl_out.startswith("OK "):
        if exp:
            return "FAIL", "no ValidationException although %s must fail: %s" % (order[0], exp[order[0]][0])
        return "HOLD", "no validator fails, load succeeded"
    got, _ = parse_val(impl_out)
    for p, ms in got.items():
        if p in opaque_paths:
            continue
        if p not in exp:
            return "FAIL", "path %s reported but none of its validators fails" % p
        if mx == 0 and ms != exp[p]:
            return "FAIL", "path %s: reported %s, failing validators give %s" % (p, ms, exp[p])
        if mx > 0 and ms != exp[p][:len(ms)]:
            return "FAIL", "path %s: reported %s is not a prefix of %s" % (p, ms, exp[p])
        if mx > 0 and in_class is False and ms != exp[p]:
            return "FAIL", "outside the F32 class, but path %s lost messages: reported %s of %s" % (p, ms, exp[p])
    if mx == 0:
        for p in exp:
            if p not in got:
                return "FAIL", "failing path %s is missing from the report" % p
    else:
        if len(got) > mx:
            return "FAIL", "%d paths reported with maxValidationErrors=%d" % (len(got), mx)
        if len(got) < min(mx, len(exp)):
            return "FAIL", "%d paths reported with maxValidationErrors=%d although %d paths fail" % (len(got), mx, len(exp))
    return "HOLD", "report agrees with the documented rules"


# ------------------------------------------------------------------ shared assessment

STREAM_VARIANT = {"mp": "mps", "json": "jsons", "xml": "xmls"}


def stream_vs_memory(vlib, impl, cases, oi, om, failing, limit=20):
    """implementation-only: the same documents through std::istream must answer exactly what the memory load answers
    (MsgPack: paths come from keys that are views into the stream reader's buffer - finding F54, repaired by a981807;
    JSON: RapidJSON IStreamWrapper + encoding detection; XML: pugixml load from stream).  Returns the number of stream runs."""
    import re

    def ascii_only(line):
        for h in re.findall(r"s([0-9a-f]+)", line.split(" ", 4)[-1]):
            if any(int(h[k:k + 2], 16) >= 0x80 for k in range(0, len(h) - 1, 2)):
                return False
        return True
    # JSON text with a byte >= 0x80 that is not UTF-8 (the generators draw latin-1 bytes) is not a JSON document: the
    # memory load passes such bytes through unvalidated while the stream load (transcoding input stream) reports
    # ParsingError - observation A02, not a C17 / C18 matter; those cases are compared for MsgPack only (raw bytes)
    idx = [i for i, line in enumerate(cases) if line.split(" ")[1] in STREAM_VARIANT
           and (line.split(" ")[1] == "mp" or ascii_only(line))]
    if not idx:
        return 0
    sc = []
    for i in idx:
        f = cases[i].split(" ")
        f[1] = STREAM_VARIANT[f[1]]
        sc.append(" ".join(f))
    so = vlib.run_driver(impl, sc)
    for i, line, o in zip(idx, sc, so):
        if o != oi[i] and len(failing) < limit:
            failing.append(dict(driver="arch", case=line, implementation=o, model=om[i], judge="FAIL",
                                why="loading the same document from a stream answers differently than loading it from memory (%s)" % oi[i][:200]))
    return len(idx)


def load_corpus(prop):
    import vlib
    p = os.path.join(vlib.VERIF, "corpus", prop + ".cases")
    if not os.path.exists(p):
        return []
    return [l.rstrip("\n") for l in open(p) if l.strip() and not l.startswith("#")]


STALE_KNOWN = []     # filled by known_findings(): listed entries whose witness answers differently now (reported as diffs)


def class_of(vlib, model, lines):
    """the defect class of each case, decided by the extracted class predicate of the theorems (has_unloaded for C18 / F36,
    truncated for C17 / F32; coq/ArchProofs.v, coq/ArchValidation.v): 'IN' / 'OUT', 'NA' where the statement has no class
    (map load modes, no cap, the load ends with another error)"""
    q = []
    for line in lines:
        f = line.split(" ")
        f[0] = {"popload": "popclass", "validate": "valclass"}.get(f[0], f[0])
        q.append(" ".join(f))
    return vlib.run_driver(model, q) if q else []


def known_findings(prop, vlib, impl, model=None):
    known_lines = []
    kn = [k for k in vlib.load_known(prop) if k.get("status") == "known"]
    if kn:
        outs = vlib.run_driver(impl, [k["case"] for k in kn], jobs=1)
        cls = class_of(vlib, model, [k["case"] for k in kn]) if model is not None else [None] * len(kn)
        for k, o, c in zip(kn, outs, cls):
            if c == "OUT":
                STALE_KNOWN.append(dict(driver="arch", case=k["case"], implementation=o, model=k["implementation"], judge="KNOWN-FINDING-CHANGED",
                                        why="the witness of listed known finding %s lies outside the class its theorems exclude" % k["id"]))
            if o == k["implementation"]:
                known_lines.append("%s: %s [case: %s -> %s]" % (k["id"], k["what"], k["case"], o))
            else:
                STALE_KNOWN.append(dict(driver="arch", case=k["case"], implementation=o, model=k["implementation"], judge="KNOWN-FINDING-CHANGED",
                                        why="listed known finding %s no longer reproduces as recorded" % k["id"]))
    return known_lines, set(k["case"] for k in kn)
