"""Shared pieces of the chrono checks (C14, C15): drivers, case construction, hashed sweeps with
bisection, and an independent executable reading of the property predicates (python integers, a
calendar counted from the leap rule, strict regular expressions for the documented grammar).  The
judge is used only to classify a disagreement between model and implementation as 'the property
itself fails on the implementation' (FAIL) or not (HOLD / UNKNOWN)."""
import os
import re

PRECS = ["ns", "us", "ms", "s", "min", "h", "d"]
REPS = ["i64", "i32", "u64", "i8"]
TICK_NS = {"ns": 1, "us": 10 ** 3, "ms": 10 ** 6, "s": 10 ** 9, "min": 60 * 10 ** 9, "h": 3600 * 10 ** 9, "d": 86400 * 10 ** 9}
FRAC_DIGITS = {"ns": 9, "us": 6, "ms": 3}
RMIN = {"i64": -2 ** 63, "i32": -2 ** 31, "u64": 0, "i8": -128}
RMAX = {"i64": 2 ** 63 - 1, "i32": 2 ** 31 - 1, "u64": 2 ** 64 - 1, "i8": 127}
SUBSEC = ("ns", "us", "ms")


def signed(r):
    return r != "u64"


def can_print_tp(p, r):
    return signed(r)


def can_print_dur(p, r):
    return signed(r) or p not in SUBSEC


def drivers(vlib):
    impl = vlib.build_cpp("drv_chrono", ["drv_chrono.cpp"] + vlib.repo_sources("src/msgpack/*.cpp", "src/common/*.cpp"))
    model = vlib.build_model("chrono")
    return impl, model


def hx(s):
    b = s.encode("latin-1") if isinstance(s, str) else bytes(s)
    return b.hex() if b else "-"


def unhx(h):
    return b"" if h == "-" else bytes.fromhex(h)


def canon(ans):
    """sanitizer reports of the implementation driver -> the model's UB classes"""
    if ans.startswith("SANITIZER(ubsan:"):
        if "signed integer overflow" in ans or "negation of" in ans:
            return "UB:overflow"
        return ans
    if ans.startswith("SANITIZER(asan:stack-buffer-overflow"):
        return "UB:buffer"
    if ans.startswith("SANITIZER(asan:SEGV"):
        return "UB:null"
    return ans


def run_both(vlib, impl, model, lines, small=False):
    """small=True: cases that may abort the implementation driver (UB) - short chunks so that a crash
    re-feeds little input"""
    if not lines:
        return [], []
    if small:
        oi = vlib.run_driver(impl, lines, chunk=max(8, min(200, len(lines) // 64 + 1)))
    else:
        oi = vlib.run_driver(impl, lines)
    om = vlib.run_driver(model, lines)
    return [canon(x) for x in oi], om


# ------------------------------------------------------------------ independent calendar (leap rule only)

def leap(y):
    return y % 4 == 0 and (y % 100 != 0 or y % 400 == 0)


def dim(y, m):
    if m == 2:
        return 29 if leap(y) else 28
    return 30 if m in (4, 6, 9, 11) else 31


def days_before_year(y):
    p = y - 1
    return 365 * (y - 1970) + (p // 4 - p // 100 + p // 400) - (1969 // 4 - 1969 // 100 + 1969 // 400)


def days_of_civil(y, m, d):
    return days_before_year(y) + sum(dim(y, k) for k in range(1, m)) + d - 1


def civil_of_days(z):
    """search by the monotone day count (no era arithmetic)"""
    y = 1970 + z // 366
    while days_before_year(y) > z:
        y -= 1 + (days_before_year(y) - z) // 366
    while days_before_year(y + 1) <= z:
        y += 1 + (z - days_before_year(y + 1)) // 366
    r = z - days_before_year(y)
    m = 1
    while r >= dim(y, m):
        r -= dim(y, m)
        m += 1
    return y, m, r + 1


def year_text(y):
    if y < 0:
        return "-%04d" % (-y)
    if y <= 9999:
        return "%04d" % y
    return "+%d" % y


def expected_tp_text(p, c):
    ns = c * TICK_NS[p]
    secs, fns = divmod(ns, 10 ** 9)
    days, sod = divmod(secs, 86400)
    y, m, d = civil_of_days(days)
    s = "%s-%02d-%02dT%02d:%02d:%02d" % (year_text(y), m, d, sod // 3600, sod % 3600 // 60, sod % 60)
    if p in FRAC_DIGITS:
        s += ".%0*d" % (FRAC_DIGITS[p], fns // TICK_NS[p])
    return s + "Z"


TP_RE = re.compile(rb"^([+-]?)(\d{4,})-(\d\d)-(\d\d)T(\d\d):(\d\d):(\d\d)(?:([.,])(\d{1,9}))?Z$")


def strict_tp(text):
    """the documented grammar: returns None (outside) or (whole seconds since epoch, fraction ns)"""
    m = TP_RE.match(text)
    if not m:
        return None
    sign, ys, mo, d, h, mi, s, sep, fr = m.groups()
    if sign == b"" and len(ys) != 4:
        return None
    y = int(ys)
    if sign == b"-":
        y = -y
    mo, d, h, mi, s = int(mo), int(d), int(h), int(mi), int(s)
    if not (1 <= mo <= 12 and 1 <= d <= dim(y, mo) and h <= 23 and mi <= 59 and s <= 59):
        return None
    fns = int(fr) * 10 ** (9 - len(fr)) if fr is not None else 0
    return (days_of_civil(y, mo, d) * 86400 + h * 3600 + mi * 60 + s, fns)


def rhe(a, b):
    q, r = divmod(a, b)
    if 2 * r < b:
        return q
    if 2 * r > b:
        return q + 1
    return q if q % 2 == 0 else q + 1


def count_of(p, secs, fns):
    """count in precision p of secs whole seconds + fns nanoseconds: only the fraction may be rounded"""
    t = TICK_NS[p]
    if t >= 10 ** 9:
        if (secs * 10 ** 9) % t:
            return None
        return secs * 10 ** 9 // t + rhe(fns, t)
    return secs * (10 ** 9 // t) + rhe(fns, t)


DUR_RE = re.compile(rb"^([+-]?)P(?:(\d+)W)?(?:(\d+)D)?(?:T(?:(\d+)H)?(?:(\d+)M)?(?:(\d+)(?:([.,])(\d{1,9}))?S)?)?$")


def strict_dur(text):
    m = DUR_RE.match(text)
    if not m:
        return None
    sign, w, d, h, mi, s, sep, fr = m.groups()
    if w is None and d is None and h is None and mi is None and s is None:
        return None
    if b"T" in text and h is None and mi is None and s is None:
        return None
    secs = int(w or 0) * 604800 + int(d or 0) * 86400 + int(h or 0) * 3600 + int(mi or 0) * 60 + int(s or 0)
    fns = int(fr) * 10 ** (9 - len(fr)) if fr is not None else 0
    return (-1 if sign == b"-" else 1, secs, fns)


def dur_count_of(p, sg, secs, fns):
    t = TICK_NS[p]
    if t >= 10 ** 9:
        if (secs * 10 ** 9) % t:
            return None
        return sg * (secs * 10 ** 9 // t) + rhe(sg * fns, t)
    return sg * secs * (10 ** 9 // t) + rhe(sg * fns, t)


def wire_bytes(sec, ns):
    """the library's MsgPack form of CBinTimestamp{sec, ns}: timestamp 32 / 64 as specified; timestamp 96 with the
    seconds before the nanoseconds (F08, a finding of C06: the specification has the nanoseconds first)"""
    if 0 <= sec < 2 ** 34:
        if ns == 0 and sec < 2 ** 32:
            return bytes([0xD6, 0xFF]) + sec.to_bytes(4, "big")
        return bytes([0xD7, 0xFF]) + ((ns << 34) | sec).to_bytes(8, "big")
    return bytes([0xC7, 12, 0xFF]) + (sec % 2 ** 64).to_bytes(8, "big") + ns.to_bytes(4, "big")


# ------------------------------------------------------------------ judge

def judge(line, out):
    """does the implementation's observed answer on this case satisfy C14/C15 as stated?"""
    t = line.split(" ")
    op = t[0]
    try:
        if op in ("tp.print", "rt.print"):
            p, r, c = (t[1], t[2], int(t[3])) if op == "tp.print" else ("s", "i64", int(t[1]))
            want = expected_tp_text(p, c)
            if out == "OK " + hx(want):
                return "HOLD", "text is the ISO form of the instant"
            return "FAIL", "expected %s (%s)" % (want, hx(want))
        if op in ("tp.parse", "rt.parse", "tp.parse16", "tp.parse32"):
            if op == "rt.parse":
                p, r, text = "s", "i64", unhx(t[1])
            elif op == "tp.parse":
                p, r, text = t[1], t[2], unhx(t[3])
            else:
                p, r = t[1], t[2]
                units = [] if t[3] in ("-", "") else [int(x, 16) for x in t[3].split(",")]
                if any(u >= 0x80 for u in units):
                    return ("HOLD", "non-ASCII text rejected") if out == "EXC:invalid_argument" else ("FAIL", "non-ASCII text must be rejected as invalid_argument")
                text = bytes(units)
            v = strict_tp(text)
            if v is None:
                want = "EXC:invalid_argument"
            else:
                c = count_of(p, v[0], v[1])
                want = "OK %d" % c if c is not None and RMIN[r] <= c <= RMAX[r] else "EXC:out_of_range"
            return ("HOLD", "classified per grammar/denotation") if out == want else ("FAIL", "expected " + want)
        if op == "dur.print":
            p, r, c = t[1], t[2], int(t[3])
            if not out.startswith("OK "):
                return "FAIL", "printing a representable duration must succeed"
            v = strict_dur(unhx(out[3:]))
            if v is None:
                return "FAIL", "printed text is outside the duration grammar"
            if v[0] * (v[1] * 10 ** 9 + v[2]) != c * TICK_NS[p]:
                return "FAIL", "printed text denotes a different duration"
            return "HOLD", "text denotes the duration"
        if op in ("dur.parse", "dur.parse16", "dur.parse32"):
            p, r = t[1], t[2]
            if op == "dur.parse":
                text = unhx(t[3])
            else:
                units = [] if t[3] in ("-", "") else [int(x, 16) for x in t[3].split(",")]
                if any(u >= 0x80 for u in units):
                    return ("HOLD", "non-ASCII text rejected") if out == "EXC:invalid_argument" else ("FAIL", "non-ASCII text must be rejected as invalid_argument")
                text = bytes(units)
            v = strict_dur(text)
            if v is None:
                want = "EXC:invalid_argument"
            else:
                c = dur_count_of(p, *v)
                want = "OK %d" % c if c is not None and RMIN[r] <= c <= RMAX[r] else "EXC:out_of_range"
            return ("HOLD", "classified per grammar/denotation") if out == want else ("FAIL", "expected " + want)
        if op == "ts.to":
            p, r, c = t[2], t[3], int(t[4])
            sec, ns = divmod(c * TICK_NS[p], 10 ** 9)
            want = "OK %d %d" % (sec, ns) if -2 ** 63 <= sec < 2 ** 63 else "EXC:out_of_range"
            return ("HOLD", "timestamp of the instant") if out == want else ("FAIL", "expected " + want)
        if op == "ts.wire":
            p, r, c = t[2], t[3], int(t[4])
            sec, ns = divmod(c * TICK_NS[p], 10 ** 9)
            if not -2 ** 63 <= sec < 2 ** 63:
                want = "EXC:out_of_range"
            else:
                want = "OK %s %d" % (wire_bytes(sec, ns).hex(), c)
            return ("HOLD", "MsgPack timestamp of the instant, read back to the value") if out == want else ("FAIL", "expected " + want)
        if op == "ts.from":
            p, r, sec, ns = t[2], t[3], int(t[4]), int(t[5])
            if not 0 <= ns <= 999999999:
                return "UNKNOWN", "nanoseconds field outside 0..999999999"
            c = count_of(p, sec, ns) if not (ns and TICK_NS[p] > 10 ** 9) else None
            want = "OK %d" % c if c is not None and RMIN[r] <= c <= RMAX[r] else "EXC:out_of_range"
            return ("HOLD", "value of the timestamp") if out == want else ("FAIL", "expected " + want)
        if op == "cast":
            per = {"ns": (1, 10 ** 9), "us": (1, 10 ** 6), "ms": (1, 1000), "s": (1, 1), "min": (60, 1), "h": (3600, 1), "d": (86400, 1),
                   "w": (604800, 1), "r7": (7, 1), "r5": (5, 1), "r2_3": (2, 3)}
            (sn, sd), (dn, dd) = per[t[1]], per[t[3]]
            c = int(t[5])
            num, den = c * sn * dd, sd * dn
            want = "OK %d" % (num // den) if num % den == 0 and RMIN[t[4]] <= num // den <= RMAX[t[4]] else "EXC:out_of_range"
            return ("HOLD", "exact or reported") if out == want else ("FAIL", "expected " + want)
        if op == "tm.print":
            return "UNKNOWN", "struct tm printing (no calendar involved)"
        if op == "tm.parse":
            v = strict_tp(unhx(t[1]))
            if v is None:
                return ("HOLD", "rejected") if out == "EXC:invalid_argument" else ("FAIL", "expected EXC:invalid_argument")
            return "UNKNOWN", "struct tm fields"
    except Exception as e:  # judge must never take the check down
        return "UNKNOWN", "judge error: %r" % (e,)
    return "UNKNOWN", "no judge for this op"


# ------------------------------------------------------------------ hashed sweeps

def sweep_line(tok, start, n, step):
    return "%s %s %s %s %d %d %d" % (tok[0], tok[1], tok[2], tok[3], start, n, step)


def sweep_single(tok, c):
    """explicit case lines equivalent to one element of a sweep (the print / to half; the second half is
    produced by the two-phase runner)"""
    kind, what, p, r = tok
    if kind == "sweep.ts":
        return "ts.to %s %s %s %d" % (what, p, r, c)
    return "%s.print %s %s %d" % (what, p, r, c)


def run_sweeps(vlib, impl, model, sweeps, max_explicit=12):
    """sweeps: list of (tok=(kind, tp|dur, P, R), start, n, step).  Both sides hash every answer; on a
    hash mismatch the range is bisected down to explicit single cases.
    returns ((evaluations, nontrivial), explicit_mismatch_cases)"""
    pending = []
    for tok, start, n, step in sweeps:
        parts = 64 if n > 400000 else 16 if n > 4096 else 1
        per = (n + parts - 1) // parts
        k = 0
        while k < n:
            m = min(per, n - k)
            pending.append((tok, start + k * step, m, step))
            k += m
    evals = sum(x[2] for x in pending)
    nontriv = 0
    explicit = []
    first = True
    while pending:
        lines = [sweep_line(*x) for x in pending]
        # one sweep line per job: the lines differ in cost by orders of magnitude
        oi = [canon(x) for x in vlib.run_driver(impl, lines, chunk=1)]
        om = vlib.run_driver(model, lines, chunk=1)
        if first:
            for y in om:
                f = y.split(" ")
                if len(f) == 4 and f[0] == "H":
                    nontriv += int(f[3])
            first = False
        nxt = []
        for (tok, start, n, step), x, y in zip(pending, oi, om):
            if x == y and x.startswith("H "):
                continue
            if n <= 1:
                explicit.append(sweep_single(tok, start))
            elif len(explicit) + len(nxt) < max_explicit * 4:
                per = max(1, (n + 7) // 8)
                k = 0
                while k < n:
                    m = min(per, n - k)
                    nxt.append((tok, start + k * step, m, step))
                    k += m
        pending = nxt[:max_explicit * 4]
        if len(explicit) >= max_explicit:
            break
    return (evals, nontriv), explicit[:max_explicit]


# ------------------------------------------------------------------ two-phase explicit runs

def second_phase(lines, oi):
    """from the implementation's answers to print / ts.to lines build the parse-back / ts.from lines"""
    out = []
    for line, a in zip(lines, oi):
        t = line.split(" ")
        if not a.startswith("OK "):
            continue
        if t[0] == "tp.print":
            out.append("tp.parse %s %s %s" % (t[1], t[2], a[3:]))
        elif t[0] == "dur.print":
            out.append("dur.parse %s %s %s" % (t[1], t[2], a[3:]))
        elif t[0] == "rt.print":
            out.append("rt.parse %s" % a[3:])
        elif t[0] == "ts.to":
            out.append("ts.from %s %s %s %s" % (t[1], t[2], t[3], a[3:]))
    return out


def judge_roundtrip(src_line, src_out, back_line, back_out):
    """C14 round trip: the value printed (or converted to a timestamp) must come back identical"""
    t = src_line.split(" ")
    c = t[-1]
    if back_out == "OK " + c:
        return "HOLD", "round trip exact"
    return "FAIL", "%s gave %s, and %s gave %s instead of OK %s" % (src_line, src_out, back_line.split(" ")[0], back_out, c)


def load_corpus(prop):
    import vlib
    p = os.path.join(vlib.VERIF, "corpus", prop + ".cases")
    if not os.path.exists(p):
        return []
    return [l.rstrip("\n") for l in open(p) if l.strip() and not l.startswith("#")]


def nontrivial(line, model_out):
    if not model_out.startswith("OK "):
        return True
    t = line.split(" ")
    if t[0] in ("tp.print", "dur.print", "rt.print", "ts.to", "ts.wire", "cast"):
        c = int(t[-1])
        return c < 0 or c > 2 ** 31
    if t[0] == "ts.from":
        return int(t[-1]) != 0 or int(t[-2]) < 0
    # parse ops: fraction, sign or negative result
    return model_out.startswith("OK -") or any(x in t[-1] for x in ("2e", "2c", "2b", "2d50", "2b50"))


def op_class(line):
    t = line.split(" ")
    if t[0] in ("tp.print", "tp.parse", "dur.print", "dur.parse", "tp.parse16", "tp.parse32", "dur.parse16", "dur.parse32"):
        return "%s %s %s" % (t[0], t[1], t[2])
    if t[0] in ("ts.to", "ts.from", "ts.wire"):
        return "%s %s %s %s" % (t[0], t[1], t[2], t[3])
    if t[0] == "cast":
        return "cast %s %s->%s %s" % (t[1], t[2], t[3], t[4])
    return t[0]


def assess(prop, vlib, impl, model, cases, oi, om, pairs, sweep_evals, sws, rule, exhaustive, extra_classes=None):
    """cases/oi/om: explicit lines and both answer lists; pairs: {index of a second-phase line: index
    of its source line} for the round-trip judgement"""
    failing, diffs = [], []
    seen = set()
    nt = 0
    classes = dict(extra_classes or {})
    for i, (line, a, b) in enumerate(zip(cases, oi, om)):
        k = op_class(line)
        classes[k] = classes.get(k, 0) + 1
        if b.startswith("UB:") or b.startswith("EXC:"):
            k2 = "outcome " + b
            classes[k2] = classes.get(k2, 0) + 1
        if line not in seen:
            seen.add(line)
            if nontrivial(line, b):
                nt += 1
        if a != b:
            verdict, why = judge(line, a)
            if verdict == "HOLD" and i in pairs and prop == "C14":
                j = pairs[i]
                verdict, why = judge_roundtrip(cases[j], oi[j], line, a)
            rec = dict(driver="chrono", case=line, implementation=a, model=b, judge=verdict, why=why)
            if verdict == "FAIL" and len(failing) < 20:
                failing.append(rec)
            elif len(diffs) < 20:
                diffs.append(rec)
    known_lines = []
    kn = [k for k in vlib.load_known(prop) if k.get("status") == "known"]
    if kn:
        outs = [canon(x) for x in vlib.run_driver(impl, [k["case"] for k in kn], jobs=1, chunk=1)]
        for k, o in zip(kn, outs):
            if o == k["implementation"]:
                known_lines.append("%s: %s [case: %s -> %s]" % (k["id"], k["what"], k["case"], o))
    known_cases = set(k["case"] for k in kn)
    failing = [f for f in failing if f["case"] not in known_cases]
    for (tok, start, n, step) in sws:
        key = "sweep %s %s %s %s" % tok
        classes[key] = classes.get(key, 0) + n
    samples = [dict(case=cases[i], implementation=oi[i], model=om[i]) for i in range(0, min(len(cases), 3))]
    samples += [dict(sweep=sweep_line(*x)) for x in sws[:2]]
    sweep_n, sweep_nt = sweep_evals
    return dict(evaluations=len(cases) + sweep_n, distinct_nontrivial=nt + sweep_nt, samples=samples, classes=classes,
                failing=failing, diffs=diffs, known_lines=known_lines, rule=rule, exhaustive=exhaustive,
                broken="correspondence chrono model vs convert_chrono.h / bin_timestamp.h (drv_chrono)")


def replay(rp, vlib):
    impl, model = drivers(vlib)
    line = rp["case"]
    a = canon(vlib.run_driver(impl, [line], jobs=1)[0])
    b = vlib.run_driver(model, [line], jobs=1)[0]
    v, why = judge(line, a)
    return dict(case=line, implementation=a, model=b, judge=v, why=why)
