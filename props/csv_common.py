"""Shared pieces of the CSV checks (C09; C01/C03/C10 reuse the drivers and generators):
drivers, table/case syntax, an independent RFC 4180 writer and parser (written here from the ABNF, used to
generate renderings and to judge an observed behaviour), generators, shrinkers."""
import os

DQ, CR, LF = 0x22, 0x0D, 0x0A
SEPS = [0x2C, 0x3B, 0x09, 0x20, 0x7C]
K = 256                     # CEncodedStreamReader<char> chunk size
BOM8 = bytes([0xEF, 0xBB, 0xBF])


def drivers(vlib):
    impl = vlib.build_cpp("drv_csv", ["drv_csv.cpp"], extra=vlib.repo_sources("src/csv/*.cpp"))
    model = vlib.build_model("csv")
    return impl, model


# ---------------------------------------------------------------- line protocol

def hx(b):
    return bytes(b).hex() if len(b) else "-"


def unhx(s):
    return b"" if s == "-" else bytes.fromhex(s)


def fmt_fields(fs):
    return ",".join(hx(f) for f in fs) if fs else "_"


def parse_fields(s):
    return [] if s == "_" else [unhx(x) for x in s.split(",")]


def fmt_table(hdr, rows):
    return "/".join([fmt_fields(hdr)] + [fmt_fields(r) for r in rows])


def parse_table(s):
    parts = s.split("/")
    return parse_fields(parts[0]), [parse_fields(p) for p in parts[1:]]


def fmt_cells(rows):
    """answer syntax of csvr for rows of cells (None = not loaded)"""
    if not rows:
        return "OK ."
    return "OK " + "/".join(",".join("~" if c is None else hx(c) for c in r) if r else "_" for r in rows)


def case_csvw(mode, sep, hdr, rows):
    return "csvw %s %02x %s" % (mode, sep, fmt_table(hdr, rows))


def case_csvwi(mode, with_header, sep, hdr, rows):
    return "csvwi %s %s %02x %s" % (mode, "H" if with_header else "N", sep, fmt_table(hdr, rows))


def case_csvr(mode, sep, keys, text):
    return "csvr %s %02x %s %s" % (mode, sep, fmt_fields(keys), hx(text))


# ---------------------------------------------------------------- RFC 4180, independently of the Coq text

def needs_quote(sep, f):
    return any(c in (DQ, sep, CR, LF) for c in f)


def render_field(sep, q, f):
    if q:
        return b'"' + bytes(f).replace(b'"', b'""') + b'"'
    assert not needs_quote(sep, f)
    return bytes(f)


def rfc_render(sep, table, quotes, eols, final):
    """table: list of records; quotes[i][j] bool; eols[i] in ('LF','CRLF'); final: break after the last record"""
    out = bytearray()
    for i, rec in enumerate(table):
        out += bytes([sep]).join(render_field(sep, quotes[i][j], f) for j, f in enumerate(rec))
        if i + 1 < len(table) or final:
            out += b"\n" if eols[i] == "LF" else b"\r\n"
    return bytes(out)


def rfc_parse_q(sep, text):
    """recursive descent over  file = record *(EOL record) [EOL];
    returns (list of records, per field 'was escaped' flags) or None"""
    n = len(text)
    if n == 0:
        return None                                            # a file has at least one record
    i = 0
    table = []
    flags = []
    while True:
        # record = field *(SEP field)
        rec = []
        fl = []
        while True:
            if i < n and text[i] == DQ:                       # escaped
                i += 1
                f = bytearray()
                while True:
                    if i >= n:
                        return None
                    if text[i] == DQ:
                        if i + 1 < n and text[i + 1] == DQ:
                            f.append(DQ); i += 2
                        else:
                            i += 1
                            break
                    else:
                        f.append(text[i]); i += 1
                rec.append(bytes(f)); fl.append(True)
            else:                                              # non-escaped = *TEXTDATA
                j = i
                while j < n and text[j] not in (DQ, sep, CR, LF):
                    j += 1
                rec.append(bytes(text[i:j])); fl.append(False)
                i = j
            if i < n and text[i] == sep:
                i += 1
                continue
            break
        table.append(rec)
        flags.append(fl)
        if i == n:
            return table, flags
        if text[i] == LF:
            i += 1
        elif text[i] == CR and i + 1 < n and text[i + 1] == LF:
            i += 2
        else:
            return None
        if i == n:                                             # the final line break starts no record
            return table, flags


def rfc_parse(sep, text):
    r = rfc_parse_q(sep, text)
    return None if r is None else r[0]


def cell(hdr, row, key):
    for h, v in zip(hdr, row):
        if h == key:
            return v
    return None


def select(hdr, keys, rows):
    return [[cell(hdr, r, k) for k in keys] for r in rows]


def utf8_detected(text):
    first = text[:K]
    if 0 in first:
        return False
    if first[:2] in (b"\xff\xfe", b"\xfe\xff"):
        return False
    return True


# ---------------------------------------------------------------- generators

PLAIN = b"abcxyzABZ0129_-.:/()"
MULTI = ["é", "ß", "€", "中", "日本", "😀", "𝄞", "ж"]


def gen_field(rng, sep, long_ok=True, allow_nul=False):
    k = rng.random()
    if k < 0.12:
        n = 0
    elif k < 0.70:
        n = rng.randrange(1, 7)
    elif k < 0.80 or not long_ok:
        n = rng.randrange(7, 40)
    elif k < 0.93:
        n = rng.randrange(244, 268)
    else:
        n = rng.randrange(100, 700)
    prof = rng.random()
    out = bytearray()
    while len(out) < n:
        r = rng.random()
        if prof < 0.25:              # plain text only
            out.append(rng.choice(PLAIN))
        elif r < 0.35:
            out.append(rng.choice(PLAIN))
        elif r < 0.47:
            out.append(DQ)
        elif r < 0.55:
            out.append(sep)
        elif r < 0.65:
            out.append(rng.choice(SEPS))
        elif r < 0.72:
            out.append(CR)
        elif r < 0.79:
            out.append(LF)
        elif r < 0.83:
            out += b"\r\n"
        elif r < 0.95:
            out += rng.choice(MULTI).encode("utf-8")
        else:
            lo = 0 if allow_nul else 1
            out.append(rng.randrange(lo, 256))
    return bytes(out[:max(n, 0)]) if n else b""


def gen_names(rng, sep, ncols, distinct=True):
    names = []
    while len(names) < ncols:
        k = rng.random()
        if k < 0.7:
            nm = bytes(rng.choice(PLAIN) for _ in range(rng.randrange(1, 5)))
        else:
            nm = gen_field(rng, sep, long_ok=(k > 0.95))
        if distinct and nm in names:
            continue
        names.append(nm)
    return names


def gen_table(rng, sep, allow_nul=False, max_rows=5):
    ncols = rng.choice([1, 1, 2, 2, 3, 3, 4, 5, 6])
    nrows = rng.choice([0, 1, 1, 2, 2, 3, 4, 5][:max_rows + 3])
    hdr = gen_names(rng, sep, ncols)
    # at most a few long fields per table
    longs = rng.choice([0, 0, 1, 2, 4])
    rows = []
    for _ in range(nrows):
        row = []
        for _ in range(ncols):
            lo = longs > 0 and rng.random() < 0.3
            if lo:
                longs -= 1
            row.append(gen_field(rng, sep, long_ok=lo, allow_nul=allow_nul))
        rows.append(row)
    return hdr, rows


def gen_choices(rng, sep, table, style=None):
    """random legal choices; style 'lib' = what the library writes (quote only when needed, CRLF, final break)"""
    if style is None:
        style = rng.choice(["lib", "rand", "rand", "rand", "allq", "minq"])
    quotes = []
    for rec in table:
        qs = []
        for f in rec:
            nq = needs_quote(sep, f)
            if style == "allq":
                q = True
            elif style in ("lib", "minq"):
                q = nq
            else:
                q = nq or rng.random() < 0.35
            qs.append(q)
        quotes.append(qs)
    if style == "lib":
        eols = ["CRLF"] * len(table)
        final = True
    else:
        m = rng.choice(["LF", "CRLF", "mix"])
        eols = [rng.choice(["LF", "CRLF"]) if m == "mix" else m for _ in table]
        final = rng.random() < 0.5
    # a last record rendered as the empty string must keep its line break
    last = table[-1]
    if not final and len(last) == 1 and last[0] == b"" and not quotes[-1][0]:
        if rng.random() < 0.5:
            final = True
        else:
            quotes[-1][0] = True
    return quotes, eols, final, style


def pad_to_boundary(rng, sep, table, quotes, eols, final):
    """lengthen the first header name so that an interesting token of the rendering straddles a multiple of K"""
    text = rfc_render(sep, table, quotes, eols, final)
    cands = []
    for i in range(len(table[0][0]) + 2, len(text)):
        two = text[i:i + 2]
        if two in (b'""', b"\r\n", bytes([DQ, sep]), bytes([sep, DQ]), b'"\n', b'"\r') or text[i] in (sep, LF, DQ):
            cands.append(i)
    if not cands:
        return table
    pos = rng.choice(cands)
    target = rng.choice([K - 1, K, K - 2, 2 * K - 1, 2 * K])
    pad = (target - pos) % K
    t2 = [list(r) for r in table]
    t2[0][0] = t2[0][0] + bytes(rng.choice(PLAIN[:6]) for _ in range(pad))
    if t2[0][0] in t2[0][1:]:
        return table
    return t2


def gen_keys(rng, hdr, sep):
    k = rng.random()
    keys = list(hdr)
    if k < 0.25:
        return keys, "order"
    if k < 0.6:
        rng.shuffle(keys)
        return keys, "perm"
    if k < 0.7:
        keys.reverse()
        return keys, "reverse"
    if k < 0.8:
        rng.shuffle(keys)
        return keys[:rng.randrange(0, len(keys) + 1)], "subset"
    if k < 0.9:
        rng.shuffle(keys)
        keys = keys + [rng.choice(hdr) for _ in range(rng.randrange(1, 3))]
        rng.shuffle(keys)
        return keys, "repeat"
    rng.shuffle(keys)
    keys.insert(rng.randrange(0, len(keys) + 1), bytes(rng.choice(PLAIN) for _ in range(6)))
    return keys, "absent"


def mutate(rng, sep, text):
    """malformed stream: unbalanced / stray quotes, wrong widths, truncation, stray CR"""
    t = bytearray(text)
    kind = rng.choice(["delq", "insq", "trunc", "addsep", "delsep", "stray", "cr", "dupline", "byte"])
    if not t:
        return bytes([rng.choice([DQ, sep, CR, LF, 0x61])]), kind
    if kind == "delq":
        qs = [i for i, c in enumerate(t) if c == DQ]
        if qs:
            del t[rng.choice(qs)]
        else:
            t.insert(rng.randrange(len(t) + 1), DQ)
    elif kind == "insq":
        t.insert(rng.randrange(len(t) + 1), DQ)
    elif kind == "trunc":
        del t[rng.randrange(len(t)):]
    elif kind == "addsep":
        t.insert(rng.randrange(len(t) + 1), sep)
    elif kind == "delsep":
        ss = [i for i, c in enumerate(t) if c == sep]
        if ss:
            del t[rng.choice(ss)]
        else:
            t.insert(rng.randrange(len(t) + 1), sep)
    elif kind == "stray":
        p = rng.randrange(len(t) + 1)
        t[p:p] = rng.choice([b'a"b', b'"x', b'x"', b'""', b'"""', b'" "'])
    elif kind == "cr":
        t.insert(rng.randrange(len(t) + 1), CR)
    elif kind == "dupline":
        p = rng.randrange(len(t) + 1)
        t[p:p] = rng.choice([b"\r\n", b"\n", b"\r\n\r\n", b"\n\n"])
    else:
        t[rng.randrange(len(t))] = rng.choice([DQ, sep, CR, LF, 0x61, 0xC3, 0x80])
    return bytes(t), kind


def load_corpus(prop):
    import vlib
    p = os.path.join(vlib.VERIF, "corpus", prop + ".cases")
    if not os.path.exists(p):
        return []
    return [l.rstrip("\n") for l in open(p) if l.strip() and not l.startswith("#")]
