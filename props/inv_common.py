"""Shared pieces of the `inv` checks (C19, C20): regeneration of coq/InvGenerated.v from the current sources
(tools/inventory.py, clang AST), builds of the sanitizer drivers, small helpers."""
import json, os, re, subprocess, sys, tempfile

HERE = os.path.dirname(os.path.abspath(__file__))
VERIF = os.path.dirname(HERE)
sys.path.insert(0, os.path.join(VERIF, "tools"))
import inventory  # noqa: E402

_INV = None


def regenerate():
    """translator step: rewrite coq/InvGenerated.v from what the code says now (cached by content hash of the
    repository's include/ and src/ trees).  Called at import time of props/C19.py and props/C20.py, i.e. before
    `check` builds Properties_Cxx.vo, unless VERIF_NO_REGEN=1."""
    global _INV
    if _INV is None:
        _INV = inventory.regenerate(quiet=False)
    return _INV


def maybe_regenerate():
    if os.environ.get("VERIF_NO_REGEN") != "1":
        try:
            return regenerate()
        except Exception as e:      # recorded: run() of C19 / C20 reports it as a broken tie (never a silent pass on the stale file)
            global REGEN_ERROR
            REGEN_ERROR = repr(e)
            print("[inv] inventory regeneration failed: %r" % (e,), file=sys.stderr)
    return None


REGEN_ERROR = None


def current_inventory():
    """the inventory that corresponds to coq/InvGenerated.v (for reports); None when regeneration is disabled"""
    return _INV if _INV is not None else maybe_regenerate()


def coq_eval(expr, imports="InvSpec InvGenerated"):
    """evaluate a closed Gallina term of type list string / list (string * list string) with the kernel and return
    the string literals of the printed value (used only to NAME offenders in reports; the verdict is the theorem)"""
    coq = os.path.join(VERIF, "coq")
    src = "From Coq Require Import String List Bool.\nFrom BS Require Import %s.\nImport ListNotations.\nEval vm_compute in (%s).\n" % (imports, expr)
    with tempfile.TemporaryDirectory(prefix="inv_coq_") as d:
        f = os.path.join(d, "InvQuery.v")
        open(f, "w").write(src)
        p = subprocess.run(["timeout", "300", "coqc", "-Q", coq, "BS", f], capture_output=True, text=True, cwd=d)
    if p.returncode != 0:
        return None
    out = p.stdout
    return [s.replace('""', '"') for s in re.findall(r'"((?:[^"]|"")*)"', out)]


def expected_throwing_dtors():
    txt = open(os.path.join(VERIF, "coq", "InvSpec.v")).read()
    m = re.search(r"Definition expected_throwing_dtors.*?:=(.*?)\]\s*\.\s*\n\s*\n", txt, re.S)
    if not m:
        return None
    body = m.group(1)
    entries = re.findall(r'\(\s*"([^"]+)"\s*,\s*\[(.*?)\]\s*\)', body, re.S)
    return [(n, re.findall(r'"([^"]+)"', c)) for n, c in entries]


def load_known(vlib, prop):
    """known findings of this property: /verif/known_findings.jsonl only (the interface's single source)"""
    return [k for k in vlib.load_known(prop) if k.get("status") == "known"]


def load_corpus(prop):
    p = os.path.join(VERIF, "corpus", prop + ".cases")
    if not os.path.exists(p):
        return []
    return [l.rstrip("\n") for l in open(p) if l.strip() and not l.startswith("#")]


REPO_SRC = ("src/msgpack/*.cpp", "src/csv/*.cpp", "src/common/*.cpp")


def build_fault(vlib):
    # -fno-inline keeps the destructor frames on the stack that the terminate handler prints (attribution of a
    # TERMINATE to the destructor that let the exception out); alignment check off while F35 is open (DESIGN 2.3)
    return vlib.build_cpp("drv_fault", ["drv_fault.cpp"] + vlib.repo_sources(*REPO_SRC),
                          extra=["-fno-sanitize=alignment", "-fno-inline"], libs=["-lpugixml"])


def build_threads(vlib):
    return vlib.build_cpp("drv_threads", ["drv_threads.cpp"] + vlib.repo_sources(*REPO_SRC),
                          extra=["-fsanitize=thread", "-pthread"], libs=["-lpugixml"], sanitize=False)
