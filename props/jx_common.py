"""Shared pieces of the jx checks (C08 and the JSON/XML half of C01): the catalogue of typed targets
(same list as `catalogue` in coq/JxModel.v and run_arch in harness/drv_jx.cpp), value generators,
independent re-rendering emitters (hand-written, stdlib json / ElementTree only as second opinions),
classification of the known defect classes, the staged run:

  stage 1  implementation:  jx.rt  (save with a configuration, load the produced bytes back)
  stage 2  model:           m.chk  (decode per configuration -> verified reference parser -> DOM vs the
                                    model's DOM of the value; also the model's own document vs the bytes)
                            m.load (the model's prediction of every load)
  stage 3  re-renderings of each produced document by the emitters below -> jx.load vs m.load, and
           vs the load of the original document (the property itself)
"""
import json, os, random, re, struct
from fractions import Fraction

# ------------------------------------------------------------------ catalogue
INT_RANGE = {"I8": (-128, 127), "U8": (0, 255), "I16": (-32768, 32767), "U16": (0, 65535),
             "I32": (-2 ** 31, 2 ** 31 - 1), "U32": (0, 2 ** 32 - 1), "I64": (-2 ** 63, 2 ** 63 - 1), "U64": (0, 2 ** 64 - 1)}


def I(k):
    return ("int", k)


NULL, BOOL, DBL, STR = ("null",), ("bool",), ("dbl",), ("str",)


def VEC(t):
    return ("vec", t)


def MAP(t):
    return ("map", t)


INNER = ("obj", [("x", "e", I("I32")), ("name", "e", STR)])
MIX = ("obj", [("b", "e", BOOL), ("i8", "e", I("I8")), ("u8", "e", I("U8")), ("i16", "e", I("I16")), ("u16", "e", I("U16")),
               ("i32", "e", I("I32")), ("u32", "e", I("U32")), ("i64", "e", I("I64")), ("u64", "e", I("U64")),
               ("d", "e", DBL), ("s", "e", STR), ("n", "e", NULL), ("vi", "e", VEC(I("I32"))), ("vs", "e", VEC(STR)),
               ("ms", "e", MAP(STR)), ("inner", "e", INNER), ("inners", "e", VEC(INNER)), ("vv", "e", VEC(VEC(I("I32"))))])
ATTR = ("obj", [("a", "a", I("I32")), ("s", "a", STR), ("b", "a", BOOL), ("u", "a", I("U64")), ("v", "e", I("I32")), ("t", "e", STR)])
ATTRONLY = ("obj", [("x", "a", I("I32")), ("type", "a", STR)])
ATTRNUM = ("obj", [("i8", "a", I("I8")), ("u8", "a", I("U8")), ("i16", "a", I("I16")), ("u32", "a", I("U32")), ("i64", "a", I("I64")), ("b", "a", BOOL), ("d", "a", DBL)])
FLT = ("flt",)
ENUM_NAMES = ["Red", "green", "Dark Blue&<"]
ENUM = ("enum", ENUM_NAMES)


def OPT(t):
    return ("opt", t)


OPTC = ("obj", [("oi", "e", OPT(I("I32"))), ("os", "e", OPT(STR)), ("uv", "e", OPT(VEC(I("I32")))), ("sp", "e", OPT(INNER)),
                ("f", "e", FLT), ("e", "e", ENUM), ("vb", "e", VEC(BOOL)), ("c", "e", I("I8"))])

CAT = [NULL, BOOL, I("I8"), I("U8"), I("I16"), I("U16"), I("I32"), I("U32"), I("I64"), I("U64"), DBL, STR,
       VEC(I("I32")), VEC(I("U32")), VEC(I("I64")), VEC(I("U64")), VEC(DBL), VEC(STR), VEC(NULL),
       VEC(VEC(I("I32"))), VEC(VEC(STR)), VEC(MAP(I("I32"))),
       MAP(BOOL), MAP(I("I32")), MAP(I("U64")), MAP(DBL), MAP(STR), MAP(VEC(I("I32"))), MAP(MAP(STR)),
       INNER, MIX, VEC(INNER), MAP(INNER), ATTR, VEC(ATTR), ATTRONLY, VEC(ATTRONLY),
       STR, STR, STR, VEC(STR), MAP(STR),          # u16string, u32string, wstring, vector<u16string>, map<string,u32string>
       VEC(BOOL), FLT, VEC(FLT), MAP(FLT), ENUM, VEC(ENUM), MAP(ENUM), I("I8"), VEC(I("I8")),       # 42..50: vector<bool>, float, enum, char
       OPT(I("I32")), OPT(STR), VEC(OPT(I("I32"))), VEC(OPT(STR)), MAP(OPT(DBL)), OPT(VEC(I("I32"))),   # 51..56: optional / unique_ptr
       OPTC, VEC(OPTC),                                                                              # 57, 58
       ATTRNUM, VEC(ATTRNUM)]                                                                         # 59, 60: numeric attributes (XML only)

JSON_TYPES = [i for i in range(len(CAT)) if i not in (33, 34, 35, 36, 59, 60)]
XML_TYPES = [i for i in range(12, len(CAT)) if i not in (37, 38, 39, 43, 46, 49, 51, 52, 56)]
ENCODINGS = ["utf8", "utf16le", "utf16be", "utf32le", "utf32be"]
PYCODEC = {"utf8": "utf-8", "utf16le": "utf-16-le", "utf16be": "utf-16-be", "utf32le": "utf-32-le", "utf32be": "utf-32-be"}
BOM = {"utf8": b"\xef\xbb\xbf", "utf16le": b"\xff\xfe", "utf16be": b"\xfe\xff", "utf32le": b"\xff\xfe\x00\x00", "utf32be": b"\x00\x00\xfe\xff"}


# ------------------------------------------------------------------ values: ('n',) ('b',bool) ('i',int) ('d',bits) ('s',str) ('a',[..]) ('o',[(k,v)..])
def hx(s):
    return s.encode("utf-8").hex()


def fmt_value(v):
    k = v[0]
    if k == "n":
        return "n"
    if k == "b":
        return "t" if v[1] else "f"
    if k == "i":
        return "i%d" % v[1]
    if k == "d":
        return "d%016x" % v[1]
    if k == "s":
        return "s" + hx(v[1])
    if k == "a":
        return "[" + ",".join(fmt_value(x) for x in v[1]) + "]"
    if k == "g":
        return "g%016x" % v[1]
    if k == "e":
        return "e%d" % v[1]
    if k == "O":
        return "o-" if v[1] is None else "o+" + fmt_value(v[1])
    return "{" + ",".join("s%s:%s" % (hx(kk), fmt_value(x)) for kk, x in v[1]) + "}"


def parse_value(s):
    pos = [0]

    def peek():
        return s[pos[0]] if pos[0] < len(s) else ""

    def hexstr():
        st = pos[0]
        while peek() and peek() in "0123456789abcdef":
            pos[0] += 1
        return bytes.fromhex(s[st:pos[0]])

    def value():
        c = peek()
        if c == "n":
            pos[0] += 1; return ("n",)
        if c in "tf":
            pos[0] += 1; return ("b", c == "t")
        if c == "i":
            pos[0] += 1; st = pos[0]
            if peek() == "-":
                pos[0] += 1
            while peek().isdigit():
                pos[0] += 1
            return ("i", int(s[st:pos[0]]))
        if c == "d":
            pos[0] += 1; st = pos[0]; pos[0] += 16
            return ("d", int(s[st:pos[0]], 16))
        if c == "g":
            pos[0] += 1; st = pos[0]; pos[0] += 16
            return ("g", int(s[st:pos[0]], 16))
        if c == "e":
            pos[0] += 1; st = pos[0]
            while peek().isdigit():
                pos[0] += 1
            return ("e", int(s[st:pos[0]]))
        if c == "o":
            pos[0] += 1
            if peek() == "-":
                pos[0] += 1; return ("O", None)
            assert peek() == "+"; pos[0] += 1
            return ("O", value())
        if c == "s":
            pos[0] += 1
            return ("s", hexstr())          # bytes: a loaded string is shown as its raw bytes
        if c == "[":
            pos[0] += 1; items = []
            if peek() == "]":
                pos[0] += 1; return ("a", items)
            items.append(value())
            while peek() == ",":
                pos[0] += 1; items.append(value())
            assert peek() == "]"; pos[0] += 1
            return ("a", items)
        if c == "{":
            pos[0] += 1; items = []
            if peek() == "}":
                pos[0] += 1; return ("o", items)
            while True:
                assert peek() == "s"; pos[0] += 1
                k = hexstr(); assert peek() == ":"; pos[0] += 1
                items.append((k, value()))
                if peek() == ",":
                    pos[0] += 1; continue
                break
            assert peek() == "}"; pos[0] += 1
            return ("o", items)
        raise ValueError("value syntax: " + s[:40])

    v = value()
    assert pos[0] == len(s)
    return v


def bits_of(f):
    return struct.unpack("<Q", struct.pack("<d", f))[0]


def float_of(bits):
    return struct.unpack("<d", struct.pack("<Q", bits))[0]


def nonfinite(bits):
    return (bits >> 52) & 0x7FF == 0x7FF


# ------------------------------------------------------------------ generators
XML_NAMECHARS = "abcxyzABCZ_" + "éØΔ中あ"
XML_NAMEREST = XML_NAMECHARS + "0189-.·́:"


def xml_char_ok(c):
    o = ord(c)
    return o in (9, 10, 13) or 0x20 <= o <= 0xD7FF or 0xE000 <= o <= 0xFFFD or 0x10000 <= o <= 0x10FFFF


def rand_cp(rng, arch):
    k = rng.random()
    if k < 0.40:
        return chr(rng.randrange(0x20, 0x7F))
    if k < 0.52:
        return rng.choice('"\\/<>&\'')
    if k < 0.60:
        if arch == "json":
            return chr(rng.choice([0, 1, 8, 9, 10, 12, 13, 0x1F, 0x7F, rng.randrange(0, 0x20)]))
        return rng.choice("\t\n \u007f")
    if k < 0.72:
        return chr(rng.choice([0x80, 0xA0, 0xE9, 0xFF, 0x100, 0x7FF, 0x800, 0x20AC, 0x2028, 0x2029, 0xD7FF, 0xE000, 0xFFFD, rng.randrange(0x80, 0xD800)]))
    if k < 0.76 and arch == "json":
        return chr(rng.choice([0xFFFE, 0xFFFF, 0xFDD0]))
    if k < 0.90:
        return chr(rng.choice([0x10000, 0x1F600, 0x10FFFF, 0xEFFFF, rng.randrange(0x10000, 0x110000)]))
    return chr(rng.randrange(0xE000, 0xFFFE))


def rand_string(rng, arch, special=True):
    k = rng.random()
    if k < 0.10:
        return ""
    if special and k < 0.14:
        return rng.choice([" ", "  ", "\t", "\n", " \n "])                 # white space only
    if special and k < 0.18:
        return rng.choice(["a\rb", "\r\n", "x\r"])                         # carriage returns
    if k < 0.22:
        return rng.choice(["]]>", "<![CDATA[x]]>", "&amp;", "&#65;", "<!--c-->", "</value>", "\\u0041", "\\\"", "null", "1e5"])
    if k < 0.26:
        return " " + "".join(rand_cp(rng, arch) for _ in range(rng.randrange(1, 4))) + " "
    n = rng.choice([1, 1, 2, 3, 5, 8, 13])
    return "".join(rand_cp(rng, arch) for _ in range(n))


def rand_key(rng, arch):
    if arch == "xml":
        return rng.choice(XML_NAMECHARS) + "".join(rng.choice(XML_NAMEREST) for _ in range(rng.choice([0, 1, 2, 4])))
    k = rng.random()
    if k < 0.05:
        return ""
    if k < 0.08:
        return rng.choice(["a\0", "\0", "k\0x"])                           # embedded NUL
    if k < 0.5:
        return "".join(rng.choice("abckxyz_-. 019") for _ in range(rng.choice([1, 2, 3])))
    return "".join(rand_cp(rng, arch) for _ in range(rng.choice([1, 2, 3])))


DBL_SPECIAL = [0x0, 0x8000000000000000, 0x3FF0000000000000, 0xBFF0000000000000, 0x3FB999999999999A, 0x3FD5555555555555,
               0x4340000000000000, 0x433FFFFFFFFFFFFF, 0x4340000000000001, 0x7FEFFFFFFFFFFFFF, 0xFFEFFFFFFFFFFFFF, 0x0000000000000001,
               0x000FFFFFFFFFFFFF, 0x0010000000000000, 0x3FF0000000000001, 0x400921FB54442D18, 0x4059000000000000, 0x41DFFFFFFFC00000,
               0x43E0000000000000, 0x43F0000000000000, 0xC3E0000000000000, 0x3E7AD7F29ABCAF48, 0x44B52D02C7E14AF6, 0x3CB0000000000000]
DBL_NONFINITE = [0x7FF0000000000000, 0xFFF0000000000000, 0x7FF8000000000000, 0x7FF0000000000001, 0xFFF8000000000000]


def rand_double(rng):
    k = rng.random()
    if k < 0.35:
        return rng.choice(DBL_SPECIAL)
    if k < 0.40:
        return rng.choice(DBL_NONFINITE)
    if k < 0.65:
        return bits_of(float(rng.randrange(-10 ** 6, 10 ** 6)) / rng.choice([1, 2, 4, 8, 10, 100, 1000]))
    if k < 0.80:
        return bits_of(float("%d.%de%d" % (rng.randrange(0, 10), rng.randrange(0, 10 ** 6), rng.randrange(-30, 30))))
    b = rng.getrandbits(64)
    return b if not nonfinite(b) else b & 0x800FFFFFFFFFFFFF


def f32_as_double_bits(f32bits):
    return bits_of(struct.unpack("<f", struct.pack("<I", f32bits))[0])


FLT_SPECIAL = [0x00000000, 0x80000000, 0x3F800000, 0xBF800000, 0x3DCCCCCD, 0x7F7FFFFF, 0xFF7FFFFF, 0x00000001, 0x007FFFFF, 0x00800000,
               0x3F800001, 0x40490FDB, 0x4B7FFFFF, 0x4B800000, 0x7F800000, 0xFF800000, 0x7FC00000]


def rand_float(rng):
    k = rng.random()
    if k < 0.4:
        return f32_as_double_bits(rng.choice(FLT_SPECIAL))
    if k < 0.7:
        return bits_of(struct.unpack("<f", struct.pack("<f", float(rng.randrange(-10 ** 5, 10 ** 5)) / rng.choice([1, 2, 4, 8, 10, 100])))[0])
    b = rng.getrandbits(32)
    if (b >> 23) & 0xFF == 0xFF:
        b &= 0x807FFFFF
    return f32_as_double_bits(b)


def rand_int(rng, kind):
    lo, hi = INT_RANGE[kind]
    k = rng.random()
    if k < 0.35:
        c = [lo, hi, 0, 1, lo + 1, hi - 1]
        if lo < 0:
            c += [-1]
        c += [x for x in (127, 128, 255, 256, 32767, 32768, 65535, 65536, 2 ** 31 - 1, 2 ** 31, 2 ** 32 - 1, 2 ** 32, 2 ** 53, 2 ** 63 - 1, 2 ** 63,
                          -128, -129, -32768, -32769, -2 ** 31, -2 ** 31 - 1, -2 ** 53) if lo <= x <= hi]
        return rng.choice(c)
    if k < 0.7:
        return max(lo, min(hi, rng.randrange(-1000, 1000)))
    return rng.randrange(lo, hi + 1)


def gen_value(rng, ty, arch, depth=0, nonempty=0.0):
    k = ty[0]
    if k == "null":
        return ("n",)
    if k == "bool":
        return ("b", rng.random() < 0.5)
    if k == "int":
        return ("i", rand_int(rng, ty[1]))
    if k == "dbl":
        return ("d", rand_double(rng))
    if k == "str":
        return ("s", rand_string(rng, arch))
    if k == "flt":
        return ("g", rand_float(rng))
    if k == "enum":
        return ("e", rng.randrange(len(ty[1])))
    if k == "opt":
        return ("O", None) if rng.random() < 0.3 else ("O", gen_value(rng, ty[1], arch, depth + 1, nonempty))
    if k == "vec":
        n = rng.choice([0, 1, 1, 2, 3, 5]) if depth < 2 else rng.choice([0, 1, 2])
        if n == 0 and depth > 0 and rng.random() < nonempty:
            n = 1
        return ("a", [gen_value(rng, ty[1], arch, depth + 1, nonempty) for _ in range(n)])
    if k == "map":
        n = rng.choice([0, 1, 1, 2, 3]) if depth < 2 else rng.choice([0, 1, 2])
        if n == 0 and depth > 0 and rng.random() < nonempty:
            n = 1
        keys = sorted(set(rand_key(rng, arch) for _ in range(n)), key=lambda s: s.encode("utf-8"))
        return ("o", [(kk, gen_value(rng, ty[1], arch, depth + 1, nonempty)) for kk in keys])
    return ("o", [(name, gen_value(rng, ft, arch, depth + 1, nonempty)) for name, _, ft in ty[1]])


def default_value(ty):
    k = ty[0]
    if k == "flt":
        return ("g", 0)
    if k == "enum":
        return ("e", 0)
    if k == "opt":
        return ("O", None)
    return {"null": ("n",), "bool": ("b", False), "int": ("i", 0), "dbl": ("d", 0), "str": ("s", "")}.get(k) or \
        (("a", []) if k == "vec" else ("o", []) if k == "map" else ("o", [(n, default_value(t)) for n, _, t in ty[1]]))


def walk(ty, v, f, path=(), level=0, kind="e"):
    """f(ty, v, level, kind) on every node; level 0 = root"""
    f(ty, v, level, kind)
    if ty[0] == "vec":
        for x in v[1]:
            walk(ty[1], x, f, path, level + 1, "e")
    elif ty[0] == "map":
        for _, x in v[1]:
            walk(ty[1], x, f, path, level + 1, "e")
    elif ty[0] == "obj":
        for (n, fk, ft), (_, x) in zip(ty[1], v[1]):
            walk(ft, x, f, path, level + 1, fk)
    elif ty[0] == "opt" and v[1] is not None:
        walk(ty[1], v[1], f, path, level, kind)


def all_strings(ty, v, keys=True):
    out = []

    def f(t, x, level, kind):
        if t[0] == "str":
            out.append(x[1])
        if keys and t[0] == "map":
            out.extend(k for k, _ in x[1])
    walk(ty, v, f)
    return out


# ------------------------------------------------------------------ defect classes (decidable from the case)
def classes_of(arch, cfg, tyi, v):
    """ids of the known defect classes this save/load-back case falls into"""
    ty = CAT[tyi]
    medium, enc, bom, fmt = cfg.split(":")
    cl = set()
    if arch == "json":
        pass
    else:
        st = {"cr": False, "f29n": False, "f53": False}

        def f(t, x, level, kind):
            if t[0] == "str" and kind == "e" and "\r" in x[1]:
                st["cr"] = True
            if t[0] == "opt" and x[1] is None and t[1][0] in ("vec", "map", "obj"):
                st["f29n"] = True
            if t[0] == "opt" and x[1] is not None and t[1][0] == "str" and x[1][1] == "":
                st["f53"] = True
        walk(ty, v, f)
        if st["cr"]:
            cl.add("J41")
        if st["f29n"]:
            cl.add("F29n")
        if st["f53"]:
            cl.add("F53")
        if medium == "stream" and enc != "utf8" and bom == "0":
            cl.add("J47")
    return cl


def same_mod_nan(a, b):
    """two 'OK <value>' answers equal up to the payload / sign of NaNs (any NaN equals any NaN)"""
    if not (a.startswith("OK ") and b.startswith("OK ")):
        return False

    def eq(x, y):
        if x[0] != y[0]:
            return False
        if x[0] in ("d", "g"):
            xn, yn = nonfinite(x[1]) and x[1] & 0xFFFFFFFFFFFFF, nonfinite(y[1]) and y[1] & 0xFFFFFFFFFFFFF
            return (xn and yn) or x[1] == y[1]
        if x[0] == "O":
            return (x[1] is None and y[1] is None) or (x[1] is not None and y[1] is not None and eq(x[1], y[1]))
        if x[0] == "a":
            return len(x[1]) == len(y[1]) and all(eq(p, q) for p, q in zip(x[1], y[1]))
        if x[0] == "o":
            return len(x[1]) == len(y[1]) and all(kp == kq and eq(p, q) for (kp, p), (kq, q) in zip(x[1], y[1]))
        return x == y
    try:
        return eq(parse_value(a[3:]), parse_value(b[3:]))
    except Exception:
        return False


# ------------------------------------------------------------------ independent JSON emitter
class NumLex(str):
    pass


class _Reject:
    def __repr__(self):
        return "REJECT"


REJECT = _Reject()


def py_json_parse(text):
    """Python's json as a second opinion: DOM with number lexemes kept and members in document order; REJECT = rejected"""
    def bad(x):
        raise ValueError("constant")
    try:
        d = json.loads(text, object_pairs_hook=lambda p: ("o", p), parse_int=NumLex, parse_float=NumLex, parse_constant=bad)
    except (ValueError, RecursionError):
        return REJECT

    def conv(x):
        if isinstance(x, tuple) and x and x[0] == "o":
            return ("o", [(k, conv(v)) for k, v in x[1]])
        if isinstance(x, list):
            return ("a", [conv(v) for v in x])
        return x

    def has_surrogate(x):
        if isinstance(x, NumLex):
            return False
        if isinstance(x, str):
            return any(0xD800 <= ord(c) <= 0xDFFF for c in x)
        if isinstance(x, tuple) and x[0] == "o":
            return any(has_surrogate(k) or has_surrogate(v) for k, v in x[1])
        if isinstance(x, tuple) and x[0] == "a":
            return any(has_surrogate(v) for v in x[1])
        return False
    d = conv(d)
    return REJECT if has_surrogate(d) else d


def fmt_pydom(d):
    """the same syntax as the model driver's m.parse answer"""
    if d is None:
        return "n"
    if d is True:
        return "t"
    if d is False:
        return "f"
    if isinstance(d, NumLex):
        return "#" + d
    if isinstance(d, str):
        return "s" + hx(d)
    if d[0] == "a":
        return "[" + ",".join(fmt_pydom(x) for x in d[1]) + "]"
    return "{" + ",".join("s%s:%s" % (hx(k), fmt_pydom(x)) for k, x in d[1]) + "}"


WS = [" ", "\t", "\n", "\r"]


def rws(rng, level):
    if level == 0:
        return ""
    return "".join(rng.choice(WS) for _ in range(rng.choice([0, 0, 1, 1, 2, 3])))


def emit_json_string(rng, s, esc):
    out = ['"']
    for c in s:
        o = ord(c)
        must = c in '"\\' or o < 0x20
        k = rng.random()
        if esc == "all" or (esc == "mix" and k < 0.35) or (must and k < 0.5):
            if o >= 0x10000:
                v = o - 0x10000
                hi, lo = 0xD800 + (v >> 10), 0xDC00 + (v & 0x3FF)
                h = "\\u%04x\\u%04x" % (hi, lo)
            else:
                h = "\\u%04x" % o
            out.append(h.upper().replace("\\U", "\\u") if rng.random() < 0.5 else h)
        elif must or (esc == "mix" and c == "/" and k < 0.7):
            short = {'"': '\\"', "\\": "\\\\", "/": "\\/", "\b": "\\b", "\f": "\\f", "\n": "\\n", "\r": "\\r", "\t": "\\t"}
            out.append(short.get(c, "\\u%04x" % o))
        else:
            out.append(c)
    out.append('"')
    return "".join(out)


def respell_number(rng, lex, keep_class=True):
    """another RFC 8259 spelling of exactly the same number; keep_class: an integer spelling stays one
    (it is unique), a spelling with fraction/exponent keeps a fraction or an exponent"""
    m = re.fullmatch(r"(-?)(\d+)(?:\.(\d+))?(?:[eE]([+-]?\d+))?", lex)
    sign, ip, fp, ex = m.group(1), m.group(2), m.group(3), m.group(4)
    is_int = fp is None and ex is None
    if is_int and keep_class:
        return lex
    D = (ip + (fp or "")).lstrip("0") or "0"
    E = int(ex or "0") - len(fp or "")
    if D == "0":
        cand = ["0.0", "0e0", "0.000", "0E+5", "0.0e-3"] + ([] if keep_class else ["0"])
        return sign + rng.choice(cand)
    z = rng.choice([0, 0, 1, 2, 3])
    D2, E2 = D + "0" * z, E - z
    p = rng.randrange(0, len(D2) + 1)
    ipart, fpart = (D2[:p] or "0"), D2[p:]
    e_out = E2 + len(fpart)
    out = sign + ipart
    if fpart:
        out += "." + fpart
    need_exp = e_out != 0 or (not fpart and keep_class)
    if need_exp or rng.random() < 0.3:
        mag = "%d" % abs(e_out)
        if rng.random() < 0.3:
            mag = "0" * rng.randrange(1, 3) + mag
        out += rng.choice("eE") + ("-" if e_out < 0 else rng.choice(["", "+"])) + mag
    return out


def num_value(lex):
    m = re.fullmatch(r"(-?)(\d+)(?:\.(\d+))?(?:[eE]([+-]?\d+))?", lex)
    sign, ip, fp, ex = m.group(1), m.group(2), m.group(3), m.group(4)
    v = Fraction(int(ip + (fp or "")), 1) * Fraction(10) ** (int(ex or "0") - len(fp or ""))
    return -v if sign else v


def emit_json(rng, d, opts, level=0):
    """opts: ws (0/1), esc (lit/mix/all), order (bool), spell (keep/same/change)"""
    w = lambda: rws(rng, opts["ws"])
    if d is None:
        return "null"
    if d is True:
        return "true"
    if d is False:
        return "false"
    if isinstance(d, NumLex):
        if opts["spell"] == "keep":
            return str(d)
        s = respell_number(rng, str(d), keep_class=(opts["spell"] == "same"))
        assert num_value(s) == num_value(str(d)), (d, s)
        return s
    if isinstance(d, str):
        return emit_json_string(rng, d, opts["esc"])
    if d[0] == "a":
        return "[" + w() + ("," + w()).join(emit_json(rng, x, opts, level + 1) + w() for x in d[1]) + "]"
    members = list(d[1])
    if opts["order"] and len(set(k for k, _ in members)) == len(members):
        rng.shuffle(members)
    return "{" + w() + ("," + w()).join(emit_json_string(rng, k, opts["esc"]) + w() + ":" + w() + emit_json(rng, x, opts, level + 1) + w() for k, x in members) + "}"


def pydom_equiv(a, b):
    """same data model up to member order and numeric spelling"""
    if isinstance(a, NumLex) or isinstance(b, NumLex):
        return isinstance(a, NumLex) and isinstance(b, NumLex) and num_value(a) == num_value(b)
    if isinstance(a, tuple) and isinstance(b, tuple) and a[0] == b[0]:
        if a[0] == "a":
            return len(a[1]) == len(b[1]) and all(pydom_equiv(x, y) for x, y in zip(a[1], b[1]))
        if len(a[1]) != len(b[1]):
            return False
        if len(set(k for k, _ in a[1])) == len(a[1]):
            db = dict(b[1])
            return all(k in db and pydom_equiv(x, db[k]) for k, x in a[1])
        return all(ka == kb and pydom_equiv(x, y) for (ka, x), (kb, y) in zip(a[1], b[1]))
    return type(a) == type(b) and a == b


def encode_text(text, enc, bom):
    return (BOM[enc] if bom else b"") + text.encode(PYCODEC[enc])


def decode_bytes(b, enc, bom):
    """strict decoding with BOM check; None when ill-formed"""
    if bom:
        if not b.startswith(BOM[enc]):
            return None
        b = b[len(BOM[enc]):]
    try:
        return b.decode(PYCODEC[enc], "strict")
    except UnicodeDecodeError:
        return None


def autoutf_detect(b):
    """rapidjson::AutoUTFInputStream::DetectType"""
    if len(b) < 4:
        return "utf8"
    if b[:4] == b"\x00\x00\xfe\xff":
        return "utf32be"
    if b[:4] == b"\xff\xfe\x00\x00":
        return "utf32le"
    if b[:2] == b"\xfe\xff":
        return "utf16be"
    if b[:2] == b"\xff\xfe":
        return "utf16le"
    if b[:3] == b"\xef\xbb\xbf":
        return "utf8"
    pat = sum((1 << i) for i in range(4) if b[i] != 0)
    return {0x08: "utf32be", 0x0A: "utf16be", 0x01: "utf32le", 0x05: "utf16le"}.get(pat, "utf8")


# ------------------------------------------------------------------ configurations
def rand_cfg(rng, arch):
    medium = rng.choice(["mem", "stream", "stream"])
    enc = rng.choice(ENCODINGS) if medium == "stream" or rng.random() < 0.2 else "utf8"
    bom = rng.choice("01")
    k = rng.random()
    if k < 0.4:
        fmt = "c"
    else:
        lo = 0 if arch == "json" else 1
        fmt = rng.choice("st") + str(rng.choice([lo, 1, 2, 2, 3, 4, 8, rng.randrange(lo, 9)]))
    return "%s:%s:%s:%s" % (medium, enc, bom, fmt)


def effective(cfg):
    medium, enc, bom, fmt = cfg.split(":")
    if medium == "mem":
        return "utf8", "0"
    return enc, bom


# ================================================================== layout of the produced documents (observation of the options)
JTOK = re.compile(r'"(?:\\.|[^"\\])*"|[\[\]{},:]|[^\s\[\]{},:"]+')


def json_layout_ok(text, fmt):
    """compact: no white space between tokens; pretty (RapidJSON PrettyWriter): every array item, member name and closing
    bracket of a non-empty container starts a line indented by depth x count padding characters, ': ' after a name"""
    pad = None if fmt == "c" else ((" " if fmt[0] == "s" else "\t") * int(fmt[1:]))
    pos = 0
    stack = []            # [kind, items so far, expecting value after colon]
    for m in JTOK.finditer(text):
        ws = text[pos:m.start()]
        t = m.group(0)
        pos = m.end()
        if pad is None:
            if ws:
                return False
            continue
        if t in ",:":
            exp = ""
            if t == ":":
                stack[-1][2] = True
        elif t in "]}":
            k = stack.pop()
            exp = ("\n" + pad * len(stack)) if k[1] else ""
        else:
            if not stack:
                exp = ""
            elif stack[-1][2]:
                exp = " "
                stack[-1][2] = False
            else:
                exp = "\n" + pad * len(stack)
                stack[-1][1] += 1
            if stack and stack[-1][0] == "[" and not stack[-1][2]:
                pass
            if t in "[{":
                stack.append([t, 0, False])
        if ws != exp:
            return False
    return text[pos:] == ""


def xml_layout_ok(text, fmt):
    """compact (format_raw): nothing between the tags; pretty (format_indent): every tag that starts a line is indented by
    depth x count padding characters (documents whose values contain no line break only)"""
    body = re.sub(r"^<\?xml[^>]*\?>", "", text)
    if fmt == "c":
        return not re.search(r">[ \t\r\n]+<", body)
    pad = (" " if fmt[0] == "s" else "\t") * int(fmt[1:])
    depth = 0
    for line in text.split("\n"):
        if not line:
            continue
        st = line.lstrip(" \t")
        ind = line[:len(line) - len(st)]
        if st.startswith("<?xml"):
            if ind:
                return False
            continue
        if st.startswith("</"):
            depth -= 1
            if ind != pad * depth:
                return False
            continue
        if not st.startswith("<"):
            return False
        if ind != pad * depth:
            return False
        # <a>, <a ...>: opens unless it is closed on the same line (<a/> or <a>text</a>)
        if not (st.endswith("/>") or re.search(r"</[^>]+>$", st)):
            depth += 1
    return depth == 0


# ================================================================== the staged run
VERIF = os.path.dirname(os.path.dirname(os.path.abspath(__file__)))


def drivers(vlib):
    impl = vlib.build_cpp("drv_jx", ["drv_jx.cpp"], libs=["-lpugixml"])
    model = vlib.build_model("jx")
    return impl, model


def load_known(vlib, prop):
    """known findings of this property, from /verif/known_findings.jsonl only (maintained by the coordinator)"""
    return [k for k in vlib.load_known(prop) if k.get("status") == "known" and k.get("driver", "jx") == "jx"]


def load_corpus(prop):
    p = os.path.join(VERIF, "corpus", prop + ".cases")
    if not os.path.exists(p):
        return []
    return [l.rstrip("\n") for l in open(p) if l.strip() and not l.startswith("#")]


def nontrivial_value(ty, v):
    """a case is non-trivial when its value has text outside printable ASCII or needing an escape, an integer beyond
    32 bits, a double, a nested or empty container, or null"""
    hit = [False]

    def f(t, x, level, kind):
        if t[0] == "str" and any(ord(c) < 0x20 or ord(c) > 0x7E or c in '"\\<>&\'' for c in x[1]):
            hit[0] = True
        if t[0] == "map" and any(any(ord(c) < 0x20 or ord(c) > 0x7E or c in '"\\<>&\'' for c in k) for k, _ in x[1]):
            hit[0] = True
        if t[0] == "int" and abs(x[1]) >= 2 ** 31:
            hit[0] = True
        if t[0] in ("dbl", "null", "flt", "opt", "enum"):
            hit[0] = True
        if t[0] in ("vec", "map") and (level > 0 or len(x[1]) == 0):
            hit[0] = True
    walk(ty, v, f)
    return hit[0]


def gen_stage1(rng, tier, arch):
    n = {"quick": 5000, "thorough": 150000}[tier] if arch == "json" else {"quick": 4000, "thorough": 120000}[tier]
    types = JSON_TYPES if arch == "json" else XML_TYPES
    cases = []
    for i in range(n):
        tyi = types[i % len(types)] if i < 3 * len(types) else rng.choice(types)
        cfg = rand_cfg(rng, arch)
        v = gen_value(rng, CAT[tyi], arch, 0)
        rootkey = "-"
        if arch == "xml" and rng.random() < 0.3:
            rootkey = rand_key(rng, "xml")
            if any(ord(c) > 127 for c in rootkey):
                rootkey = "Root"            # the driver's protocol is ASCII per token; names stay ASCII at the root
        cases.append(dict(arch=arch, cfg=cfg, tyi=tyi, rootkey=rootkey, v=v,
                          line="jx.rt %s %s %d %s %s" % (arch, cfg, tyi, rootkey, fmt_value(v))))
    return cases


def parse_rt_line(line):
    t = line.split(" ")
    return dict(arch=t[1], cfg=t[2], tyi=int(t[3]), rootkey=t[4], v=None, vtext=t[5], line=line)


def canon_loaded(ans):
    """'OK <value>' with strings as bytes -> comparable structure; other answers as they are"""
    if ans.startswith("OK "):
        try:
            return ("OK", parse_value(ans[3:]))
        except Exception:
            return ("?", ans)
    return ("X", ans)


def value_bytes(v):
    """the value with strings as UTF-8 bytes (the form parse_value gives for a loaded value)"""
    k = v[0]
    if k == "s":
        return ("s", v[1].encode("utf-8") if isinstance(v[1], str) else v[1])
    if k == "a":
        return ("a", [value_bytes(x) for x in v[1]])
    if k == "o":
        return ("o", [(kk.encode("utf-8") if isinstance(kk, str) else kk, value_bytes(x)) for kk, x in v[1]])
    if k == "O" and v[1] is not None:
        return ("O", value_bytes(v[1]))
    return v


def run_checks(prop, ctx, vlib, want=("C08", "C01")):
    """prop: the property whose known findings are consulted; want: which judgements count as failures"""
    impl, model = drivers(vlib)
    rng = ctx["rng"]
    tier = ctx["tier"]
    known = load_known(vlib, prop)
    known_ids = set(k["id"] for k in known)
    failing, diffs, notes, known_lines = [], [], [], []
    classes = {}
    stats = dict(documents=0, rerenderings=0, disagreements=0, known_class_cases=0, refparser_crosschecks=0)

    def bump(k, n=1):
        classes[k] = classes.get(k, 0) + n

    # ---------------- known findings: witnesses replayed on the implementation
    if known:
        outs = vlib.run_driver(impl, [k["case"] for k in known], jobs=1)
        for k, o in zip(known, outs):
            if o == k["implementation"]:
                known_lines.append("%s: %s [case: %s -> %s]" % (k["id"], k["what"], k["case"], o[:160]))
            else:
                notes.append("witness of known finding %s no longer reproduces: %s -> %s" % (k["id"], k["case"], o[:200]))
                # a listed finding that changed is reported (correspondence path), never passed over in silence
                diffs.append(dict(driver="jx", case=k["case"], implementation=o[:300], model=k["implementation"][:300], judge="KNOWN-FINDING-CHANGED",
                                  why="listed known finding %s no longer reproduces as recorded" % k["id"]))

    # ---------------- hand-made documents of the corpus: implementation vs model on the load (jx.load lines, UTF-8)
    lcases = [l for l in load_corpus(prop) if l.startswith("jx.load ")]
    if lcases:
        lm = []
        for l in lcases:
            t = l.split(" ")
            lm.append("m.load %s %s utf8 %s %s %s %s" % (t[1], t[2], t[3], t[4], t[5], t[6]))
        oi = vlib.run_driver(impl, lcases, jobs=1)
        om = vlib.run_driver(model, lm, jobs=1)
        for l, a, b in zip(lcases, oi, om):
            bump("corpus load " + ("agrees" if a == b else "DIFFERS"))
            if a != b and not same_mod_nan(a, b):
                # the fixed regression cases run first and are reported first: a repaired finding that returns shows up here
                failing.append(dict(driver="jx", case=l, implementation=a[:300], model=b[:300], judge="FAIL",
                                    document=bytes.fromhex(l.split(" ")[6]).decode("utf-8", "replace")[:300] if l.split(" ")[6] != "-" else "",
                                    why="regression case of the corpus (corpus/%s.cases): the implementation no longer loads this hand-made document as recorded (the model's answer)" % prop))

    # ---------------- stage 1: save + load back on the implementation
    cases = []
    for line in load_corpus(prop):
        if line.startswith("jx.rt "):
            c = parse_rt_line(line)
            try:
                c["v"] = parse_value_text(c["vtext"])
            except Exception:
                continue
            cases.append(c)
    for arch in ("json", "xml"):
        cases += gen_stage1(rng, tier, arch)
    lines1 = [c["line"] for c in cases]
    out1 = vlib.run_driver(impl, lines1)

    # ---------------- stage 2: the model on the produced bytes
    mlines, idx = [], []
    for i, (c, o) in enumerate(zip(cases, out1)):
        enc, bom = effective(c["cfg"])
        save_ans, _, load_ans = o.partition(" | ")
        c["save"], c["load"] = save_ans, load_ans
        c["enc"], c["bom"] = enc, bom
        mlines.append("m.chk %s %s %s %d %s %s %s" % (c["arch"], enc, bom, c["tyi"], c["rootkey"], fmt_value(c["v"]), save_ans))
        idx.append((i, "chk"))
        if save_ans.startswith("OK "):
            medium = c["cfg"].split(":")[0]
            mlines.append("m.load %s %s %s %d %s TT %s" % (c["arch"], medium, enc, c["tyi"], c["rootkey"], save_ans[3:]))
            idx.append((i, "load"))
    out2 = vlib.run_driver(model, mlines)
    for (i, what), o in zip(idx, out2):
        cases[i]["m" + what] = o

    seen = set()
    nt = 0
    docs, xdocs = [], []
    for c in cases:
        arch, tyi, v = c["arch"], c["tyi"], c["v"]
        if c.get("mchk", "").startswith("UNSUPPORTED") and c["save"] == "UNSUPPORTED":
            bump("unsupported-by-both")
            continue
        if c.get("mchk", "") == "UNSUPPORTED" and arch == "xml" and XML_MODEL_PENDING:
            bump("xml-model-pending")
            continue
        bump("%s save type#%d" % (arch, tyi))
        bump("cfg " + c["cfg"].split(":")[0] + ":" + c["enc"] + ":bom" + c["bom"] + ":" + ("compact" if c["cfg"].endswith(":c") else "pretty"))
        if c["line"] not in seen:
            seen.add(c["line"])
            if nontrivial_value(CAT[tyi], v):
                nt += 1
        cl = classes_of(arch, c["cfg"], tyi, v)
        if arch == "json" and c["cfg"].startswith("stream") and c["save"].startswith("OK ") and \
                autoutf_detect(bytes.fromhex(c["save"][3:]) if c["save"][3:] != "-" else b"") != c["enc"]:
            cl.add("J46")
        mchk = c.get("mchk", "?")
        agree = mchk.startswith("AGREE")
        prop_ok = mchk.endswith("PROP ok")
        expected_load = "OK " + fmt_value(v)
        saved = c["save"].startswith("OK ")
        crashed = not (saved or c["save"].startswith("EXC:"))
        c01_ok = (not saved and c["save"].startswith("EXC:")) or (saved and (c["load"] == expected_load or same_mod_nan(c["load"], expected_load)))
        load_agree = (not saved) or c.get("mload") == c["load"] or same_mod_nan(str(c.get("mload")), c["load"])
        stats["documents"] += 1 if saved else 0
        rec = dict(driver="jx", case=c["line"], implementation=(c["save"][:300] + " | " + c["load"][:300]), model=mchk + " | " + str(c.get("mload"))[:300])
        explained = None
        if not (prop_ok and c01_ok):
            stats["disagreements"] += 1
            # the property fails on the implementation here: a listed known finding must explain it, exactly
            if agree and load_agree:
                for fid in ("J46", "J41", "J47", "F29n", "F53"):
                    if fid in cl and fid in known_ids:
                        explained = fid
                        break
            if explained:
                stats["known_class_cases"] += 1
                bump("known-class " + explained)
            else:
                which = []
                if not prop_ok:
                    which.append("C08: the document is not a standard rendering of the value (%s)" % mchk)
                if not c01_ok:
                    which.append("C01: loading the produced document back gives %s, expected %s" % (c["load"][:120], expected_load[:120]))
                rec.update(judge="FAIL", why="; ".join(which), classes=sorted(cl))
                if ("C08" in want and not prop_ok) or ("C01" in want and not c01_ok):
                    if len(failing) < 25:
                        failing.append(rec)
        elif not (agree and load_agree):
            rec.update(judge="HOLD", why="model and implementation differ, the property holds on this input")
            if len(diffs) < 25:
                diffs.append(rec)
        if saved and prop_ok and agree:
            # observation: the format options reach the writers (indentation character and count per nesting level)
            fmt = c["cfg"].split(":")[3]
            raw = bytes.fromhex(c["save"][3:]) if c["save"][3:] != "-" else b""
            txt = decode_bytes(raw, c["enc"], c["bom"] == "1")
            if txt is not None:
                if arch == "json":
                    lay = json_layout_ok(txt, fmt)
                else:
                    skip = any("\n" in st_ or "\r" in st_ or (st_ and not st_.strip(" \t")) for st_ in all_strings(CAT[tyi], v))
                    lay = True if skip else xml_layout_ok(txt, fmt)
                bump("layout %s %s" % (arch, "as configured" if lay else "NOT as configured"))
                if not lay and len(diffs) < 25:
                    diffs.append(dict(driver="jx", case=c["line"], implementation=c["save"][:300], judge="HOLD", document=txt[:300],
                                      why="the document is a standard rendering of the value but its layout is not the one configured (enableFormat / paddingChar / paddingCharNum)"))
        if saved and arch == "json" and prop_ok:
            docs.append(c)
        if saved and arch == "xml" and agree and mchk.find("PROP fail:not-well-formed") < 0 and mchk.find("PROP fail:bom") < 0:
            xdocs.append(c)

    # ---------------- stage 3: re-renderings by independent emitters
    r3 = stage3_json(vlib, impl, model, rng, tier, docs, known_ids, want, bump, stats)
    r3x = stage3_xml(vlib, impl, model, rng, tier, xdocs, known_ids, want, bump, stats)
    import jx_paths
    r3p = jx_paths.stage_paths(vlib, impl, model, rng, tier, known_ids, want, bump, stats)
    r3a = jx_paths.stage_attrs(vlib, impl, model, rng, tier, bump, stats)
    r3d = jx_paths.stage_detect(vlib, impl, model, rng, tier, bump, stats, autoutf_detect, PYCODEC, BOM)
    r3e = jx_paths.stage_xdetect(vlib, impl, model, rng, tier, bump, stats, pugi_detect, PYCODEC, BOM)
    for k in ("failing", "diffs", "notes", "samples"):
        r3[k] = r3[k] + r3x[k] + r3p[k] + r3a[k] + r3d[k] + r3e[k]
    r3["evaluations"] += r3x["evaluations"] + r3p["evaluations"] + r3a["evaluations"] + r3d["evaluations"] + r3e["evaluations"]
    failing += r3["failing"]
    diffs += r3["diffs"]
    notes += r3["notes"]

    samples = [dict(case=c["line"], implementation=(c["save"][:200] + " | " + c["load"][:120]), model=c.get("mchk")) for c in cases[:2]]
    samples += r3["samples"]
    rule = ("typed values from a 61-entry catalogue of C++ targets (scalars at root, vector<T>, map<string,T>, classes with members of every kind, nested; "
            "XML attributes) with strings over all of Unicode (quotes, backslashes, C0 controls, markup characters, astral planes, white space), integer and double "
            "extremes, empty and nested containers, null x {memory, stream} x 5 encodings x BOM x {compact, pretty x {space, tab} x count 0..8}: saved and loaded back "
            "by the implementation (jx.rt), every produced document decoded per configuration and parsed by the extracted Coq reference parser and compared with the "
            "model's DOM (m.chk), every load predicted by the model (m.load); then each valid document re-rendered by hand-written emitters (white space, escapes, "
            "member order, numeric spelling, encoding, BOM) and loaded by implementation and model; reference parser cross-checked against Python's json on all "
            "renderings and on mutated (mostly malformed) texts; classes with validators (Required, Range) at every nesting loaded from generated JSON and XML documents "
            "(jx.val), the map of the ValidationException compared with the model of the scopes' GetPath and, for JSON, with the RFC 6901 pointers of the failing members "
            "(Coq specification and an independent Python walk).  non-trivial = distinct stage-1 case whose value has text outside printable ASCII or needing an escape, "
            "an integer beyond 32 bits, a double, null, a nested or an empty container")
    return dict(evaluations=len(lines1) + len(mlines) + r3["evaluations"], distinct_nontrivial=nt, rule=rule, samples=samples, classes=classes,
                failing=failing[:25], diffs=diffs[:25], known_lines=known_lines, notes=notes, exhaustive=False,
                broken="correspondence jx model vs rapidjson_archive.h / pugixml_archive.h (drv_jx)",
                extra=dict(programs=stats["documents"] + stats["rerenderings"], disagreements_checked=stats["disagreements"], **stats))


XML_MODEL_PENDING = False


def parse_value_text(s):
    """value syntax -> value with strings as str (the generator's form)"""
    def conv(v):
        if v[0] == "s":
            return ("s", v[1].decode("utf-8"))
        if v[0] == "a":
            return ("a", [conv(x) for x in v[1]])
        if v[0] == "o":
            return ("o", [(k.decode("utf-8"), conv(x)) for k, x in v[1]])
        if v[0] == "O" and v[1] is not None:
            return ("O", conv(v[1]))
        return v
    return conv(parse_value(s))


RENDER_OPTS = [dict(ws=0, esc="lit", order=False, spell="keep"),
               dict(ws=1, esc="lit", order=False, spell="keep"),
               dict(ws=1, esc="mix", order=True, spell="same"),
               dict(ws=1, esc="all", order=True, spell="same"),
               dict(ws=0, esc="mix", order=True, spell="change"),
               dict(ws=1, esc="mix", order=False, spell="same")]


def int_targets_hit(ty, dom_a, dom_b):
    """an integer-typed position whose spelling changed class between the two DOMs (class J43)"""
    def is_intlex(x):
        return isinstance(x, NumLex) and not any(ch in x for ch in ".eE")
    k = ty[0]
    if k == "opt":
        return int_targets_hit(ty[1], dom_a, dom_b)
    if k in ("int", "bool"):
        return isinstance(dom_a, NumLex) and isinstance(dom_b, NumLex) and is_intlex(dom_a) != is_intlex(dom_b)
    if k == "vec" and isinstance(dom_a, tuple) and isinstance(dom_b, tuple) and dom_a[0] == "a" == dom_b[0]:
        return any(int_targets_hit(ty[1], x, y) for x, y in zip(dom_a[1], dom_b[1]))
    if k in ("map", "obj") and isinstance(dom_a, tuple) and isinstance(dom_b, tuple) and dom_a[0] == "o" == dom_b[0]:
        db = dict(dom_b[1])
        for key, x in dom_a[1]:
            if key in db:
                ft = ty[1] if k == "map" else next((t for n, _, t in ty[1] if n == key), None)
                if ft is not None and int_targets_hit(ft, x, db[key]):
                    return True
    return False


def neg_zero_hit(ty, dom_a, dom_b):
    """a double-typed position holding zero whose spelling changed between a signed integer spelling (-0) and a
    fractional one (-0.0): RapidJSON reads the first as the integer 0, the sign of the zero is lost (class J43)"""
    def is_intlex(x):
        return isinstance(x, NumLex) and not any(ch in x for ch in ".eE")
    k = ty[0]
    if k == "opt":
        return neg_zero_hit(ty[1], dom_a, dom_b)
    if k in ("dbl", "flt"):
        return isinstance(dom_a, NumLex) and isinstance(dom_b, NumLex) and num_value(dom_a) == 0 and \
            is_intlex(dom_a) != is_intlex(dom_b) and (dom_a.startswith("-") or dom_b.startswith("-"))
    if k == "vec" and isinstance(dom_a, tuple) and isinstance(dom_b, tuple) and dom_a[0] == "a" == dom_b[0]:
        return any(neg_zero_hit(ty[1], x, y) for x, y in zip(dom_a[1], dom_b[1]))
    if k in ("map", "obj") and isinstance(dom_a, tuple) and isinstance(dom_b, tuple) and dom_a[0] == "o" == dom_b[0]:
        db = dict(dom_b[1])
        for key, x in dom_a[1]:
            if key in db:
                ft = ty[1] if k == "map" else next((t for n, _, t in ty[1] if n == key), None)
                if ft is not None and neg_zero_hit(ft, x, db[key]):
                    return True
    return False


def stage3_json(vlib, impl, model, rng, tier, docs, known_ids, want, bump, stats):
    failing, diffs, notes, samples = [], [], [], []
    per_doc = 2 if tier == "quick" else 4
    max_docs = 3000 if tier == "quick" else 90000
    docs = docs[:max_docs]
    items = []          # one per load: dict(kind, tyi, medium, enc, bytes, origin, opts)
    parse_lines, parse_expect = [], []
    for c in docs:
        raw = bytes.fromhex(c["save"][3:]) if c["save"][3:] != "-" else b""
        text = decode_bytes(raw, c["enc"], c["bom"] == "1")
        if text is None:
            continue
        dom = py_json_parse(text)
        if dom is REJECT:
            notes.append("Python's json rejects a document the reference parser accepts: " + c["line"][:200])
            continue
        c["dom"] = dom
        # the reference load: the document's own text, in memory
        base = len(items)
        items.append(dict(kind="orig", c=c, medium="mem", enc="utf8", data=text.encode("utf-8"), base=base, opts=None))
        for _ in range(per_doc):
            o = dict(rng.choice(RENDER_OPTS))
            medium = rng.choice(["mem", "stream", "stream"])
            enc = "utf8" if medium == "mem" else rng.choice(ENCODINGS)
            bom = medium == "stream" and rng.random() < 0.5
            if enc != "utf8" and o["esc"] == "mix":
                o["esc"] = rng.choice(["lit", "all"])
            t2 = emit_json(rng, dom, o)
            items.append(dict(kind="rerender", c=c, medium=medium, enc=enc, data=encode_text(t2, enc, bom), base=base, opts=o, text=t2, bom=bom))
            # validate the emitter and the reference parser against each other
            parse_lines.append("m.parse json utf8 %s" % (t2.encode("utf-8").hex() or "-"))
            parse_expect.append((dom, t2))
    # mutated texts: the reference parser against Python's json (acceptance set)
    nm = 2000 if tier == "quick" else 60000
    for _ in range(nm if docs else 0):
        c = rng.choice(docs)
        if "dom" not in c:
            continue
        t2 = emit_json(rng, c["dom"], dict(rng.choice(RENDER_OPTS)))
        chars = list(t2)
        for _ in range(rng.choice([1, 1, 2])):
            k = rng.random()
            pos = rng.randrange(0, len(chars) + 1)
            if k < 0.35 and chars:
                del chars[min(pos, len(chars) - 1)]
            elif k < 0.7:
                chars.insert(pos, rng.choice(list('{}[],:"\\-+.eE0123456789 \n\ttrufalsn\x00\x1f/') + ["\ud800", "\udc00", "é", "😀"]))
            elif chars:
                chars[min(pos, len(chars) - 1)] = rng.choice(list('{}[],:"\\-+.eE019 x') + ["\\u12", "\\ud800", "\\x", "01", "1.", ".5", "1e", "tru", "nul", "'"])
            if k > 0.9:
                chars = chars[:pos]
        t3 = "".join(chars)
        try:
            b3 = t3.encode("utf-8")
        except UnicodeEncodeError:
            b3 = t3.encode("utf-8", "surrogatepass")
        parse_lines.append("m.parse json utf8 %s" % (b3.hex() or "-"))
        try:
            pd = py_json_parse(b3.decode("utf-8"))
        except UnicodeDecodeError:
            pd = "undecodable"
        parse_expect.append((pd, None))
    pout = vlib.run_driver(model, parse_lines)
    for (pd, t2), o in zip(parse_expect, pout):
        stats["refparser_crosschecks"] += 1
        if pd == "undecodable":
            ok = o == "DECODE-ERR"
        elif pd is REJECT:
            ok = o == "REJECT"
        elif t2 is not None:
            # a re-rendering: the reference parser must recover the same data model (up to order / spelling)
            ok = o.startswith("DOM ") and pydom_equiv(py_json_parse(t2), pd)
            ok = ok and o == "DOM " + fmt_pydom(py_json_parse(t2))
        else:
            ok = o == "DOM " + fmt_pydom(pd)
        bump("refparser " + ("agrees with Python json" if ok else "DISAGREES with Python json"))
        if not ok and len(diffs) < 25:
            diffs.append(dict(driver="jx-model", case=parse_lines[len(diffs)] if False else "m.parse", model=o[:300],
                              judge="HOLD", why="the extracted reference parser and Python's json module disagree on a text: python=%s" % (fmt_pydom(pd)[:200] if pd is not REJECT and pd != "undecodable" else pd)))
    # loads
    ilines = ["jx.load json %s %d - TT %s" % (it["medium"], it["c"]["tyi"], it["data"].hex() or "-") for it in items]
    mlines = ["m.load json %s %s %d - TT %s" % (it["medium"], it["enc"], it["c"]["tyi"], it["data"].hex() or "-") for it in items]
    iout = vlib.run_driver(impl, ilines)
    mout = vlib.run_driver(model, mlines)
    for it, a, b, il in zip(items, iout, mout, ilines):
        it["impl"], it["model"] = a, b
    for k, it in enumerate(items):
        if it["kind"] == "orig":
            continue
        stats["rerenderings"] += 1
        c = it["c"]
        ref = items[it["base"]]["impl"]
        a, b = it["impl"], it["model"]
        o = it["opts"]
        bump("rerender %s:%s ws=%d esc=%s order=%d spell=%s" % (it["medium"], it["enc"], o["ws"], o["esc"], o["order"], o["spell"]))
        same = a == ref
        agree = a == b
        if same and agree:
            continue
        stats["disagreements"] += 1
        explained = None
        if agree and not same:
            # the property fails (a standard rendering loads differently) exactly as the model of the adapter predicts
            if it["medium"] == "stream" and autoutf_detect(it["data"]) != it["enc"] and "J46" in known_ids:
                explained = "J46"
            elif o["spell"] == "change" and "J43" in known_ids and (int_targets_hit(CAT[c["tyi"]], c["dom"], py_json_parse(it["text"])) or
                                                                    neg_zero_hit(CAT[c["tyi"]], c["dom"], py_json_parse(it["text"]))):
                explained = "J43"
        if explained:
            stats["known_class_cases"] += 1
            bump("known-class " + explained)
            continue
        rec = dict(driver="jx", case=ilines[k], implementation=a[:300], model=b[:300], rendering_of=c["line"][:300],
                   original_document_loads_as=ref[:300], rendering=it["text"][:400], options=o)
        if not same:
            rec.update(judge="FAIL", why="C08: a standard rendering of the produced document (same data up to white space, escapes, member order, numeric spelling, encoding) loads differently from the document itself")
            if "C08" in want and len(failing) < 25:
                failing.append(rec)
        else:
            rec.update(judge="HOLD", why="model and implementation differ on the load of a re-rendering; it loads like the original document")
            if len(diffs) < 25:
                diffs.append(rec)
    if items:
        for it in items[1:3]:
            samples.append(dict(case="jx.load json %s %d - TT <%s %s bytes>" % (it["medium"], it["c"]["tyi"], it["enc"], len(it["data"])),
                                rendering=it.get("text", "")[:200], implementation=it["impl"][:160], model=it["model"][:160]))
    return dict(failing=failing, diffs=diffs, notes=notes, samples=samples, evaluations=len(parse_lines) + len(ilines) + len(mlines))


def replay(rp, vlib):
    impl, model = drivers(vlib)
    line = rp["case"]
    a = vlib.run_driver(impl, [line], jobs=1)[0]
    res = dict(case=line, implementation=a)
    t = line.split(" ")
    if t[0] == "jx.rt":
        enc, bom = effective(t[2])
        save_ans, _, load_ans = a.partition(" | ")
        ml = ["m.chk %s %s %s %s %s %s %s" % (t[1], enc, bom, t[3], t[4], t[5], save_ans)]
        if save_ans.startswith("OK "):
            ml.append("m.load %s %s %s %s %s TT %s" % (t[1], t[2].split(":")[0], enc, t[3], t[4], save_ans[3:]))
        mo = vlib.run_driver(model, ml, jobs=1)
        res["model"] = mo
        res["expected_load_by_property"] = "OK " + t[5]
        res["property_holds"] = mo[0].endswith("PROP ok") and (not save_ans.startswith("OK ") or load_ans == "OK " + t[5])
    elif t[0] == "jx.val":
        import jx_paths
        mo = vlib.run_driver(model, ["m.val %s %s %s %s" % (t[1], t[3], t[4], t[5])], jobs=1)[0]
        m_impl, _, m_spec = mo.partition(" | ")
        res["implementation"] = jx_paths.show(a)
        res["model_of_the_scopes"] = jx_paths.show(m_impl)
        if t[1] == "json":
            res["json_pointers_rfc6901"] = jx_paths.show(m_spec)
            res["property_holds"] = a == m_spec
        else:
            res["property_holds"] = a == m_impl
    elif t[0] == "jx.load":
        # the encoding of the rendering is not part of the implementation's case line; the replay file carries it
        enc = rp.get("encoding", "utf8")
        mo = vlib.run_driver(model, ["m.load %s %s %s %s %s %s %s" % (t[1], t[2], enc, t[3], t[4], t[5], t[6])], jobs=1)
        res["model"] = mo
        res["original_document_loads_as"] = rp.get("original_document_loads_as")
        res["property_holds"] = rp.get("original_document_loads_as") == a
    return res


# ================================================================== XML: independent emitter and stage 3
def xdom_from_model(ans):
    """m.parse xml answer 'DOM <json>' -> ('e', name, [(k, v)..], [children]) / ('t', text)"""
    def conv(x):
        if x[0] == "t":
            return ("t", bytes.fromhex(x[1]).decode("utf-8"))
        return ("e", bytes.fromhex(x[1]).decode("utf-8"), [(bytes.fromhex(k).decode("utf-8"), bytes.fromhex(v).decode("utf-8")) for k, v in x[2]],
                [conv(c) for c in x[3]])
    return conv(json.loads(ans[4:]))


def xdom_norm(x, sort_attrs=True):
    """drop white-space-only text between element siblings (formatting); attributes as a sorted list"""
    if x[0] == "t":
        return x
    ch = [xdom_norm(c, sort_attrs) for c in x[3]]
    if any(c[0] == "e" for c in ch):
        ch = [c for c in ch if not (c[0] == "t" and all(k in " \t\n\r" for k in c[1]))]
    return ("e", x[1], sorted(x[2]) if sort_attrs else list(x[2]), ch)


def xdom_from_et(data):
    """xml.etree.ElementTree (expat) as a second opinion; REJECT when not well-formed"""
    import xml.etree.ElementTree as ET
    try:
        root = ET.fromstring(data)
    except Exception:
        return REJECT

    def conv(e):
        ch = []
        if e.text:
            ch.append(("t", e.text))
        for c in e:
            ch.append(conv(c))
            if c.tail:
                ch.append(("t", c.tail))
        return ("e", e.tag, list(e.attrib.items()), ch)
    return conv(root)


XWS = [" ", "\t", "\n", "\r\n", "\r", "  ", "\n\t"]


def x_ws(rng, opts, need=False):
    if not opts["ws"]:
        return " " if need else ""
    s = "".join(rng.choice(XWS) for _ in range(rng.choice([0, 1, 1, 2])))
    return s or (" " if need else "")


def x_char_ref(rng, c):
    o = ord(c)
    k = rng.random()
    if k < 0.5:
        return "&#%d;" % o
    h = "%x" % o
    if rng.random() < 0.5:
        h = h.upper()
    if rng.random() < 0.2:
        h = "00" + h
    return "&#x%s;" % h


ENT = {"&": "&amp;", "<": "&lt;", ">": "&gt;", '"': "&quot;", "'": "&apos;"}


def x_text(rng, s, opts):
    if opts["cdata"] and s and "]]>" not in s and "\r" not in s and rng.random() < 0.5:
        return "<![CDATA[" + s + "]]>"
    out = []
    for i, c in enumerate(s):
        must = c in "<&" or c == "\r" or (c == ">" and s[max(0, i - 2):i] == "]]")
        k = rng.random()
        if c in ENT and (must or (opts["esc"] != "lit" and k < 0.5)) and rng.random() < 0.6:
            out.append(ENT[c])
        elif must or opts["esc"] == "all" or (opts["esc"] == "mix" and k < 0.3):
            out.append(x_char_ref(rng, c))
        else:
            out.append(c)
    t = "".join(out)
    if opts["split"] and len(s) >= 2:
        # character data interrupted by a comment / PI / CDATA boundary (class J44)
        cut = rng.randrange(1, len(s))

        def part(x, as_cdata):
            # (rendering, is a CDATA section); a CDATA section cannot hold "]]>" and a raw CR in it would be normalised.
            # A CDATA section is always a node of pugixml's tree, also when it holds white space only
            if as_cdata and "]]>" not in x and "\r" not in x:
                return "<![CDATA[" + x + "]]>", True
            return x_text(rng, x, dict(opts, split=False, cdata=False)), False
        # the character data continues behind a comment / PI, or in / behind a CDATA section (seeded change S28: a GetText
        # that joins only plain text nodes); empty CDATA sections may stand between, before and behind the parts
        mode = rng.choice(["misc", "misc", "cd_b", "cd_a", "cd_both", "misc_cd_b", "cd_a_misc"])
        (a, ca), (b, cb) = part(s[:cut], mode in ("cd_a", "cd_both", "cd_a_misc")), part(s[cut:], mode in ("cd_b", "cd_both", "misc_cd_b"))
        mid = rng.choice(["<!--c-->", "<?p d?>", "<!-- -->"]) if (mode in ("misc", "misc_cd_b", "cd_a_misc") or not (ca or cb)) else ""
        empty = "<![CDATA[]]>"
        k = rng.random()
        if k < 0.12:
            mid = mid + empty
        elif k < 0.2:
            mid = empty + mid
        elif k < 0.25:
            a = empty + a
        elif k < 0.3:
            b = b + empty
        # a PLAIN part (not a CDATA section) that is literal white space only: pugixml's parse flags drop it (class J44w)
        if (not ca and s[:cut].strip(" \t\r\n") == "" and a.replace(empty, "").strip(" \t\r\n") == "") or \
           (not cb and s[cut:].strip(" \t\r\n") == "" and b.replace(empty, "").strip(" \t\r\n") == ""):
            opts["split_ws"] = True
        return a + mid + b
    return t


def x_attr(rng, v, opts):
    q = rng.choice("\"'") if opts["esc"] != "lit" or rng.random() < 0.3 else '"'
    out = []
    for c in v:
        must = c in "<&" or c == q or c in "\t\n\r"
        k = rng.random()
        if c in ENT and (must or (opts["esc"] != "lit" and k < 0.4)) and rng.random() < 0.6:
            out.append(ENT[c])
        elif must or opts["esc"] == "all" or (opts["esc"] == "mix" and k < 0.3):
            out.append(x_char_ref(rng, c))
        else:
            out.append(c)
    return q + "".join(out) + q


def x_misc(rng, opts):
    if not opts["misc"] or rng.random() < 0.6:
        return ""
    return rng.choice(["<!-- note -->", "<!---->", "<?proc?>", "<?proc  a=b ?>", "<!-- <x/> & -->"])


def emit_xml_node(rng, x, opts):
    if x[0] == "t":
        return x_text(rng, x[1], opts)
    _, name, attrs, ch = x
    attrs = list(attrs)
    if opts["order"]:
        rng.shuffle(attrs)
    s = "<" + name
    for k, v in attrs:
        s += x_ws(rng, opts, need=True) + k + x_ws(rng, opts) + "=" + x_ws(rng, opts) + x_attr(rng, v, opts)
    if not ch and rng.random() < 0.6:
        return s + x_ws(rng, opts) + "/>"
    s += x_ws(rng, opts) + ">"
    elem_only = bool(ch) and all(c[0] == "e" for c in ch)
    for c in ch:
        if elem_only:
            s += x_ws(rng, opts) + x_misc(rng, opts) + x_ws(rng, opts)
        s += emit_xml_node(rng, c, opts)
    if elem_only:
        s += x_ws(rng, opts) + x_misc(rng, opts) + x_ws(rng, opts)
    return s + "</" + name + x_ws(rng, opts) + ">"


ENC_DECL = {"utf8": ["UTF-8", "utf-8"], "utf16le": ["UTF-16", "utf-16"], "utf16be": ["UTF-16", "UTF-16"], "utf32le": ["UTF-32"], "utf32be": ["UTF-32"]}


def emit_xml_doc(rng, root, opts, enc, bom):
    s = ""
    k = rng.random()
    has_decl = opts["decl"] != "none"
    if has_decl:
        q = rng.choice("\"'")
        s = "<?xml version=" + q + "1.0" + q
        if opts["decl"] == "enc":
            s += " encoding=" + q + rng.choice(ENC_DECL[enc]) + q
        if rng.random() < 0.2:
            s += " standalone=" + q + rng.choice(["yes", "no"]) + q
        s += rng.choice(["", " "]) + "?>"
    lead_ok = has_decl or enc == "utf8" or bom          # pugixml detects a BOM-less UTF-16/32 stream by its leading '<'
    if lead_ok and (has_decl or opts["ws"]):
        s += x_ws(rng, opts) if has_decl else ""
    s += x_misc(rng, opts) if (has_decl or enc == "utf8" or bom) else ""
    s += x_ws(rng, opts) if has_decl or s else ""
    s += emit_xml_node(rng, root, opts)
    s += x_ws(rng, opts) + x_misc(rng, opts) + x_ws(rng, opts)
    return s


XRENDER_OPTS = [dict(ws=0, esc="lit", order=False, misc=False, cdata=False, split=False, decl="plain"),
                dict(ws=1, esc="lit", order=False, misc=False, cdata=False, split=False, decl="none"),
                dict(ws=1, esc="mix", order=True, misc=True, cdata=False, split=False, decl="enc"),
                dict(ws=1, esc="all", order=True, misc=True, cdata=False, split=False, decl="plain"),
                dict(ws=0, esc="mix", order=True, misc=False, cdata=True, split=False, decl="none"),
                dict(ws=1, esc="mix", order=False, misc=True, cdata=True, split=False, decl="enc"),
                dict(ws=0, esc="lit", order=False, misc=False, cdata=False, split=True, decl="plain")]


def pugi_detect(b):
    """pugixml guess_buffer_encoding (auto) for the encodings in play"""
    if len(b) < 4:
        return "utf8"
    d = list(b[:4])
    if d[:4] == [0, 0, 0xFE, 0xFF]:
        return "utf32be"
    if d[:4] == [0xFF, 0xFE, 0, 0]:
        return "utf32le"
    if d[:2] == [0xFE, 0xFF]:
        return "utf16be"
    if d[:2] == [0xFF, 0xFE]:
        return "utf16le"
    if d[:3] == [0xEF, 0xBB, 0xBF]:
        return "utf8"
    if d[:4] == [0, 0, 0, 0x3C]:
        return "utf32be"
    if d[:4] == [0x3C, 0, 0, 0]:
        return "utf32le"
    if d[:4] == [0, 0x3C, 0, 0x3F] or d[:2] == [0, 0x3C]:
        return "utf16be"
    if d[:4] == [0x3C, 0, 0x3F, 0] or d[:2] == [0x3C, 0]:
        return "utf16le"
    return "utf8"


def stage3_xml(vlib, impl, model, rng, tier, docs, known_ids, want, bump, stats):
    failing, diffs, notes, samples = [], [], [], []
    per_doc = 2 if tier == "quick" else 4
    docs = docs[:(2500 if tier == "quick" else 75000)]
    # reference DOM of every produced document
    plines = ["m.parse xml %s %s" % (c["enc"], c["save"][3:]) for c in docs]
    pout = vlib.run_driver(model, plines)
    items, checks = [], []
    for c, po in zip(docs, pout):
        if not po.startswith("DOM "):
            continue
        raw = bytes.fromhex(c["save"][3:])
        text = decode_bytes(raw, c["enc"], c["bom"] == "1")
        if text is None:
            continue
        dom = xdom_from_model(po)
        c["xdom"] = dom
        colon = ":" in text.replace("<?xml", "")
        if c["enc"] in ("utf8",) and not colon:
            et = xdom_from_et(text.encode("utf-8"))
            stats["refparser_crosschecks"] += 1
            ok = et is not REJECT and xdom_norm(et) == xdom_norm(dom)
            bump("refparser xml " + ("agrees with ElementTree" if ok else "DISAGREES with ElementTree"))
            if not ok and len(diffs) < 25:
                diffs.append(dict(driver="jx-model", case=plines[0][:20], judge="HOLD", document=text[:300],
                                  why="the extracted XML reference parser and xml.etree.ElementTree disagree on a produced document"))
        base = len(items)
        items.append(dict(kind="orig", c=c, medium="mem", enc="utf8", data=re.sub(r"^<\?xml[^>]*\?>", "", text).encode("utf-8"), base=base, opts=None, text=text))
        for _ in range(per_doc):
            o = dict(rng.choice(XRENDER_OPTS))
            medium = rng.choice(["mem", "stream", "stream"])
            enc = "utf8" if medium == "mem" else rng.choice(ENCODINGS)
            bom = (medium == "stream" and rng.random() < 0.5) or (medium == "mem" and rng.random() < 0.15)
            if o["decl"] == "none" and enc != "utf8" and not bom:
                o["decl"] = "enc"               # 4.3.3: a BOM or an encoding declaration is needed
            # white space between element siblings is formatting (compact and pretty output carry the same data)
            t2 = emit_xml_doc(rng, xdom_norm(dom, False), o, enc, bom)
            items.append(dict(kind="rerender", c=c, medium=medium, enc=enc, data=encode_text(t2, enc, bom), base=base, opts=o, text=t2, bom=bom))
            checks.append((len(items) - 1, "m.parse xml utf8 %s" % t2.encode("utf-8").hex()))
    # every re-rendering: same data model for the reference parser (and for ElementTree)
    cout = vlib.run_driver(model, [l for _, l in checks])
    for (k, _), o in zip(checks, cout):
        it = items[k]
        ref = xdom_norm(items[it["base"]]["c"]["xdom"])
        stats["refparser_crosschecks"] += 1
        ok = o.startswith("DOM ") and xdom_norm(xdom_from_model(o)) == ref
        if ok and ":" not in it["text"].replace("<?xml", "") and not re.search(r"encoding=.UTF-(16|32)", it["text"], re.I):
            et = xdom_from_et(it["text"].encode("utf-8"))
            ok = et is not REJECT and xdom_norm(et) == ref
        bump("rendering " + ("has the same data model (reference parser, ElementTree)" if ok else "DIFFERS in data model: emitter or reference parser wrong"))
        if not ok and len(diffs) < 25:
            diffs.append(dict(driver="jx-model", case="m.parse xml", model=o[:300], rendering=it["text"][:400], judge="HOLD",
                              why="a re-rendering does not have the data model of the original document for the reference parser / ElementTree"))
    # mutated texts: acceptance set against expat
    nm = 1500 if tier == "quick" else 45000
    mlines, mexp = [], []
    rends = [it for it in items if it["kind"] == "rerender" and ":" not in it["text"].replace("<?xml", "") and "encoding=" not in it["text"]]
    for _ in range(nm if rends else 0):
        chars = list(rng.choice(rends)["text"])
        for _ in range(rng.choice([1, 1, 2])):
            k = rng.random()
            pos = rng.randrange(0, len(chars) + 1)
            if k < 0.35 and chars:
                del chars[min(pos, len(chars) - 1)]
            elif k < 0.7:
                chars.insert(pos, rng.choice(list("<>&;/=\"' \n?!-[]#xa1") + ["&#0;", "&#x110000;", "&bogus;", "]]>", "--", "<a>", "</a>", "\x01", "￾"]))
            elif chars:
                chars[min(pos, len(chars) - 1)] = rng.choice(list("<>&;/=\"' ?!-a"))
        t3 = "".join(chars)
        if "<!DOCTYPE" in t3 or "<!D" in t3 or ":" in t3:
            continue
        mlines.append("m.parse xml utf8 %s" % (t3.encode("utf-8").hex() or "-"))
        mexp.append(t3)
    mout = vlib.run_driver(model, mlines)
    # expat is lenient about VersionNum (version="1.1", "2.0", ... are read), the reference parser follows XML 1.0 (1.x only as
    # written in the production): a text expat accepts and the reference parser rejects is excused ONLY if it is accepted, with
    # the same DOM, once the value of version= is replaced by 1.0; everything else is a disagreement
    import re as _re
    vfix = {}
    for t3, o in zip(mexp, mout):
        if o == "REJECT":
            t4 = _re.sub(r"""(version\s*=\s*)(["'])[^"']*\2""", lambda m: m.group(1) + m.group(2) + "1.0" + m.group(2), t3, count=1)
            if t4 != t3:
                vfix[t3] = t4
    vkeys = sorted(vfix)
    vout = dict(zip(vkeys, vlib.run_driver(model, ["m.parse xml utf8 %s" % (vfix[t].encode("utf-8").hex() or "-") for t in vkeys]))) if vkeys else {}
    for t3, o in zip(mexp, mout):
        stats["refparser_crosschecks"] += 1
        et = xdom_from_et(t3.encode("utf-8"))
        if et is REJECT:
            ok = o == "REJECT"
            kind = "accepts a text expat rejects"
        else:
            ok = o.startswith("DOM ") and xdom_norm(xdom_from_model(o), False) == xdom_norm(et, False)
            kind = "rejects / reads differently a text expat accepts"
        bump("refparser xml mutated " + ("agrees with ElementTree" if ok else "DISAGREES: " + kind))
        if not ok and et is not REJECT and o == "REJECT":
            o4 = vout.get(t3)
            if o4 is not None and o4.startswith("DOM ") and xdom_norm(xdom_from_model(o4), False) == xdom_norm(et, False):
                bump("refparser xml mutated: VersionNum leniency of expat (excused)")
                if len(notes) < 5:
                    notes.append("reference XML parser rejects a mutated text that expat accepts (VersionNum only): %r" % t3[:120])
                continue
        if not ok and len(diffs) < 25:
            diffs.append(dict(driver="jx-model", case="m.parse xml utf8 <mutated>", model=o[:200], text=t3[:300], judge="HOLD",
                              why="the extracted XML reference parser " + kind))
    # loads
    ilines = ["jx.load xml %s %d %s TT %s" % (it["medium"], it["c"]["tyi"], it["c"]["rootkey"], it["data"].hex() or "-") for it in items]
    mlines2 = ["m.load xml %s %s %d %s TT %s" % (it["medium"], it["enc"], it["c"]["tyi"], it["c"]["rootkey"], it["data"].hex() or "-") for it in items]
    iout = vlib.run_driver(impl, ilines)
    mout2 = vlib.run_driver(model, mlines2)
    for it, a, b in zip(items, iout, mout2):
        it["impl"], it["model"] = a, b
    for k, it in enumerate(items):
        if it["kind"] == "orig":
            if it["impl"] != it["model"] and not same_mod_nan(it["impl"], it["model"]) and len(diffs) < 25:
                diffs.append(dict(driver="jx", case=ilines[k], implementation=it["impl"][:300], model=it["model"][:300], judge="HOLD",
                                  why="model and implementation differ on the load of a produced document"))
            continue
        stats["rerenderings"] += 1
        c = it["c"]
        ref = items[it["base"]]["impl"]
        a, b = it["impl"], it["model"]
        o = it["opts"]
        bump("rerender xml %s:%s ws=%d esc=%s order=%d misc=%d cdata=%d split=%d decl=%s" % (it["medium"], it["enc"], o["ws"], o["esc"], o["order"], o["misc"], o["cdata"], o["split"], o["decl"]))
        same = a == ref or same_mod_nan(a, ref)
        agree = a == b or same_mod_nan(a, b)
        if same and agree:
            continue
        stats["disagreements"] += 1
        explained = None
        if agree and not same:
            if o["split"] and "J44" in known_ids:
                explained = "J44"
            elif o.get("split_ws") and "J44w" in known_ids:
                # with the parts joined (GetText), what is left of J44: a part that is white space only is not in pugixml's tree
                explained = "J44w"
        if explained:
            stats["known_class_cases"] += 1
            bump("known-class " + explained)
            continue
        rec = dict(driver="jx", case=ilines[k], implementation=a[:300], model=b[:300], rendering_of=c["line"][:300], encoding=it["enc"],
                   original_document_loads_as=ref[:300], rendering=it["text"][:400], options=o)
        if not same:
            rec.update(judge="FAIL", why="C08: a standard rendering of the produced document (same data up to white space between elements, character references, "
                                         "attribute order and quoting, comments, declaration, encoding) loads differently from the document itself")
            if "C08" in want and len(failing) < 25:
                failing.append(rec)
        else:
            rec.update(judge="HOLD", why="model and implementation differ on the load of a re-rendering; it loads like the original document")
            if len(diffs) < 25:
                diffs.append(rec)
    for it in items[1:3]:
        samples.append(dict(case="jx.load xml %s %d %s TT <%s %d bytes>" % (it["medium"], it["c"]["tyi"], it["c"]["rootkey"], it["enc"], len(it["data"])),
                            rendering=it.get("text", "")[:200], implementation=it["impl"][:160], model=it["model"][:160]))
    return dict(failing=failing, diffs=diffs, notes=notes, samples=samples, evaluations=len(plines) + len(checks) + len(mlines) + len(ilines) + len(mlines2))
