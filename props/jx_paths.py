"""jx family: validation error paths through the JSON and XML scopes (GetPath of rapidjson_archive.h / pugixml_archive.h).

Classes with validators (the list vcatalogue of coq/JxPathModel.v, VLeafC / VMidC / VTopC of harness/drv_jx.cpp) are loaded
from generated documents; the map of the ValidationException is compared
  - with the model of the scopes (m.val, first answer): correspondence;
  - for JSON with the JSON Pointers (RFC 6901) of the failing members, computed twice: by the Coq specification (m.val,
    second answer) and by the walk below (independent of both): the property.  Where they differ, the case must be in
    a known class (an array on the way: J48; a name with '/' or '~', or an empty name on the way: J49) and the model of
    the scopes must agree with the implementation.
For XML there is no standard to compare with; the answers of implementation and model are compared, and the documents on
which two failing members share one path are counted."""
import json

INT = ("int",)
NUMS = ("nums",)


def CLS(*fields):
    return ("cls", list(fields))


def VEC(t):
    return ("vec", t)


def MAP(t):
    return ("map", t)


# (key, kind e|a, required, range, type)
LEAF = CLS(("v", "e", True, True, INT), ("w", "e", False, True, INT), ("a", "a", False, True, INT))
MID = CLS(("leaf", "e", False, False, LEAF), ("list", "e", True, False, VEC(LEAF)), ("dict", "e", False, False, MAP(LEAF)),
          ("grid", "e", False, False, VEC(VEC(LEAF))), ("own", "e", False, True, INT), ("a/b", "e", False, True, INT),
          ("m~n", "e", False, True, INT), ("", "e", False, True, INT), ("é", "e", False, True, INT))
TOP = CLS(("mid", "e", True, False, MID), ("mids", "e", False, False, VEC(MID)), ("named", "e", False, False, MAP(MID)),
          ("deep", "e", False, False, VEC(MAP(VEC(LEAF)))), ("nums", "e", True, False, NUMS), ("id", "a", True, True, INT))
VCAT = [LEAF, MID, TOP, VEC(LEAF), VEC(MID), MAP(MID), VEC(VEC(LEAF)), MAP(VEC(LEAF)), VEC(TOP)]

MAP_KEYS = ["k", "k2", "", "x/y", "a~b", "é", "0", "中", "n1", "~", "/"]
NAME_START = "abcdefghijklmnopqrstuvwxyzABCDEFGHIJKLMNOPQRSTUVWXYZ_:é中"


def xml_name_ok(k):
    return len(k) > 0 and k[0] in NAME_START and all(c in NAME_START + "0123456789-." for c in k)


class Null:
    pass


NULL = Null()


def gen_int(rng):
    r = rng.random()
    if r < 0.55:
        return rng.randint(0, 9)
    if r < 0.85:
        return rng.choice([-1, 10, 11, 99, -2147483648, 2147483647, 12345])
    if r < 0.90:
        return NULL
    if r < 0.93:
        return "x"
    if r < 0.96:
        return rng.choice([1 << 40, -(1 << 40)])
    if r < 0.98:
        return rng.choice([True, False])
    return ("a", [])


def gen_doc(rng, t, depth=0):
    """abstract document: int | bool | str | NULL | ("a", [..]) | ("o", [(k, v)..])"""
    if t == INT:
        return gen_int(rng)
    if t == NUMS:
        r = rng.random()
        if r < 0.8:
            return ("a", [rng.randint(-5, 20) for _ in range(rng.randint(0, 3))])
        return rng.choice([NULL, 5, ("o", [])])
    r = rng.random()
    if r < 0.04:
        return NULL
    if r < 0.07:
        return rng.choice([7, "x", ("a", []) if t[0] != "vec" else ("o", [])])
    if t[0] == "cls":
        ms = []
        for (k, _, _, _, ft) in t[1]:
            if rng.random() < 0.85:
                ms.append((k, gen_doc(rng, ft, depth + 1)))
        if rng.random() < 0.2:
            ms.append(("extra", rng.randint(0, 99)))
        rng.shuffle(ms)
        return ("o", ms)
    hi = 3 if depth < 2 else 2
    if t[0] == "vec":
        return ("a", [gen_doc(rng, t[1], depth + 1) for _ in range(rng.randint(0, hi))])
    keys = list(MAP_KEYS)
    rng.shuffle(keys)
    return ("o", [(k, gen_doc(rng, t[1], depth + 1)) for k in keys[:rng.randint(0, hi)]])


def emit_json(d):
    if d is NULL:
        return "null"
    if d is True:
        return "true"
    if d is False:
        return "false"
    if isinstance(d, int):
        return str(d)
    if isinstance(d, str):
        return json.dumps(d, ensure_ascii=False)
    if d[0] == "a":
        return "[" + ",".join(emit_json(x) for x in d[1]) + "]"
    return "{" + ",".join(json.dumps(k, ensure_ascii=False) + ":" + emit_json(x) for k, x in d[1]) + "}"


def xml_text(d):
    if d is True:
        return "true"
    if d is False:
        return "false"
    if isinstance(d, int):
        return str(d)
    if isinstance(d, str):
        return d
    return None


def emit_xml(name, t, d, rng):
    """the element for d (of type t) under that name; kinds the format cannot carry are spelled as text or as an empty element"""
    if d is NULL:
        return "<%s/>" % name
    if t == INT or xml_text(d) is not None:
        tx = xml_text(d)
        if tx is None:
            return "<%s><value>1</value></%s>" % (name, name)      # an element where a number is expected
        return "<%s>%s</%s>" % (name, tx, name)
    if t == NUMS:
        if d[0] == "a":
            return "<%s>%s</%s>" % (name, "".join("<value>%d</value>" % x for x in d[1]), name)
        return "<%s><x>1</x></%s>" % (name, name)
    if t[0] == "cls":
        if d[0] != "o":
            return "<%s>text</%s>" % (name, name)
        kinds = dict((k, (kd, ft)) for (k, kd, _, _, ft) in t[1])
        attrs, ch = [], []
        for k, x in d[1]:
            if not xml_name_ok(k):
                continue
            kd, ft = kinds.get(k, ("e", INT))
            if kd == "a":
                tx = xml_text(x)
                if tx is not None:
                    attrs.append(' %s="%s"' % (k, tx))
            else:
                ch.append(emit_xml(k, ft, x, rng))
        return "<%s%s>%s</%s>" % (name, "".join(attrs), "".join(ch), name) if ch else "<%s%s/>" % (name, "".join(attrs))
    if t[0] == "vec":
        if d[0] != "a":
            return "<%s>text</%s>" % (name, name)
        item = {"cls": "object", "vec": "array", "map": "object"}.get(t[1][0], "value")
        names = [item if rng.random() < 0.9 else rng.choice(["item", "object", "x"]) for _ in d[1]]
        return "<%s>%s</%s>" % (name, "".join(emit_xml(n, t[1], x, rng) for n, x in zip(names, d[1])), name)
    if d[0] != "o":
        return "<%s>text</%s>" % (name, name)
    return "<%s>%s</%s>" % (name, "".join(emit_xml(k, t[1], x, rng) for k, x in d[1] if xml_name_ok(k)), name)


# ---------------------------------------------------------------- the JSON Pointers, independently (policies: Skip, Skip)

def esc_token(k):
    return k.replace("~", "~0").replace("/", "~1")


def pointer(loc):
    return "".join("/" + (esc_token(s) if isinstance(s, str) else str(s)) for s in loc)


def find_member(ms, k):
    for k2, x in ms:
        if k2 == k:
            return x
    return None


def walk(t, loc, d, errs, locs):
    """returns (loaded, value for Range); errs: path -> codes; locs: the locations of the failing members"""
    if t == INT:
        if d is True or d is False:
            return True, int(d)
        if isinstance(d, int) and -(1 << 31) <= d < (1 << 31):
            return True, d
        return False, None
    if t == NUMS:
        return (isinstance(d, tuple) and d[0] == "a"), None
    if t[0] == "cls":
        if not (isinstance(d, tuple) and d[0] == "o"):
            return False, None
        for (k, _, req, rng_, ft) in t[1]:
            x = find_member(d[1], k)
            loaded, val = (False, None) if x is None else walk(ft, loc + [k], x, errs, locs)
            p = pointer(loc + [k])
            if req and not loaded:
                errs.setdefault(p, []).append("R")
                locs.append(loc + [k])
            if rng_ and loaded and val is not None and not (0 <= val <= 9):
                errs.setdefault(p, []).append("G")
                locs.append(loc + [k])
        return True, None
    if t[0] == "vec":
        if not (isinstance(d, tuple) and d[0] == "a"):
            return False, None
        for i, x in enumerate(d[1]):
            walk(t[1], loc + [i], x, errs, locs)
        return True, None
    if not (isinstance(d, tuple) and d[0] == "o"):
        return False, None
    for k, _ in d[1]:
        walk(t[1], loc + [k], find_member(d[1], k), errs, locs)
    return True, None


def fmt_errs(errs):
    if not errs:
        return "OK"
    return "VAL " + ";".join("%s:%s" % (p.encode("utf-8").hex(), "".join(c)) for p, c in sorted(errs.items(), key=lambda kv: kv[0].encode("utf-8")))


def show(ans):
    if " | " in ans:
        return " | ".join(show(x) for x in ans.split(" | "))
    if not ans.startswith("VAL "):
        return ans
    out = []
    for part in ans[4:].split(";"):
        p, _, c = part.partition(":")
        try:
            out.append("%s:%s" % (bytes.fromhex(p).decode("utf-8"), c))
        except Exception:
            out.append(part)
    return "VAL " + " ; ".join(out)


def stage_paths(vlib, impl, model, rng, tier, known_ids, want, bump, stats):
    failing, diffs, notes, samples = [], [], [], []
    n = 1500 if tier == "quick" else 60000
    cases = []
    for i in range(n):
        arch = "json" if rng.random() < 0.6 else "xml"
        vi = rng.randrange(len(VCAT))
        t = VCAT[vi]
        d = gen_doc(rng, t)
        pol = "SS" if rng.random() < 0.85 else rng.choice(["TT", "TS", "ST"])
        if arch == "json":
            text = emit_json(d)
        else:
            root = "array" if t[0] == "vec" else "root"
            text = '<?xml version="1.0"?>' + emit_xml(root, t, d, rng)
        medium = "mem" if rng.random() < 0.8 else "stream"
        cases.append(dict(arch=arch, vi=vi, t=t, d=d, pol=pol, text=text, medium=medium))
    ilines = ["jx.val %s %s %d %s %s" % (c["arch"], c["medium"], c["vi"], c["pol"], c["text"].encode("utf-8").hex()) for c in cases]
    mlines = ["m.val %s %d %s %s" % (c["arch"], c["vi"], c["pol"], c["text"].encode("utf-8").hex()) for c in cases]
    iout = vlib.run_driver(impl, ilines)
    mout = vlib.run_driver(model, mlines)
    shared = 0
    for c, a, b, il in zip(cases, iout, mout, ilines):
        m_impl, _, m_spec = b.partition(" | ")
        kind = "OK" if a == "OK" else ("VAL" if a.startswith("VAL ") else a)
        bump("paths %s class#%d %s" % (c["arch"], c["vi"], kind if kind in ("OK", "VAL") else "EXC"))
        rec = dict(driver="jx", case=il, implementation=show(a)[:400], model=show(b)[:600], document=c["text"][:400])
        agree = a == m_impl
        if c["arch"] == "xml":
            if a.startswith("VAL ") and any(len(part.partition(":")[2]) > 1 for part in a[4:].split(";")):
                shared += 1
            if not agree:
                stats["disagreements"] += 1
                rec.update(judge="HOLD", why="validation error paths: the model of the PugiXml scopes and the implementation differ")
                if len(diffs) < 25:
                    diffs.append(rec)
            continue
        # JSON: the property is impl == RFC 6901 pointers
        prop_ok = a == m_spec
        py_spec = None
        if c["pol"] == "SS":
            errs, locs = {}, []
            walk(c["t"], [], c["d"], errs, locs)
            py_spec = fmt_errs(errs)
            if py_spec != m_spec:
                notes.append("validation paths: the Coq specification and the Python walk differ on %s: %s vs %s" % (il[:200], show(m_spec)[:200], show(py_spec)[:200]))
        if prop_ok and agree:
            continue
        stats["disagreements"] += 1
        explained = None
        if not prop_ok and agree:
            if py_spec is not None:
                has_idx = any(any(isinstance(s, int) for s in loc[:-1]) for loc in locs)
                special = any(any(isinstance(s, str) and ("/" in s or "~" in s) for s in loc) or any(s == "" for s in loc[:-1]) for loc in locs)
            else:
                # a policy that throws: judged on the specification's answer
                has_idx = special = m_spec.startswith("VAL ")
            if has_idx and "J48" in known_ids:
                explained = "J48"
            elif special and "J49" in known_ids:
                explained = "J49"
        if explained:
            stats["known_class_cases"] += 1
            bump("known-class " + explained)
            continue
        if not prop_ok:
            rec.update(judge="FAIL", why="C08: a validation error path of the JSON archive is not the JSON Pointer (RFC 6901) of the failing member: %s, expected %s" % (show(a)[:300], show(m_spec)[:300]))
            if "C08" in want and len(failing) < 25:
                failing.append(rec)
        else:
            rec.update(judge="HOLD", why="validation error paths: the model of the RapidJson scopes and the implementation differ; the paths are the JSON Pointers")
            if len(diffs) < 25:
                diffs.append(rec)
    bump("paths xml: documents where two failing members share one path", shared)
    for c, a, b, il in list(zip(cases, iout, mout, ilines))[:2]:
        samples.append(dict(case=il[:160], document=c["text"][:200], implementation=show(a)[:200], model=show(b)[:300]))
    return dict(failing=failing, diffs=diffs, notes=notes[:10], samples=samples, evaluations=len(ilines) + len(mlines))


# ---------------------------------------------------------------- XML attributes: numbers, bool under every policy setting

ATTR_TEXTS = ["0", "1", "-1", "7", "127", "128", "-128", "-129", "255", "256", "300", "32767", "32768", "-32769", "65536", "4294967295", "4294967296",
              "2147483647", "2147483648", "-2147483649", "9223372036854775807", "9223372036854775808", "-9223372036854775808", "-9223372036854775809",
              "18446744073709551615", "18446744073709551616", "99999999999999999999999", "", " ", " 5", "5 ", "+5", "-0", "00", "007", "1.0", "1.5", "1e3", "-1.5e-3",
              "1e400", "-1e400", "1e-400", "abc", "12abc", "0x10", "true", "false", "TRUE", "False", "tRuE", "yes", "no", "t", "f", "y", "n", "2", "10", "01",
              "nan", "inf", "-inf", "NaN", "Infinity", ".5", "5.", "-", "--1", "1 2", "\t3", "é", "１２"]
ATTR_CLASSES = {33: [("a", "a"), ("s", "a"), ("b", "a"), ("u", "a"), ("v", "e"), ("t", "e")],
                35: [("x", "a"), ("type", "a")],
                59: [("i8", "a"), ("u8", "a"), ("i16", "a"), ("u32", "a"), ("i64", "a"), ("b", "a"), ("d", "a")]}


def xml_attr_escape(s):
    return s.replace("&", "&amp;").replace("<", "&lt;").replace('"', "&quot;").replace("\t", "&#9;")


def stage_attrs(vlib, impl, model, rng, tier, bump, stats):
    """documents with arbitrary attribute values (numbers out of range, texts that are not numbers, blanks, empty) loaded into
    the classes with attribute members under the four policy settings: implementation vs model (correspondence)"""
    failing, diffs, notes, samples = [], [], [], []
    n = 800 if tier == "quick" else 30000
    ilines, mlines, docs = [], [], []
    for _ in range(n):
        base = rng.choice([33, 35, 59, 59])
        vec = rng.random() < 0.25
        tyi = base + 1 if vec else base

        def one(name):
            attrs, ch = [], []
            for k, kd in ATTR_CLASSES[base]:
                if rng.random() < 0.15:
                    continue
                tx = rng.choice(ATTR_TEXTS) if rng.random() < 0.8 else str(rng.randint(-70000, 70000))
                if kd == "a":
                    attrs.append(' %s="%s"' % (k, xml_attr_escape(tx)))
                else:
                    ch.append("<%s>%s</%s>" % (k, xml_attr_escape(tx), k))
            return "<%s%s>%s</%s>" % (name, "".join(attrs), "".join(ch), name) if ch else "<%s%s/>" % (name, "".join(attrs))
        if vec:
            text = "<array>" + "".join(one("object") for _ in range(rng.randint(0, 3))) + "</array>"
        else:
            text = one("root")
        text = '<?xml version="1.0"?>' + text
        pol = rng.choice(["TT", "TS", "ST", "SS"])
        h = text.encode("utf-8").hex()
        ilines.append("jx.load xml mem %d - %s %s" % (tyi, pol, h))
        mlines.append("m.load xml mem utf8 %d - %s %s" % (tyi, pol, h))
        docs.append(text)
    iout = vlib.run_driver(impl, ilines)
    mout = vlib.run_driver(model, mlines)
    for il, a, b, text in zip(ilines, iout, mout, docs):
        kind = "OK" if a.startswith("OK ") else a
        bump("attr load %s %s" % (il.split(" ")[5], kind[:24]))
        if a != b:
            stats["disagreements"] += 1
            if len(diffs) < 25:
                diffs.append(dict(driver="jx", case=il, implementation=a[:300], model=b[:300], document=text[:400], judge="HOLD",
                                  why="XML attributes: model and implementation differ on the load of a document with arbitrary attribute values"))
    for il, a, b, text in list(zip(ilines, iout, mout, docs))[:2]:
        samples.append(dict(case=il[:120], document=text[:200], implementation=a[:160], model=b[:160]))
    return dict(failing=failing, diffs=diffs, notes=notes, samples=samples, evaluations=len(ilines) + len(mlines))


# ---------------------------------------------------------------- JSON streams: detection of the encoding

DET_TEXTS = ['[]', '{}', '[1,2]', '{"a":1}', '1', '12', '-1', 'true', 'null', '"a"', '""', '"ab"', '"é"', '"éa"', '"中"', '"中文"', '"Ω1"', '"a中"',
             '[\n 1]', ' [1]', '\t{}', '["中"]', '["\U0001F600"]', '"\U0001F600"', '\ufeff[1]', '\ufeff1', '7 ', '1e3', '[true]', '[null,"é中"]']
DET_TARGETS = {'[': 12, '{': 23, '"': 11}


def det_target(text):
    st = text.lstrip("\ufeff \t\n")
    if st[:1] == '[':
        return 17 if '"' in st or 'true' in st or 'null' in st else 12
    if st[:1] == '{':
        return 23
    if st[:1] == '"':
        return 11
    if st in ('true', 'false'):
        return 1
    if st == 'null':
        return 0
    return 10 if ('e' in st or '.' in st) else 6


def stage_detect(vlib, impl, model, rng, tier, bump, stats, autoutf_detect, pycodec, boms):
    """streams in the five encodings with and without BOM, whole and cut short, with a wrong or doubled BOM, with zero bytes
    in front: the implementation's answer vs the model's (whose detection is the extracted rj_detect), and the
    extracted function vs the Python copy of DetectType on every byte string"""
    failing, diffs, notes, samples = [], [], [], []
    n = 700 if tier == "quick" else 25000
    encs = list(pycodec)
    items = []
    for _ in range(n):
        text = rng.choice(DET_TEXTS)
        enc = rng.choice(encs)
        data = text.encode(pycodec[enc])
        r = rng.random()
        if r < 0.35:
            data = boms[enc] + data
        elif r < 0.42:
            data = boms[rng.choice(encs)] + data                       # possibly the BOM of another encoding
        elif r < 0.46:
            data = boms[enc] + boms[enc] + data
        r = rng.random()
        if r < 0.25 and len(data) > 1:
            data = data[:rng.randint(1, min(len(data), 7))]            # a short prefix
        elif r < 0.30:
            data = bytes(rng.randint(0, 3)) + data                      # zero bytes in front
        elif r < 0.33:
            data = data + b"\x00"
        items.append((text, enc, data, det_target(text)))
    ilines = ["jx.load json stream %d - TT %s" % (ty, d.hex() or "-") for (_, _, d, ty) in items]
    mlines = ["m.load json stream utf8 %d - TT %s" % (ty, d.hex() or "-") for (_, _, d, ty) in items]
    dlines = ["m.detect %s" % (d.hex() or "-") for (_, _, d, _) in items]
    iout = vlib.run_driver(impl, ilines)
    mout = vlib.run_driver(model, mlines)
    dout = vlib.run_driver(model, dlines)
    for (text, enc, data, ty), il, a, b, dd in zip(items, ilines, iout, mout, dout):
        det = dd.split(" ")[0]
        if det != autoutf_detect(data):
            notes.append("rj_detect (Coq) and the Python copy of DetectType differ on %s: %s vs %s" % (data.hex(), det, autoutf_detect(data)))
        bump("detect %s as %s: %s" % (enc, det, "loads" if a.startswith("OK") else "raises"))
        if a != b:
            stats["disagreements"] += 1
            if len(diffs) < 25:
                diffs.append(dict(driver="jx", case=il, implementation=a[:200], model=b[:200], stream="%s bytes %s, text %r in %s" % (len(data), data[:16].hex(), text, enc),
                                  detected=dd[:80], judge="HOLD", why="JSON stream: the load predicted with the detected encoding (rj_detect) differs from the implementation's"))
    for (text, enc, data, ty), il, a, b, dd in list(zip(items, ilines, iout, mout, dout))[:2]:
        samples.append(dict(case=il[:120], implementation=a[:100], model=b[:100], detected=dd[:60]))
    return dict(failing=failing, diffs=diffs, notes=notes[:10], samples=samples, evaluations=len(ilines) + len(mlines) + len(dlines))


# ---------------------------------------------------------------- XML streams: pugixml's auto-detection of the encoding

XDET_DOCS = ['<array><value>1</value><value>2</value></array>', '<array/>', '<a><value>7</value></a>',
             '<?xml version="1.0"?><array><value>1</value></array>', '<?xml version="1.0"?>\n<array>\n\t<value>3</value>\n</array>\n',
             '<?xml version="1.0" encoding="UTF-16"?><array><value>1</value></array>', "<?xml version='1.0' encoding='utf-8'?><array><value>5</value></array>",
             '<!--c--><array><value>1</value></array>', '<?p x?><array><value>1</value></array>', ' <array><value>1</value></array>',
             '\n<array><value>1</value></array>', '<é><value>4</value></é>', '<中><value>4</value></中>', '<array><value>1</value></array><!--é中-->',
             '\ufeff<array><value>1</value></array>', '<?xml version="1.0" encoding="iso-8859-1"?><array><value>1</value></array>',
             '<?xml version="1.0" encoding="latin1"?><array><value>1</value></array>']


def stage_xdetect(vlib, impl, model, rng, tier, bump, stats, pugi_detect, pycodec, boms):
    """XML streams in the five encodings with and without BOM, whole, cut short, with another encoding's BOM, with bytes in
    front: the implementation's load vs the model's (whose encoding is the extracted px_detect), and px_detect vs the
    Python copy on every byte string.  Ill-formed code unit sequences (pugixml's decoders are lenient, the model's is
    strict: DECODE-ERR) and declarations naming latin1 are outside the model: counted, not compared"""
    failing, diffs, notes, samples = [], [], [], []
    n = 600 if tier == "quick" else 20000
    encs = list(pycodec)
    items = []
    for _ in range(n):
        text = rng.choice(XDET_DOCS)
        enc = rng.choice(encs)
        data = text.encode(pycodec[enc])
        r = rng.random()
        if r < 0.35:
            data = boms[enc] + data
        elif r < 0.40:
            data = boms[rng.choice(encs)] + data
        elif r < 0.43:
            data = boms[enc] + boms[enc] + data
        r = rng.random()
        if r < 0.15 and len(data) > 1:
            data = data[:rng.randint(1, min(len(data), 9))]
        elif r < 0.22 and len(data) > 8:
            data = data[:rng.randint(8, len(data))]
        elif r < 0.26:
            data = bytes(rng.randint(1, 3)) + data
        items.append((text, enc, data))
    ilines = ["jx.load xml stream 12 - TT %s" % (d.hex() or "-") for (_, _, d) in items]
    mlines = ["m.load xml stream utf8 12 - TT %s" % (d.hex() or "-") for (_, _, d) in items]
    dlines = ["m.xdetect %s" % (d.hex() or "-") for (_, _, d) in items]
    iout = vlib.run_driver(impl, ilines)
    mout = vlib.run_driver(model, mlines)
    dout = vlib.run_driver(model, dlines)
    for (text, enc, data), il, a, b, dd in zip(items, ilines, iout, mout, dout):
        det = dd.split(" ")[0]
        latin = "latin1" in text or "iso-8859-1" in text
        if det != pugi_detect(data) and not (latin and det == "utf8"):
            notes.append("px_detect (Coq) and the Python copy of guess_buffer_encoding differ on %s: %s vs %s" % (data[:12].hex(), det, pugi_detect(data)))
        if b == "DECODE-ERR" or (latin and det == "utf8"):
            bump("xdetect outside the model (%s)" % ("latin1 declared" if latin and b != "DECODE-ERR" else "ill-formed sequence / partial unit"))
            continue
        bump("xdetect %s as %s: %s" % (enc, det, "loads" if a.startswith("OK") else "raises"))
        if a != b:
            stats["disagreements"] += 1
            if len(diffs) < 25:
                diffs.append(dict(driver="jx", case=il, implementation=a[:200], model=b[:200], stream="%s bytes %s.., text %r in %s" % (len(data), data[:16].hex(), text[:60], enc),
                                  detected=dd[:80], judge="HOLD", why="XML stream: the load predicted with the detected encoding (px_detect) differs from the implementation's"))
    for (text, enc, data), il, a, b, dd in list(zip(items, ilines, iout, mout, dout))[:2]:
        samples.append(dict(case=il[:120], implementation=a[:100], model=b[:100], detected=dd[:60]))
    return dict(failing=failing, diffs=diffs, notes=notes[:10], samples=samples, evaluations=len(ilines) + len(mlines) + len(dlines))
