"""Shared pieces of the MsgPack value-codec checks (C06, C07, C05): drivers, an independent encoder /
decoder written from the MessagePack specification (used to build inputs and to judge
disagreements), case generators."""
import os, struct

READ_INT_TYPES = ["u1", "u8", "u16", "u32", "u64", "c8", "s8", "s16", "s32", "s64"]
POLS = ["TT", "TS", "ST", "SS"]


def drivers(vlib):
    impl = vlib.build_cpp("drv_msgpack", ["drv_msgpack.cpp"] + vlib.repo_sources("src/msgpack/*.cpp", "src/common/*.cpp"))
    model = vlib.build_model("mp")
    return impl, model


def save_drivers(vlib):
    impl = vlib.build_cpp("drv_mpsave", ["drv_mpsave.cpp"] + vlib.repo_sources("src/msgpack/*.cpp", "src/common/*.cpp"))
    model = vlib.build_model("mp")
    return impl, model


def hx(b):
    return b.hex() if b else "-"


def shex(v):
    return ("-%x" % -v) if v < 0 else ("+%x" % v)


# ---------------------------------------------------------------- independent encoder (spec)

def enc_int(z, rng=None, fmt=None):
    """all legal encodings of integer z; picks one (random when rng given, else the shortest)"""
    opts = []
    if 0 <= z < 128:
        opts.append(bytes([z]))
    if -32 <= z < 0:
        opts.append(bytes([z & 0xFF]))
    for code, n in ((0xCC, 1), (0xCD, 2), (0xCE, 4), (0xCF, 8)):
        if 0 <= z < 1 << (8 * n):
            opts.append(bytes([code]) + z.to_bytes(n, "big"))
    for code, n in ((0xD0, 1), (0xD1, 2), (0xD2, 4), (0xD3, 8)):
        if -(1 << (8 * n - 1)) <= z < 1 << (8 * n - 1):
            opts.append(bytes([code]) + z.to_bytes(n, "big", signed=True))
    if rng is None:
        return min(opts, key=len)
    return rng.choice(opts)


def enc_len(n, fix, codes, rng=None):
    """header for a length n: fix=(tag, maxfix) or None; codes = [(code, nbytes)...]"""
    opts = []
    if fix and n <= fix[1]:
        opts.append(bytes([fix[0] | n]))
    for code, k in codes:
        if n < 1 << (8 * k):
            opts.append(bytes([code]) + n.to_bytes(k, "big"))
    return rng.choice(opts) if rng else min(opts, key=len)


def enc_str(s, rng=None):
    return enc_len(len(s), (0xA0, 31), [(0xD9, 1), (0xDA, 2), (0xDB, 4)], rng) + s


def enc_bin(s, rng=None):
    return enc_len(len(s), None, [(0xC4, 1), (0xC5, 2), (0xC6, 4)], rng) + s


def enc_arr_hdr(n, rng=None):
    return enc_len(n, (0x90, 15), [(0xDC, 2), (0xDD, 4)], rng)


def enc_map_hdr(n, rng=None):
    return enc_len(n, (0x80, 15), [(0xDE, 2), (0xDF, 4)], rng)


def enc_ext(ty, s, rng=None):
    opts = []
    fixcodes = {1: 0xD4, 2: 0xD5, 4: 0xD6, 8: 0xD7, 16: 0xD8}
    if len(s) in fixcodes:
        opts.append(bytes([fixcodes[len(s)], ty & 0xFF]) + s)
    for code, k in ((0xC7, 1), (0xC8, 2), (0xC9, 4)):
        if len(s) < 1 << (8 * k):
            opts.append(bytes([code]) + len(s).to_bytes(k, "big") + bytes([ty & 0xFF]) + s)
    return rng.choice(opts) if rng else min(opts, key=len)


def ts_payload(secs, nanos, rng=None):
    """spec layouts able to carry (secs, nanos)"""
    opts = []
    if nanos == 0 and 0 <= secs < 1 << 32:
        opts.append(secs.to_bytes(4, "big"))
    if 0 <= secs < 1 << 34:
        opts.append(((nanos << 34) | secs).to_bytes(8, "big"))
    opts.append(nanos.to_bytes(4, "big") + secs.to_bytes(8, "big", signed=True))
    return rng.choice(opts) if rng else opts[0]


def enc_value(v, rng=None):
    """v: None | bool | int | ('f32', bits) | ('f64', bits) | bytes(str) | ('bin', bytes) | list | dict-as-list-of-pairs ('map', [(k,v)..]) | ('ext', ty, bytes)"""
    if v is None:
        return b"\xC0"
    if v is True:
        return b"\xC3"
    if v is False:
        return b"\xC2"
    if isinstance(v, int):
        return enc_int(v, rng)
    if isinstance(v, bytes):
        return enc_str(v, rng)
    if isinstance(v, list):
        return enc_arr_hdr(len(v), rng) + b"".join(enc_value(x, rng) for x in v)
    tag = v[0]
    if tag == "f32":
        return b"\xCA" + v[1].to_bytes(4, "big")
    if tag == "f64":
        return b"\xCB" + v[1].to_bytes(8, "big")
    if tag == "bin":
        return enc_bin(v[1], rng)
    if tag == "map":
        return enc_map_hdr(len(v[1]), rng) + b"".join(enc_value(k, rng) + enc_value(x, rng) for k, x in v[1])
    if tag == "ext":
        return enc_ext(v[1], v[2], rng)
    raise ValueError(v)


# ---------------------------------------------------------------- independent decoder (spec)

class Bad(Exception):
    pass


def dec_value(b, i=0, depth=0):
    """returns (value, next index) or raises Bad"""
    if depth > 500:
        raise Bad("depth")
    if i >= len(b):
        raise Bad("end")
    c = b[i]
    i += 1

    def take(n):
        nonlocal i
        if i + n > len(b):
            raise Bad("trunc")
        s = b[i:i + n]
        i += n
        return s

    def seq(n):
        nonlocal i
        out = []
        for _ in range(n):
            x, i2 = dec_value(b, i, depth + 1)
            i = i2
            out.append(x)
        return out

    if c < 0x80:
        return c, i
    if c < 0x90:
        items = seq(2 * (c - 0x80))
        return ("map", list(zip(items[0::2], items[1::2]))), i
    if c < 0xA0:
        return seq(c - 0x90), i
    if c < 0xC0:
        return take(c - 0xA0), i
    if c == 0xC0:
        return None, i
    if c == 0xC1:
        raise Bad("c1")
    if c == 0xC2:
        return False, i
    if c == 0xC3:
        return True, i
    if c in (0xC4, 0xC5, 0xC6):
        n = int.from_bytes(take(1 << (c - 0xC4)), "big")
        return ("bin", take(n)), i
    if c in (0xC7, 0xC8, 0xC9):
        n = int.from_bytes(take(1 << (c - 0xC7)), "big")
        ty = take(1)[0]
        return ("ext", ty, take(n)), i
    if c == 0xCA:
        return ("f32", int.from_bytes(take(4), "big")), i
    if c == 0xCB:
        return ("f64", int.from_bytes(take(8), "big")), i
    if 0xCC <= c <= 0xCF:
        return int.from_bytes(take(1 << (c - 0xCC)), "big"), i
    if 0xD0 <= c <= 0xD3:
        return int.from_bytes(take(1 << (c - 0xD0)), "big", signed=True), i
    if 0xD4 <= c <= 0xD8:
        ty = take(1)[0]
        return ("ext", ty, take(1 << (c - 0xD4))), i
    if c in (0xD9, 0xDA, 0xDB):
        n = int.from_bytes(take(1 << (c - 0xD9)), "big")
        return take(n), i
    if c in (0xDC, 0xDD):
        n = int.from_bytes(take(2 if c == 0xDC else 4), "big")
        if n > len(b):
            raise Bad("trunc")
        return seq(n), i
    if c in (0xDE, 0xDF):
        n = int.from_bytes(take(2 if c == 0xDE else 4), "big")
        if n > len(b):
            raise Bad("trunc")
        items = seq(2 * n)
        return ("map", list(zip(items[0::2], items[1::2]))), i
    return c - 256, i


# ---------------------------------------------------------------- random values

INT_EDGES = []
for k in (5, 7, 8, 15, 16, 31, 32, 63, 64):
    for d in (-2, -1, 0, 1, 2):
        for s in (1, -1):
            z = s * (1 << k) + d
            if -(1 << 63) <= z < (1 << 64):
                INT_EDGES.append(z)
INT_EDGES += [0, 1, -1, 127, 128, -32, -33, 255, 256]


def rand_int(rng):
    k = rng.random()
    if k < 0.5:
        return rng.choice(INT_EDGES)
    if k < 0.7:
        return rng.randrange(-200, 300)
    b = rng.choice([8, 16, 32, 64])
    return rng.randrange(-(1 << (b - 1)), 1 << b)


F32_EDGES = [0x0, 0x80000000, 0x3f800000, 0x7f7fffff, 0xff7fffff, 0x7f800000, 0xff800000, 0x7fc00000, 0x1, 0x807fffff, 0x00800000, 0x42280000]
F64_EDGES = [0x0, 0x8000000000000000, 0x3ff0000000000000, 0x7fefffffffffffff, 0xffefffffffffffff, 0x7ff0000000000000, 0xfff0000000000000,
             0x7ff8000000000000, 0x1, 0x47efffffe0000000, 0x47effffff0000000, 0x47f0000000000000, 0xc7efffffe0000000, 0xc7effffff0000001, 0x36a0000000000000, 0x3690000000000001,
             0x380fffffc0000000, 0x3ff0000010000000, 0x3ff0000030000000, 0x4045000000000000]


def rand_f32(rng):
    return rng.choice(F32_EDGES) if rng.random() < 0.4 else rng.randrange(0, 1 << 32)


def rand_f64(rng):
    if rng.random() < 0.4:
        return rng.choice(F64_EDGES)
    if rng.random() < 0.5:   # a double that is exactly a float
        return struct.unpack(">Q", struct.pack(">d", struct.unpack(">f", struct.pack(">I", rng.randrange(0, 1 << 32)))[0]))[0] if True else 0
    return rng.randrange(0, 1 << 64)


def rand_bytes(rng, maxlen=40):
    n = rng.choice([0, 1, 2, 15, 16, 31, 32, 33, rng.randrange(0, maxlen + 1)])
    return bytes(rng.randrange(0, 256) for _ in range(n))


def rand_ts(rng):
    secs = rng.choice([0, 1, -1, (1 << 32) - 1, 1 << 32, (1 << 34) - 1, 1 << 34, -(1 << 63), (1 << 63) - 1, rng.randrange(-(1 << 40), 1 << 40)])
    nanos = rng.choice([0, 1, 999999999, 500000000, rng.randrange(0, 1000000000)])
    return secs, nanos


def rand_value(rng, depth=0):
    k = rng.random()
    if depth > 3:
        k = k * 0.7
    if k < 0.25:
        return rand_int(rng)
    if k < 0.32:
        return rng.choice([None, True, False])
    if k < 0.40:
        return ("f32", rand_f32(rng))
    if k < 0.48:
        return ("f64", rand_f64(rng))
    if k < 0.58:
        return rand_bytes(rng)
    if k < 0.64:
        return ("bin", rand_bytes(rng))
    if k < 0.70:
        s, n = rand_ts(rng)
        return ("ext", 0xFF, ts_payload(s, n, rng))
    if k < 0.74:
        return ("ext", rng.randrange(0, 256), rand_bytes(rng, 20))
    if k < 0.88:
        return [rand_value(rng, depth + 1) for _ in range(rng.choice([0, 1, 2, 3, 15, 16, 17]) if depth < 2 else rng.randrange(0, 3))]
    return ("map", [(rng.choice([rand_int(rng), rand_bytes(rng, 6)]), rand_value(rng, depth + 1)) for _ in range(rng.choice([0, 1, 2, 3, 15, 16]) if depth < 2 else rng.randrange(0, 3))])


READ_OPS = ["nil", "f32", "f64", "str", "arr", "map", "bin", "ts", "type", "skip", "byte"] + ["int " + t for t in READ_INT_TYPES]


def read_cases_for(data, rng, ops=None, pols=None, kinds=("m",)):
    out = []
    for op in (ops or READ_OPS):
        for pol in (pols or [rng.choice(POLS)]):
            for k in kinds:
                out.append("r %s %s %s %s" % (k, pol, op, hx(data)))
    return out


def parse_ans(s):
    t = s.split(" ")
    return t


# ---------------------------------------------------------------- value trees (typed save level)

IKINDS = {"u8": (0, 1 << 8), "u16": (0, 1 << 16), "u32": (0, 1 << 32), "u64": (0, 1 << 64),
          "s8": (-(1 << 7), 1 << 7), "s16": (-(1 << 15), 1 << 15), "s32": (-(1 << 31), 1 << 31), "s64": (-(1 << 63), 1 << 63)}


def rand_tree(rng, depth=0):
    """returns (tree text, abstract value in the Python decoder's representation)"""
    k = rng.random()
    if depth > 3:
        k *= 0.6
    if k < 0.25:
        kind = rng.choice(list(IKINDS))
        lo, hi = IKINDS[kind]
        z = rng.choice([lo, hi - 1, 0, 1, 127, 128, 255, 256, -1, -32, -33, rand_int(rng)])
        if not (lo <= z < hi):
            z = rng.randrange(lo, hi)
        return "i%s:%s" % (kind, shex(z)), z
    if k < 0.30:
        c = rng.choice("nTF")
        return c, {"n": None, "T": True, "F": False}[c]
    if k < 0.36:
        b = rand_f32(rng)
        return "f%x" % b, ("f32", b)
    if k < 0.42:
        b = rand_f64(rng)
        return "d%x" % b, ("f64", b)
    if k < 0.52:
        s = bytes(rng.randrange(1, 256) for _ in range(rng.choice([0, 1, 5, 31, 32, 33, 255, 256, rng.randrange(0, 40)])))
        return "s" + hx(s), s
    if k < 0.62:
        s = rand_bytes(rng, 300) if rng.random() < 0.1 else rand_bytes(rng)
        return "b" + hx(s), ("bin", s)
    if k < 0.82:
        n = rng.choice([0, 1, 2, 3, 15, 16, 17]) if depth < 2 else rng.randrange(0, 3)
        items = [rand_tree(rng, depth + 1) for _ in range(n)]
        return "[" + ";".join(t for t, _ in items) + "]", [v for _, v in items]
    n = rng.choice([0, 1, 2, 3, 15, 16, 17]) if depth < 2 else rng.randrange(0, 3)
    if rng.random() < 0.7:
        keys = [("s" + hx(b"k%d" % i), b"k%d" % i) for i in range(n)]
    else:
        kind = rng.choice(["u8", "u32", "s16", "s64", "u64"])
        lo, hi = IKINDS[kind]
        zs = rng.sample(range(max(lo, -1000), min(hi, 1000)), n) if n <= 20 else list(range(n))
        keys = [("i%s:%s" % (kind, shex(z)), z) for z in sorted(zs)]
    vals = [rand_tree(rng, depth + 1) for _ in range(n)]
    return "{" + ";".join("%s=%s" % (k[0], v[0]) for k, v in zip(keys, vals)) + "}", ("map", [(k[1], v[1]) for k, v in zip(keys, vals)])
