"""C05 / C06 / C07 checks at the MsgPack value-codec level (shared implementation)."""
import mp_common as M

TRUSTED_BASE = [
    "Coq 8.16.1 kernel incl. vm_compute (256-value mask sweep, Examples); no native_compute",
    "axioms: none (every theorem prints 'Closed under the global context')",
    "hand-written Gallina model coq/MpModel.v of src/msgpack/msgpack_writers.cpp and of the string reader in msgpack_readers.cpp (ByteCodeTable, SkipValueImpl, ReadInteger, ReadExtFamilyType, ReadValue overloads); the stream writer/reader copies are tied to the same model functions by this correspondence run (kind 's' ops); reference decoder coq/MpSpec.v written from the MessagePack specification",
    "modelled, not verified: Memory::NativeToBigEndian + raw byte copy = big-endian byte list (Memory::Reverse for 16/32 bit is T_C11_rev16/32; 64 bit by correspondence); ConvertByPolicy on integers = exact range test (that is C04's theorem); double->float narrowing / float->double widening are the C++ conversions, supplied to the model by the driver (OCaml Int32.bits_of_float)",
    "extraction: ExtrOcamlBasic only; trusted glue ml/glue.ml ml/glue_mp.ml ml/mp_driver.ml harness/drv_msgpack.cpp props/mp_common.py (independent Python encoder/decoder used for input generation and for judging disagreements)",
]
ASSUMPTIONS = [
    "input bytes are < 256 (C++ char); positions are modelled as suffixes of the immutable input",
    "drivers run under ASan+UBSan including the alignment check (finding F35, misaligned multi-byte loads in GetValue, was repaired by fix: commit ebf776b)",
]


def writer_cases(rng, tier):
    n = 3000 if tier == "quick" else 40000
    cases = []
    for v in range(256):
        cases += ["w m u8 %x" % v, "w s u8 %x" % v, "w m i8 %s" % M.shex(v - 128), "w s i8 %s" % M.shex(v - 128)]
    if tier != "quick":
        for v in range(0, 65536):
            cases += ["w m u16 %x" % v, "w m i16 %s" % M.shex(v - 32768)]
    else:
        for v in list(range(0, 65536, 97)) + [127, 128, 255, 256, 32767, 32768, 65535]:
            cases += ["w m u16 %x" % v, "w s i16 %s" % M.shex(v - 32768)]
    for z in M.INT_EDGES:
        for nm, lo, hi in (("u16", 0, 1 << 16), ("u32", 0, 1 << 32), ("u64", 0, 1 << 64)):
            if lo <= z < hi:
                cases += ["w m %s %x" % (nm, z), "w s %s %x" % (nm, z)]
        for nm, b in (("i16", 16), ("i32", 32), ("i64", 64)):
            if -(1 << (b - 1)) <= z < (1 << (b - 1)):
                cases += ["w m %s %s" % (nm, M.shex(z)), "w s %s %s" % (nm, M.shex(z))]
    for _ in range(n):
        z = M.rand_int(rng)
        k = rng.choice("ms")
        for nm, lo, hi in (("u16", 0, 1 << 16), ("u32", 0, 1 << 32), ("u64", 0, 1 << 64)):
            if lo <= z < hi:
                cases.append("w %s %s %x" % (k, nm, z))
        for nm, b in (("i16", 16), ("i32", 32), ("i64", 64)):
            if -(1 << (b - 1)) <= z < (1 << (b - 1)):
                cases.append("w %s %s %s" % (k, nm, M.shex(z)))
        s, ns = M.rand_ts(rng)
        cases.append("w %s ts %s %s" % (k, M.shex(s), M.shex(ns)))
        cases.append("w %s f32 %x" % (k, M.rand_f32(rng)))
        cases.append("w %s f64 %x" % (k, M.rand_f64(rng)))
        cases.append("w %s str %s" % (k, M.hx(M.rand_bytes(rng, 300))))
        cases.append("w %s %s %x" % (k, rng.choice(["arr", "map", "bin", "strn"]), rng.choice([0, 1, 15, 16, 17, 31, 32, 33, 255, 256, 257, 65535, 65536, 65537, rng.randrange(0, 70000)])))
    for nlen in (0, 1, 15, 16, 31, 32, 33, 255, 256, 257, 65535, 65536, 65537, (1 << 32) - 1, 1 << 32, (1 << 32) + 1):
        for op in ("arr", "map", "bin"):
            cases += ["w m %s %x" % (op, nlen), "w s %s %x" % (op, nlen)]
        if nlen < 100000:
            cases += ["w m strn %x" % nlen, "w s strn %x" % nlen]
    cases += ["w m nil", "w s nil", "w m bool 0", "w m bool 1", "w s bool 1"]
    return cases


def judge_writer(line, out):
    t = line.split(" ")
    op = t[2]
    if out.startswith("ERR"):
        if op in ("arr", "map", "bin", "strn") and int(t[3], 16) >= 1 << 32:
            return "HOLD", "oversize length refused"
        return "FAIL", "writer raised %s" % out
    try:
        b = bytes.fromhex(out) if out != "-" else b""
    except ValueError:
        return "FAIL", "no output: %s" % out
    if op in ("arr", "map", "bin", "strn"):
        n = int(t[3], 16)
        if n >= 1 << 32:
            return "FAIL", "oversize length accepted"
        exp = {"arr": M.enc_arr_hdr(n), "map": M.enc_map_hdr(n), "bin": M.enc_bin(b"")[:0] + M.enc_len(n, None, [(0xC4, 1), (0xC5, 2), (0xC6, 4)]),
               "strn": M.enc_str(b"a" * n)}[op]
        return ("HOLD", "shortest header") if b == exp else ("FAIL", "expected %s" % exp[:8].hex())
    try:
        v, i = M.dec_value(b)
    except M.Bad as e:
        return "FAIL", "output is not a well-formed MessagePack object (%s)" % e
    if i != len(b):
        return "FAIL", "more than one object emitted"
    if op == "nil":
        ok = v is None
    elif op == "bool":
        ok = v is (t[3] == "1")
    elif op in ("u8", "u16", "u32", "u64"):
        z = int(t[3], 16)
        ok = (v == z and not isinstance(v, bool) and len(b) == len(M.enc_int(z)))
    elif op in ("i8", "i16", "i32", "i64"):
        z = int(t[3][1:], 16) * (-1 if t[3][0] == "-" else 1)
        ok = (v == z and not isinstance(v, bool) and len(b) == len(M.enc_int(z)))
    elif op == "f32":
        ok = v == ("f32", int(t[3], 16))
    elif op == "f64":
        ok = v == ("f64", int(t[3], 16))
    elif op == "str":
        s = bytes.fromhex(t[3]) if t[3] != "-" else b""
        ok = v == s and b == M.enc_str(s)
    elif op == "ts":
        secs = int(t[3][1:], 16) * (-1 if t[3][0] == "-" else 1)
        nanos = int(t[4][1:], 16) * (-1 if t[4][0] == "-" else 1)
        if not (0 <= nanos <= 999999999):
            return "UNKNOWN", "nanoseconds outside 0..999999999 (precondition of CBinTimestamp)"
        ok = v == ("ext", 0xFF, M.ts_payload(secs, nanos)) and b == M.enc_ext(0xFF, M.ts_payload(secs, nanos))
    else:
        return "UNKNOWN", "unjudged op"
    return ("HOLD", "decodes to the value in the most compact format") if ok else ("FAIL", "independent decoder reads %r (%d bytes)" % (v, len(b)))


def tree_cases(rng, tier):
    n = 2500 if tier == "quick" else 40000
    cases, expect = [], {}
    fixed = ["[b0102;b90]", "[[b-];[b01;bff]]", "{s61=[b0102;b90]}", "[]", "{}", "s-", "b-", "[[];{};[[]]]",
             "[" + ";".join("iu8:+%x" % i for i in range(16)) + "]", "[" + ";".join("b%02x" % i for i in range(17)) + "]"]
    for t in fixed:
        for k in "ms":
            cases.append("sv %s %s" % (k, t))
    for _ in range(n):
        t, v = rand_tree_top(rng)
        line = "sv %s %s" % (rng.choice("ms"), t)
        cases.append(line)
        expect[line] = v
    return cases, expect


def rand_tree_top(rng):
    return M.rand_tree(rng)


def judge_tree(expect):
    def judge(line, out):
        if out.startswith("ERR"):
            return "FAIL", "save raised %s" % out
        try:
            b = bytes.fromhex(out) if out != "-" else b""
            v, i = M.dec_value(b)
        except (ValueError, M.Bad) as e:
            return "FAIL", "output is not a well-formed MessagePack object (%s)" % e
        if i != len(b):
            return "FAIL", "more than one object emitted (%d of %d bytes decoded)" % (i, len(b))
        if line in expect:
            if v != expect[line]:
                return "FAIL", "independent decoder recovers %r, the saved value denotes %r" % (v, expect[line])
            return "HOLD", "decodes to the saved value"
        return "UNKNOWN", "no expected value recorded for this case"
    return judge


def reader_cases(rng, tier, kinds=("m", "s"), skip_only=False):
    n = 1500 if tier == "quick" else 20000
    cases = []
    tails = (b"", b"\x00", b"\x01\x02", b"\xff\xff\xff\xff\xff", bytes(range(1, 20)),
             b"\x00\x00\x00\x01\xff\x05\x06\x07\x08\x09\x0a\x0b\x0c\x0d\x0e\x0f\x10\x11\x12\x13\x14")
    ops = ["skip", "nil", "str", "int s32", "int u8", "f64", "arr", "map", "bin", "ts", "type"] if skip_only else None
    pols = ["SS", "ST"] if skip_only else ["TT", "SS"]
    for b in range(256):
        for tail in tails:
            cases += M.read_cases_for(bytes([b]) + tail, rng, ops=ops, pols=pols, kinds=kinds)
    for _ in range(n):
        v = M.rand_value(rng)
        d = M.enc_value(v, rng)
        pp = [rng.choice(["SS", "ST"])] if skip_only else None
        cases += M.read_cases_for(d + rng.choice([b"", b"\x07", b"\xc0\x01"]), rng, ops=ops, pols=pp, kinds=kinds)
        if not skip_only:
            if rng.random() < 0.4 and len(d) > 1:   # truncations
                cases += M.read_cases_for(d[:rng.randrange(0, len(d))], rng, ops=rng.sample(M.READ_OPS, 5), kinds=kinds)
            if rng.random() < 0.4 and len(d) > 0:   # single-byte corruptions
                i = rng.randrange(0, min(len(d), 64))
                d2 = d[:i] + bytes([rng.randrange(256)]) + d[i + 1:]
                cases += M.read_cases_for(d2, rng, ops=rng.sample(M.READ_OPS, 5), kinds=kinds)
    return cases


def boundary_cases(rng, tier, kinds=("m", "s")):
    """sequences of reads over documents shifted across the stream reader's 256-byte chunk boundary by a
    leading string of every length around it (C10: values, keys, length fields straddling the boundary)"""
    cases = []
    lens = list(range(0, 12)) + list(range(236, 262)) + list(range(492, 520))
    if tier != "quick":
        lens = list(range(0, 530))
    seqops = ["int:s64", "int:u8", "str", "nil", "f64", "f32", "arr", "map", "bin", "ts", "skip", "type"]
    for L in lens:
        for _ in range(2 if tier == "quick" else 3):
            pad = M.enc_str(b"a" * L)
            vs = [M.rand_value(rng) for _ in range(3)]
            data = pad + b"".join(M.enc_value(v, rng) for v in vs)
            ops = ["str"] + [rng.choice(seqops) for _ in range(3)]
            pol = rng.choice(M.POLS)
            for k in kinds:
                cases.append("q %s %s %s %s" % (k, pol, ",".join(ops), M.hx(data)))
            ops2 = ["skip"] + [rng.choice(["skip", "type", "str", "int:s32"]) for _ in range(3)]
            for k in kinds:
                cases.append("q %s SS %s %s" % (k, ",".join(ops2), M.hx(data)))
            if rng.random() < 0.5:   # truncated inside / around the boundary
                cut = rng.randrange(max(0, len(pad) - 3), len(data))
                for k in kinds:
                    cases.append("q %s %s %s %s" % (k, pol, ",".join(ops), M.hx(data[:cut])))
    # long strings / binaries read through ReadByChunks, long arrays of small values
    for n in (255, 256, 257, 511, 512, 513, 1000):
        s_ = M.enc_str(bytes((i * 7) % 256 for i in range(n))) + b"\x05"
        b_ = M.enc_bin(bytes((i * 3) % 256 for i in range(n))) + b"\x05"
        a_ = M.enc_arr_hdr(n) + b"".join(M.enc_int(i % 200 - 100) for i in range(n)) + b"\x05"
        for k in kinds:
            cases.append("q %s TT str,int:u8 %s" % (k, M.hx(s_)))
            cases.append("q %s TT skip,int:u8 %s" % (k, M.hx(s_)))
            cases.append("q %s TT bin,byte,byte %s" % (k, M.hx(b_)))
            cases.append("q %s TT skip,int:u8 %s" % (k, M.hx(b_)))
            cases.append("q %s TT skip,int:u8 %s" % (k, M.hx(a_)))
            cases.append("q %s TT arr,int:s8,int:s8,skip %s" % (k, M.hx(a_)))
    return cases


INT_RANGE = {"u1": (0, 2), "u8": (0, 1 << 8), "u16": (0, 1 << 16), "u32": (0, 1 << 32), "u64": (0, 1 << 64),
             "c8": (-128, 128), "s8": (-128, 128), "s16": (-(1 << 15), 1 << 15), "s32": (-(1 << 31), 1 << 31), "s64": (-(1 << 63), 1 << 63)}


def judge_reader(line, out):
    """expected behaviour from the independent Python decoder + the property text"""
    t = line.split(" ")
    if t[0] == "q":
        return judge_seq(line, out)
    pol, op = t[2], t[3]
    data = bytes.fromhex(t[-1]) if t[-1] != "-" else b""
    try:
        v, i = M.dec_value(data)
        ok = True
    except M.Bad:
        ok = False
    except RecursionError:
        return "UNKNOWN", "too deep for the judge"
    o = out.split(" ")
    if not ok:
        if op in ("arr", "map", "bin", "type", "byte"):
            return "UNKNOWN", "header-only op on an undecodable document"
        return ("HOLD", "ill-formed input rejected") if o[0] == "ERR" else ("FAIL", "ill-formed / truncated input accepted: %s" % out)
    mism = "ERR M" if pol[0] == "T" else "NOT %d" % i
    if op == "skip":
        exp = "OK - %d" % i
    elif op == "int":
        ty = t[4]
        if isinstance(v, bool) or isinstance(v, int):
            z = int(v)
            lo, hi = INT_RANGE[ty]
            if lo <= z < hi:
                exp = "OK %s %d" % (M.shex(z), i)
            else:
                exp = "ERR O" if pol[1] == "T" else "NOT %d" % i
        elif v is None:
            exp = "NOT %d" % i
        else:
            exp = mism
    elif op == "nil":
        exp = "OK nil %d" % i if v is None else mism
    elif op == "str":
        exp = "OK %s %d" % (M.hx(v), i) if isinstance(v, bytes) else ("NOT %d" % i if v is None else mism)
    elif op in ("f32", "f64"):
        if isinstance(v, tuple) and v[0] == op:
            exp = "OK %x %d" % (v[1], i)
            import math, struct
            f = struct.unpack(">f" if op == "f32" else ">d", v[1].to_bytes(4 if op == "f32" else 8, "big"))[0]
            if math.isnan(f):
                exp = "OK nan %d" % i
        elif isinstance(v, tuple) and v[0] in ("f32", "f64"):
            # the other float width on the wire (seeded change S27: a narrowing helper that rejects zero, negative and
            # denormal doubles): widening is exact; narrowing of a finite double within the float range is the nearest
            # float, beyond it the overflow policy decides; infinities / NaN are judged by the model only
            import math, struct
            if v[0] == "f32":
                f = struct.unpack(">f", v[1].to_bytes(4, "big"))[0]
                if math.isnan(f):
                    exp = "OK nan %d" % i
                else:
                    exp = "OK %x %d" % (int.from_bytes(struct.pack(">d", f), "big"), i)
            else:
                d = struct.unpack(">d", v[1].to_bytes(8, "big"))[0]
                if math.isnan(d) or math.isinf(d):
                    return "UNKNOWN", "non-finite width conversion (judged by the model only)"
                FLT_MAX = struct.unpack(">f", bytes.fromhex("7f7fffff"))[0]
                if abs(d) <= FLT_MAX:
                    exp = "OK %x %d" % (int.from_bytes(struct.pack(">f", d), "big"), i)
                else:
                    exp = "ERR O" if pol[1] == "T" else "NOT %d" % i
        else:
            exp = "NOT %d" % i if v is None else mism
    elif op == "ts":
        if isinstance(v, tuple) and v[0] == "ext" and v[1] == 0xFF and len(v[2]) in (4, 8, 12):
            p = v[2]
            if len(p) == 4:
                secs, nanos = int.from_bytes(p, "big"), 0
            elif len(p) == 8:
                d = int.from_bytes(p, "big")
                secs, nanos = d & ((1 << 34) - 1), d >> 34
            else:
                nanos, secs = int.from_bytes(p[:4], "big"), int.from_bytes(p[4:], "big", signed=True)
            exp = "OK %s,%s %d" % (M.shex(secs), M.shex(nanos), i)
        elif isinstance(v, tuple) and v[0] == "ext" and v[1] == 0xFF:
            exp = "ERR P"
        else:
            exp = "NOT %d" % i if v is None else mism
    else:
        return "UNKNOWN", "op not judged independently"
    return ("HOLD", "as the reference decoder") if out == exp else ("FAIL", "reference decoder expects: %s" % exp)


def judge_seq(line, out):
    """a read sequence: replay it with the Python decoder, judging each step like a single read on the
    remaining input"""
    t = line.split(" ")
    kind, pol, ops = t[1], t[2], t[3].split(",")
    data = bytes.fromhex(t[-1]) if t[-1] != "-" else b""
    answers = out.split(";")
    pos = 0
    worst = ("HOLD", "every step as the reference decoder")
    for i, op in enumerate(ops):
        if i >= len(answers):
            return "FAIL", "fewer answers than steps without an error"
        a = answers[i]
        sub = "r %s %s %s %s" % (kind, pol, op.replace(":", " "), M.hx(data[pos:]))
        # positions in the answer are absolute: rebase
        f = a.split(" ")
        if f[0] in ("OK", "NOT") and f[-1].isdigit():
            rel = int(f[-1]) - pos
            a_rel = " ".join(f[:-1] + [str(rel)])
        else:
            a_rel = a
        v, why = judge_reader(sub, a_rel)
        if v == "FAIL":
            return "FAIL", "step %d (%s at offset %d): %s" % (i, op, pos, why)
        if v == "UNKNOWN":
            worst = ("UNKNOWN", "step %d not judged independently" % i)
        if f[0] == "ERR":
            return worst if i == len(answers) - 1 else ("FAIL", "answers after an error")
        if f[-1].isdigit():
            pos = int(f[-1])
    return worst


def assess(prop, vlib, cases, oi, om, judge, nontrivial, rule):
    failing, diffs = [], []
    seen = set()
    nt = 0
    classes = {}
    for line, a, b in zip(cases, oi, om):
        t = line.split(" ")
        key = " ".join(t[:4]) if t[0] == "r" else " ".join(t[:3])
        if t[0] == "q":
            key = "q %s (sequence across chunk boundary)" % t[1]
        classes[key] = classes.get(key, 0) + 1
        if line not in seen:
            seen.add(line)
            if nontrivial(line, b):
                nt += 1
        if a != b:
            verdict, why = judge(line, a)
            rec = dict(driver="msgpack", case=line, implementation=a, model=b, judge=verdict, why=why)
            if verdict == "FAIL" and len(failing) < 20:
                failing.append(rec)
            elif len(diffs) < 20:
                diffs.append(rec)
    known_lines = []
    kn = [k for k in vlib.load_known(prop) if k.get("status") == "known" and k.get("driver", "msgpack") == "msgpack"]
    if kn:
        impl, model = M.drivers(vlib)
        outs = vlib.run_driver(impl, [k["case"] for k in kn], jobs=1)
        for k, o in zip(kn, outs):
            if o == k["implementation"]:
                known_lines.append("%s: %s [case: %s -> %s]" % (k["id"], k["what"], k["case"], o))
            else:
                diffs.append(dict(driver="msgpack", case=k["case"], implementation=o, model=k["implementation"], judge="KNOWN-FINDING-CHANGED",
                                  why="listed known finding %s no longer reproduces as recorded" % k["id"]))
    known_cases = set(k["case"] for k in kn)
    failing = [f for f in failing if f["case"] not in known_cases]
    samples = [dict(case=cases[i], implementation=oi[i], model=om[i]) for i in (0, len(cases) // 2, len(cases) - 1)]
    return dict(evaluations=len(cases), distinct_nontrivial=nt, samples=samples, classes=classes, failing=failing, diffs=diffs,
                known_lines=known_lines, rule=rule, broken="correspondence MsgPack model vs src/msgpack (drv_msgpack)")


def replay(rp, vlib, judge):
    impl, model = M.drivers(vlib)
    line = rp["case"]
    a = vlib.run_driver(impl, [line], jobs=1)[0]
    b = vlib.run_driver(model, [line], jobs=1)[0]
    v, why = judge(line, a)
    return dict(case=line, implementation=a, model=b, judge=v, why=why)


# ---------------------------------------------------------------- C10: memory vs stream loading of MsgPack documents

def mem_vs_stream(ctx, vlib):
    """the same read sequences through CMsgPackStringReader and CMsgPackStreamReader (chunk size 256 and,
    with the hook, 8): both must give the model's answers, hence the same value / the same error category"""
    rng, tier = ctx["rng"], ctx["tier"]
    srcs = ["drv_msgpack.cpp"] + vlib.repo_sources("src/msgpack/*.cpp", "src/common/*.cpp")
    impls = {256: vlib.build_cpp("drv_msgpack", srcs)}
    hook = "BITSERIALIZER_VERIF_CHUNK_SIZE" in open(vlib.REPO + "/src/common/binary_stream_reader.h").read()
    if hook:
        impls[8] = vlib.build_cpp("drv_msgpack_k8", srcs, extra=["-DBITSERIALIZER_VERIF_CHUNK_SIZE=8"])
    model = vlib.build_model("mp")
    base = reader_cases(rng, tier, kinds=("m",)) + boundary_cases(rng, tier, kinds=("m",))
    if tier == "quick":
        base = base[::3]
    mem = base
    stream = [c.replace(" m ", " s ", 1) for c in base]
    om = vlib.run_driver(model, mem)
    failing, diffs = [], []
    evals = 0
    classes = {}
    for k, impl in sorted(impls.items()):
        a_mem = vlib.run_driver(impl, mem) if k == 256 else None
        a_str = vlib.run_driver(impl, stream)
        evals += len(stream) + (len(mem) if a_mem else 0)
        classes["msgpack mem-vs-stream K=%d" % k] = len(stream)
        for i, line in enumerate(stream):
            ref = a_mem[i] if a_mem else om[i]
            if a_str[i] != ref or a_str[i] != om[i]:
                same_cat = a_str[i].split(" ")[0] == ref.split(" ")[0] and (not a_str[i].startswith("ERR") or a_str[i] == ref)
                rec = dict(driver="msgpack", case=line, chunk=k, implementation=a_str[i], memory_reader=ref, model=om[i],
                           judge="FAIL" if a_str[i] != ref else "DIFF",
                           why="stream loading (%s) differs from memory loading (%s) of the same document" % (a_str[i][:80], ref[:80]) if a_str[i] != ref
                               else "both readers agree with each other but not with the model")
                (failing if a_str[i] != ref else diffs).append(rec)
    # measured: distinct (chunk size, case) pairs whose document is longer than the chunk, i.e. the stream reader refills its window
    nontrivial = len(set((k, line) for k in impls for line in stream if len(line.split(" ")[-1]) // 2 > k))
    return dict(evaluations=evals, failing=failing[:20], diffs=diffs[:20], classes=classes, hook=hook, distinct_nontrivial=nontrivial)
