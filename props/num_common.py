"""Shared pieces of the num checks (C04, C16): drivers, value/type tables, the exact-rational oracle
for the floating-point half (python fractions / integers only), answer normalisation, the judge (the
extracted specification run through the model driver's "spec" ops), sweeps, replay."""
import os, struct
from fractions import Fraction

INT_TYPES = ["bool", "char", "i8", "u8", "i16", "u16", "i32", "u32", "i64", "u64"]
FP_TYPES = ["f32", "f64"]
ALL_TYPES = INT_TYPES + FP_TYPES
WIDTHS = ["8", "16", "32", "wc"]
RANGE = {"bool": (0, 1), "char": (-128, 127), "i8": (-128, 127), "u8": (0, 255), "i16": (-2 ** 15, 2 ** 15 - 1),
         "u16": (0, 2 ** 16 - 1), "i32": (-2 ** 31, 2 ** 31 - 1), "u32": (0, 2 ** 32 - 1),
         "i64": (-2 ** 63, 2 ** 63 - 1), "u64": (0, 2 ** 64 - 1)}
FP = {"f32": (24, 128, ">f", ">I", 8), "f64": (53, 1024, ">d", ">Q", 16)}   # precision, emax, pack, bits pack, hex digits

EXTRA_CXX = ["-fsanitize=float-cast-overflow"]


CONV_OPS = ("conv", "policy", "policyx", "policys", "sweepconv", "sweeppol")


class Impl:
    """the three binaries built from harness/drv_num.cpp; lines are routed by their op"""

    def __init__(self, conv, text, fast):
        self.conv, self.text, self.fast = conv, text, fast

    def pick(self, line):
        return self.conv if line.split(" ", 1)[0] in CONV_OPS else self.text


def drivers(vlib, need=("conv", "text")):
    """build (in parallel) the driver variants the caller needs and the model driver"""
    from concurrent.futures import ThreadPoolExecutor
    jobs = {}
    with ThreadPoolExecutor(max_workers=4) as ex:
        if "conv" in need:
            jobs["conv"] = ex.submit(vlib.build_cpp, "drv_num_conv", ["drv_num.cpp"], EXTRA_CXX + ["-DNUM_PART_CONV"])
        if "text" in need:
            jobs["text"] = ex.submit(vlib.build_cpp, "drv_num_text", ["drv_num.cpp"], EXTRA_CXX + ["-DNUM_PART_TEXT"])
        if "fast" in need:
            jobs["fast"] = ex.submit(vlib.build_cpp, "drv_num_fast", ["drv_num.cpp"], ["-O2", "-DNUM_PART_FP"], (), False)
        jobs["model"] = ex.submit(vlib.build_model, "num")
        res = {k: f.result() for k, f in jobs.items()}
    return Impl(res.get("conv"), res.get("text"), res.get("fast")), res["model"]


def run_impl(vlib, impl, lines, **kw):
    """run lines on the implementation, each on the binary that has its op"""
    idx = {}
    for k, l in enumerate(lines):
        idx.setdefault(impl.pick(l), []).append(k)
    out = [None] * len(lines)
    for binary, ks in idx.items():
        if binary is None:
            for k in ks:
                out[k] = "UNAVAILABLE"
            continue
        for k, o in zip(ks, vlib.run_driver(binary, [lines[k] for k in ks], **kw)):
            out[k] = o
    return out


# ------------------------------------------------------------------ values on the wire

def hx(z):
    return ("-%x" % -z) if z < 0 else "%x" % z


def unhx(s):
    return -int(s[1:], 16) if s.startswith("-") else int(s, 16)


def fl(units):
    return ",".join("%x" % u for u in units) if units else "-"


def pl(s):
    return [] if s in ("-", "") else [int(x, 16) for x in s.split(",")]


def txt(s):
    """ASCII text -> unit list"""
    return [ord(c) for c in s]


def fp_bits(t, x):
    """python float (exactly representable in format t) -> hex bit pattern"""
    p, emax, pk, bk, nd = FP[t]
    return "%0*x" % (nd, struct.unpack(bk, struct.pack(pk, x))[0])


def fp_of_bits(t, h):
    p, emax, pk, bk, nd = FP[t]
    return struct.unpack(pk, struct.pack(bk, int(h, 16)))[0]


def fp_is_nan(t, h):
    x = fp_of_bits(t, h)
    return x != x


def fp_is_inf(t, h):
    x = fp_of_bits(t, h)
    return x in (float("inf"), float("-inf"))


def fp_max(t):
    p, emax = FP[t][0], FP[t][1]
    return (2 ** p - 1) * Fraction(2) ** (emax - p)


# ------------------------------------------------------------------ exact oracle for the float half

def rne_int(z, p):
    """round the integer z to a p-bit significand, ties to even (result is an integer because |z| >= 2^p
    whenever rounding happens)"""
    if z == 0:
        return 0
    s = -1 if z < 0 else 1
    a = abs(z)
    n = a.bit_length()
    if n <= p:
        return z
    shift = n - p
    q, r = a >> shift, a & ((1 << shift) - 1)
    half = 1 << (shift - 1)
    if r > half or (r == half and (q & 1)):
        q += 1
    return s * (q << shift)


def rne_fraction(x, t):
    """round the rational x to format t (ties to even); returns ('ok', python float) | ('inf', sign)"""
    p, emax = FP[t][0], FP[t][1]
    emin = 3 - emax
    if x == 0:
        return ("ok", 0.0)
    s = -1 if x < 0 else 1
    a = abs(x)
    # exponent e with 2^(e-1) <= a < 2^e
    e = a.numerator.bit_length() - a.denominator.bit_length()
    while Fraction(2) ** e <= a:
        e += 1
    while Fraction(2) ** (e - 1) > a:
        e -= 1
    qexp = max(e - p, emin - p)           # exponent of the unit in the last place
    scaled = a / Fraction(2) ** qexp
    q = scaled.numerator // scaled.denominator
    rem = scaled - q
    if rem > Fraction(1, 2) or (rem == Fraction(1, 2) and (q & 1)):
        q += 1
    val = q * Fraction(2) ** qexp
    if val > fp_max(t):
        return ("inf", s)
    return ("ok", s * float(val))       # exact: val is representable in binary64 as well


def oracle_conv(S, T, v):
    """what C04 allows for Convert::To<T>(S value): returns (expected_by_code_reading, set_of_acceptable)
    answers.  v: python int for integer types, hex bits for floats."""
    if S == T:
        if S in FP_TYPES:
            a = "OK NAN" if fp_is_nan(S, v) else "OK " + v.lower().rjust(FP[S][4], "0")
        else:
            a = "OK " + hx(v)
        return a, {a}
    if S in FP_TYPES and T in INT_TYPES:
        return "INV", {"INV"}
    if S in FP_TYPES and T in FP_TYPES:
        if fp_is_nan(S, v):
            if S == "f32":
                return "OK NAN", {"OK NAN"}
            return "OOR", {"OOR", "OK NAN"}          # NaN is outside "mathematical value"; never a finite number
        x = fp_of_bits(S, v)
        if S == "f32":
            a = "OK " + fp_bits("f64", x)
            return a, {a}
        if fp_is_inf(S, v):
            return "OOR", {"OOR", "OK " + fp_bits("f32", x)}
        if abs(Fraction(x)) <= fp_max("f32"):
            kind, r = rne_fraction(Fraction(x), "f32")
            if x == 0:
                r = x                      # signed zero is preserved
            a = "OK " + fp_bits("f32", r)
            return a, {a}
        # above FLT_MAX: the code refuses even the values that would still round to FLT_MAX
        kind, r = rne_fraction(Fraction(x), "f32")
        acc = {"OOR"}
        if kind == "ok":
            acc.add("OK " + fp_bits("f32", r))
        return "OOR", acc
    # integer / bool source
    if T in FP_TYPES:
        p = FP[T][0]
        r = rne_int(v, p)
        if S == "bool":
            a = "OK " + fp_bits(T, float(r))
            return a, {a}
        lo, hi = RANGE[S]
        exact = (r == v)
        ok = "OK " + fp_bits(T, float(r))
        if not (lo <= r <= hi):
            # the rounded value is 2^digits: refused by the "value < ldexp(1, digits)" guard (fix 30e94fb; the
            # cast back would be undefined behaviour).  The property allows the rounded value or out_of_range.
            return "OOR", {ok, "OOR"}
        if exact:
            return ok, {ok}
        return "OOR", {ok, "OOR"}
    # integer -> integer is decided by the Coq model / spec
    return None, None


def apply_policy(ans, old_fmt, ovf, mism):
    """ConvertByPolicy on top of a conv answer"""
    if ans.startswith("OK "):
        return "LOADED " + ans[3:]
    if ans == "OOR":
        return ("EXC Overflow " + old_fmt) if ovf == "T" else ("NOTLOADED " + old_fmt)
    if ans == "INV":
        return ("EXC MismatchedTypes " + old_fmt) if mism == "T" else ("NOTLOADED " + old_fmt)
    if ans == "UB":
        return "UB"
    return "EXC ParsingError " + old_fmt


# ------------------------------------------------------------------ answers

def norm(ans):
    """canonical form of an implementation answer: the float-cast-overflow trap is the C++ UB outcome"""
    if ans.startswith("SANITIZER(ubsan:") and "outside the range of representable values" in ans:
        return "UB"
    return ans


def is_int_case(tokens):
    op = tokens[0]
    if op in ("conv", "policy"):
        return tokens[1] in INT_TYPES and tokens[2] in INT_TYPES
    if op == "policyx":
        return tokens[1] in INT_TYPES
    return True


def fmt_old(T, old):
    return old if T in FP_TYPES else hx(old)


def oracle_line(line):
    """oracle answer (code reading) and acceptable set for a float-involving conv/policy line, else (None, None)"""
    t = line.split(" ")
    op = t[0]
    if op == "conv" and not is_int_case(t):
        S, T = t[1], t[2]
        v = t[3] if S in FP_TYPES else unhx(t[3])
        return oracle_conv(S, T, v)
    if op == "policy" and not is_int_case(t):
        S, T = t[1], t[2]
        v = t[3] if S in FP_TYPES else unhx(t[3])
        old = t[4]
        if T in FP_TYPES:
            old = "NAN" if fp_is_nan(T, old) else old.lower().rjust(FP[T][4], "0")
        a, acc = oracle_conv(S, T, v)
        return apply_policy(a, old, t[5], t[6]), {apply_policy(x, old, t[5], t[6]) for x in acc}
    if op == "policyx" and not is_int_case(t):
        T = t[1]
        old = "NAN" if fp_is_nan(T, t[2]) else t[2].lower().rjust(FP[T][4], "0")
        good = ("EXC MismatchedTypes " + old) if t[4] == "T" else ("NOTLOADED " + old)
        return good, {good}
    return None, None


def load_corpus(prop):
    import vlib
    p = os.path.join(vlib.VERIF, "corpus", prop + ".cases")
    if not os.path.exists(p):
        return []
    return [l.rstrip("\n") for l in open(p) if l.strip() and not l.startswith("#")]


# ------------------------------------------------------------------ sweeps (hashed, bisected on mismatch)

def sweep_line(tokens, lo, hi):
    return " ".join(tokens) + " %x %x" % (lo, hi)


def run_sweeps(vlib, impl, model, sweeps, expand, max_explicit=12):
    """sweeps: list of (tokens, lo, hi, per_item_evaluations).  expand(tokens, i) -> explicit case lines of item i.
    returns ((evaluations, nontrivial), explicit_cases)"""
    pending = []
    for tokens, lo, hi, per in sweeps:
        step = max(1, (hi - lo + 15) // 16) if hi - lo > 512 else hi - lo
        a = lo
        while a < hi:
            b = min(hi, a + step)
            pending.append((tokens, a, b, per))
            a = b
    evals = nontriv = 0
    explicit = []
    first = True
    while pending:
        lines = [sweep_line(t, a, b) for t, a, b, _ in pending]
        oi = run_impl(vlib, impl, lines, chunk=1 if len(lines) <= 256 else None)
        om = vlib.run_driver(model, lines, chunk=1 if len(lines) <= 256 else None)
        if first:
            for (t, a, b, per), y in zip(pending, om):
                f = y.split(" ")
                if len(f) == 4 and f[0] == "H":
                    evals += int(f[2]); nontriv += int(f[3])
                else:
                    evals += (b - a) * per
            first = False
        nxt = []
        for (t, a, b, per), x, y in zip(pending, oi, om):
            if x == y and x.startswith("H "):
                continue
            if b - a <= 1:
                explicit += expand(t, a)
            elif len(explicit) + len(nxt) < max_explicit * 4:
                step = max(1, (b - a + 7) // 8)
                c = a
                while c < b:
                    nxt.append((t, c, min(b, c + step), per))
                    c += step
        pending = nxt[:max_explicit * 4]
        if len(explicit) >= max_explicit * 12:
            break
    return (evals, nontriv), explicit[:max_explicit * 12]


def nth_value(T, i):
    return RANGE[T][0] + i


def count_values(T):
    return RANGE[T][1] - RANGE[T][0] + 1


# ------------------------------------------------------------------ assessment

def spec_answers(vlib, model, lines):
    return vlib.run_driver(model, ["spec " + l for l in lines], jobs=1) if lines else []


def assess(prop, vlib, impl, model, cases, oi, om, sweep_evals, sweeps, classes, rule, nontrivial_fn, extra_judge=None):
    """compare implementation vs model (integer ops) or vs the exact oracle (float ops); judge every
    disagreement against the specification"""
    failing, diffs = [], []
    seen = set()
    nt = 0
    todo = []          # (index, line, impl answer, model/oracle answer)
    for k, (line, a, b) in enumerate(zip(cases, oi, om)):
        a = norm(a)
        if b == "NOMODEL":
            exp, acc = oracle_line(line)
            if exp is None and extra_judge is not None:
                exp, acc = extra_judge(line, a)
            b = exp if exp is not None else "NOORACLE"
        if line not in seen:
            seen.add(line)
            if nontrivial_fn(line, b):
                nt += 1
        if a != b:
            todo.append((k, line, a, b))
    # judge
    int_lines = [line for (_, line, a, b) in todo if oracle_line(line)[0] is None and (extra_judge is None or extra_judge(line, a)[0] is None)]
    spec = dict(zip(int_lines, spec_answers(vlib, model, int_lines)))
    for k, line, a, b in todo:
        exp, acc = oracle_line(line)
        if exp is None and extra_judge is not None:
            exp, acc = extra_judge(line, a)
        if exp is None:
            want = spec.get(line, "?")
            verdict = "HOLD" if a == want else "FAIL"
            why = "specification (extracted) demands: %s" % want
        else:
            verdict = "HOLD" if a in acc else "FAIL"
            why = "exact oracle allows: %s" % " | ".join(sorted(acc))
        rec = dict(driver="num", case=line, implementation=a, model=b, judge=verdict, why=why)
        if verdict == "FAIL" and len(failing) < 20:
            failing.append(rec)
        elif verdict != "FAIL" and len(diffs) < 20:
            diffs.append(rec)
    # known findings: replay the witnesses
    known_lines = []
    kn = [k for k in vlib.load_known(prop) if k.get("status") == "known"]
    if kn:
        outs = run_impl(vlib, impl, [k["case"] for k in kn], jobs=1)
        for k, o in zip(kn, outs):
            if norm(o) == k["implementation"] or o == k["implementation"]:
                known_lines.append("%s: %s [case: %s -> %s]" % (k["id"], k["what"], k["case"], norm(o)))
    known_cases = set(k["case"] for k in kn)
    failing = [f for f in failing if f["case"] not in known_cases]
    for (t, lo, hi, per) in sweeps:
        key = "sweep " + " ".join(t)
        classes[key] = classes.get(key, 0) + (hi - lo) * per
    samples = [dict(case=cases[i], implementation=norm(oi[i]), model=om[i]) for i in range(0, min(len(cases), 3))]
    samples += [dict(sweep=sweep_line(t, lo, hi)) for (t, lo, hi, per) in sweeps[:2]]
    se, snt = sweep_evals
    return dict(evaluations=len(cases) + se, distinct_nontrivial=nt + snt, samples=samples, classes=classes,
                failing=failing, diffs=diffs, known_lines=known_lines, rule=rule, exhaustive=True,
                broken="correspondence num model vs convert_fundamental.h / archive_base.h (drv_num)")


def replay(rp, vlib, extra_judge=None):
    impl, model = drivers(vlib)
    line = rp["case"]
    a = norm(run_impl(vlib, impl, [line], jobs=1)[0])
    b = vlib.run_driver(model, [line], jobs=1)[0]
    exp, acc = oracle_line(line)
    if exp is None and extra_judge is not None:
        exp, acc = extra_judge(line, a)
    if exp is None:
        want = vlib.run_driver(model, ["spec " + line], jobs=1)[0]
        return dict(case=line, implementation=a, model=b, specification=want, judge="HOLD" if a == want else "FAIL")
    return dict(case=line, implementation=a, model=b if b != "NOMODEL" else exp, oracle_allows=sorted(acc),
                judge="HOLD" if a in acc else "FAIL")
