"""Shared pieces of the stream checks (C10 binary-stream-reader half, C13): drivers, case
construction, hashed truncation sweeps with bisection, and an independent executable reading of the
property predicates (used to decide whether a disagreement is a failure of the property on the
implementation or only a model/code difference)."""
import os
import re
import utf_common as U

ENC = {"utf8": (8, "le"), "utf16le": (16, "le"), "utf16be": (16, "be"), "utf32le": (32, "le"), "utf32be": (32, "be")}
BOM = {"utf8": [0xEF, 0xBB, 0xBF], "utf16le": [0xFF, 0xFE], "utf16be": [0xFE, 0xFF],
       "utf32le": [0xFF, 0xFE, 0, 0], "utf32be": [0, 0, 0xFE, 0xFF]}
KINDS = ["s", "c1", "c3", "c7", "n2"]          # stringstream, short-read seekable (1..k bytes), non-seekable
SEEKABLE_KINDS = ["s", "c1", "c3", "c7"]
ESR_K = (32, 64, 256)
DEFAULT_MARK = U.DEFAULT_MARK


def hx(b):
    return bytes(b).hex() if b else "-"


def unhx(s):
    return [] if s == "-" else list(bytes.fromhex(s))


def text_bytes(e, text):
    w, order = ENC[e]
    out = []
    for u in U.encs(w, text):
        bs = [(u >> (8 * i)) & 0xFF for i in range(w // 8)]
        out += bs if order == "le" else bs[::-1]
    return out


def with_bom(b, e, text):
    return (BOM[e] if b else []) + text_bytes(e, text)


def hook_present(vlib):
    p = os.path.join(vlib.REPO, "src", "common", "binary_stream_reader.h")
    try:
        return "BITSERIALIZER_VERIF_CHUNK_SIZE" in open(p).read()
    except OSError:
        return False


def bsr_ks(vlib):
    return [256] + ([8, 16, 32, 64] if hook_present(vlib) else [])


def impl_driver(vlib, k=None):
    """the C++ driver; k = chunk size of CBinaryStreamReader through the verification hook (None = the library's own 256)"""
    extra = list(vlib.repo_sources("src/common/*.cpp"))
    if k is not None and k != 256:
        return vlib.build_cpp("drv_stream_k%d" % k, ["drv_stream.cpp"], extra=["-DBITSERIALIZER_VERIF_CHUNK_SIZE=%d" % k] + extra)
    return vlib.build_cpp("drv_stream", ["drv_stream.cpp"], extra=extra)


def model_driver(vlib):
    return vlib.build_model("stream")


def load_corpus(prop):
    return U.load_corpus(prop)


# ---------------------------------------------------------------- hashed truncation sweeps

def run_cut_sweeps(vlib, impl, model, sweeps, max_explicit=12):
    """sweeps: list of (K, tgt, pol, kind, hexdata, lo, hi): ReadChunk loop on every prefix of length lo..hi-1.
    Both drivers fold every answer into the shared hash; mismatching ranges are bisected to single cuts.
    returns (evaluations, nontrivial, explicit_mismatch_case_lines)"""
    def line(sw, lo, hi):
        return "esrcuts %d %d %s %s %s %d %d" % (sw[0], sw[1], sw[2], sw[3], sw[4], lo, hi)
    pending = [(sw, sw[5], sw[6]) for sw in sweeps]
    evals = nontriv = 0
    explicit = []
    first = True
    while pending:
        lines = [line(sw, lo, hi) for sw, lo, hi in pending]
        oi = vlib.run_driver(impl, lines)
        om = vlib.run_driver(model, lines)
        if first:
            for y in om:
                f = y.split(" ")
                if len(f) == 4 and f[0] == "H":
                    evals += int(f[2]); nontriv += int(f[3])
            first = False
        nxt = []
        for (sw, lo, hi), x, y in zip(pending, oi, om):
            if x == y and x.startswith("H "):
                continue
            if hi - lo <= 1:
                data = sw[4]
                cut = "-" if lo == 0 or data == "-" else data[:2 * lo]
                explicit.append("esr %d %d %s %s %s" % (sw[0], sw[1], sw[2], sw[3], cut))
            else:
                mid = (lo + hi) // 2
                nxt.append((sw, lo, mid)); nxt.append((sw, mid, hi))
        pending = nxt[:max_explicit * 4]
        if len(explicit) >= max_explicit:
            break
    return evals, nontriv, explicit[:max_explicit]


# ---------------------------------------------------------------- independent reading of C13

def strict_decode_all(w, units):
    """(cps, consumed_units) of the longest well-formed prefix"""
    cps, i = [], 0
    while i < len(units):
        d = U.strict_decode_at(w, units, i)
        if d is None:
            break
        cps.append(d[0]); i += d[1]
    return cps, i


def units_of_bytes(e, data):
    w, order = ENC[e]
    n = w // 8
    us = []
    for i in range(0, len(data) - len(data) % n, n):
        bs = data[i:i + n]
        if order == "be":
            bs = bs[::-1]
        us.append(sum(b << (8 * j) for j, b in enumerate(bs)))
    return us, len(data) % n


def classify_stream(data):
    """(encoding, has_bom, payload) when the byte string is BOM + anything; else (None, False, data)"""
    for e in ("utf8", "utf32le", "utf32be", "utf16le", "utf16be"):
        b = BOM[e]
        if data[:len(b)] == b:
            return e, True, data[len(b):]
    return None, False, data


def is_char_prefix(e, rb):
    """is the byte string rb a proper, non-empty prefix of the encoding of one scalar value in scheme e?"""
    w, order = ENC[e]
    n = len(rb)
    if n == 0:
        return False
    if w == 8:
        if n > 3:
            return False
        import itertools
        for k in (1, 2, 3):
            for tail in itertools.product((0x80, 0x90, 0xA0, 0xBF), repeat=k):
                seq = list(rb) + list(tail)
                d = U.strict_decode_at(8, seq, 0)
                if d is not None and d[1] == len(seq):
                    return True
        return False
    if w == 16:
        def unit(b0, b1):
            return b0 | (b1 << 8) if order == "le" else (b0 << 8) | b1
        if n == 1:
            return True if order == "le" else not (0xDC <= rb[0] <= 0xDF)
        if n == 2:
            return 0xD800 <= unit(rb[0], rb[1]) <= 0xDBFF
        if n == 3:
            if not (0xD800 <= unit(rb[0], rb[1]) <= 0xDBFF):
                return False
            return True if order == "le" else 0xDC <= rb[2] <= 0xDF
        return False
    # 32 bit
    if n > 3:
        return False
    bs = list(rb) + [None] * (4 - n)
    if order == "be":
        bs = bs[::-1]                   # now little-endian order: bs[3] most significant
    if bs[3] not in (None, 0):
        return False
    if bs[2] is not None and bs[2] > 0x10:
        return False
    hi_known = bs[2] is not None and bs[1] is not None
    if hi_known and bs[2] == 0 and 0xD8 <= bs[1] <= 0xDF:
        return False
    return True


def expected_for(e, payload, tgt, pol):
    """what C13 demands of a stream whose scheme is known to be e and whose text is well-formed, possibly cut inside
    its last character (T_C13_stream_lossless_outside, T_C13_truncated_outside: every width pair except UTF-8 into
    char): (results regex, output units); None otherwise (ill-formed text: judge_illformed)"""
    w = ENC[e][0]
    units, stray = units_of_bytes(e, payload)
    cps, used = strict_decode_all(w, units)
    complete = used == len(units) and stray == 0
    if complete:
        if w == tgt:
            return ("S*E", units)
        return ("S*E", U.encs(tgt, cps))
    if w == tgt == 8:
        return None                     # UTF-8 into char: raw append, the cut character passes through (F39, by design)
    n = w // 8
    rest_bytes = payload[used * n:]
    if not is_char_prefix(e, rest_bytes):
        return None
    if pol == "S":
        return ("S*E", U.encs(tgt, cps) + DEFAULT_MARK[tgt])
    return ("S*D", U.encs(tgt, cps))


def skip_relation_holds(w, tgt, mark, units, out):
    """skip_spec (coq/UtfSpec.v) for some number of replacements: is there a segmentation of units into well-formed
    sequences and ill-formed chunks (1..maxlen units, standing where no well-formed sequence starts) such that out
    is the target encodings of the former and one mark for each of the latter?"""
    n, m = len(units), len(out)
    units, out, mark = list(units), list(out), list(mark)
    front = {(0, 0)}
    seen = set(front)
    while front:
        nxt = set()
        for i, j in front:
            if i == n:
                if j == m:
                    return True
                continue
            d = U.strict_decode_at(w, units, i)
            if d is not None:
                en = U.enc(tgt, d[0])
                if out[j:j + len(en)] == en:
                    nxt.add((i + d[1], j + len(en)))
            elif out[j:j + len(mark)] == mark:
                for L in range(1, U.MAXLEN[w] + 1):
                    if i + L <= n:
                        nxt.add((i + L, j + len(mark)))
        front = nxt - seen
        seen |= front
    return False


def judge_illformed(e, payload, tgt, pol, results, out):
    """ill-formed text, source width <> target width (T_C13_illformed_skip / T_C13_illformed_throw)"""
    w = ENC[e][0]
    units, stray = units_of_bytes(e, payload)
    mark = DEFAULT_MARK[tgt]
    if pol == "S":
        if not re.fullmatch(r"S*E", results):
            return "FAIL", "skip policy: expected results S*E, got %s" % results
        cands = [out]
        if stray and len(out) >= len(mark) and out[len(out) - len(mark):] == mark:
            cands.append(out[:len(out) - len(mark)])        # one more mark for the trailing part of a code unit
        for o in cands:
            if skip_relation_holds(w, tgt, mark, units, o):
                return "HOLD", "replacement per skip_spec"
        return "FAIL", "output is not the text with each ill-formed sequence replaced by the mark"
    cps, used = strict_decode_all(w, units)
    if not re.fullmatch(r"S*D", results):
        return "FAIL", "fail policy: expected results S*D, got %s" % results
    if out != U.encs(tgt, cps):
        return "FAIL", "expected the well-formed prefix %s" % U.fl(U.encs(tgt, cps))
    return "HOLD", "DecodeError after exactly the well-formed prefix"


def judge_samewidth(e, payload, tgt, pol, results, out):
    """UTF-16 into char16_t, UTF-32 into char32_t, any units (T_C13_samewidth_copy): copied as they are; a first half of a
    surrogate pair at the very end (UTF-16) is held back; it and a trailing part of a code unit give the mark / DecodeError"""
    units, stray = units_of_bytes(e, payload)
    held = tgt == 16 and bool(units) and 0xD800 <= units[-1] <= 0xDBFF
    copy = units[:-1] if held else units
    short = held or stray > 0
    if pol == "S":
        want, rx = copy + (DEFAULT_MARK[tgt] if short else []), r"S*E"
    else:
        want, rx = copy, (r"S*D" if short else r"S*E")
    if not re.fullmatch(rx, results):
        return "FAIL", "same-width copy: expected results %s, got %s" % (rx, results)
    if out != want:
        return "FAIL", "same-width copy: expected output %s" % U.fl(want)
    return "HOLD", "copied as is"


def stream_defect(e, has_bom, text):
    """the detection defect classes (known findings): the theorems' stream_defect"""
    if has_bom:
        return e == "utf16le" and text[:1] == [0]
    if not text:
        return False
    rest = text[1:]
    if e == "utf8":
        return 0 in rest
    if e in ("utf16le", "utf16be"):
        return rest[:1] == [0]
    return False


def stream_defect_bytes(e, has_bom, payload):
    """the same classes on the bytes the detector actually sees (the text may be ill-formed further on)"""
    if has_bom:
        return e == "utf16le" and payload[:2] == [0, 0]
    if e == "utf8":
        return 0 in payload[1:]
    if e in ("utf16le", "utf16be"):
        return payload[2:4] == [0, 0]
    return False


def judge_esr(case, impl_out, meta=None):
    """does the implementation's answer satisfy C13 as stated?  (FAIL / HOLD / UNKNOWN, why)
    meta = (encoding, has_bom) when the generator knows how the stream was made"""
    t = case.split(" ")
    K, tgt, pol, kind, data = int(t[1]), int(t[2]), t[3], t[4], unhx(t[5])
    if impl_out == "HANG":
        return "FAIL", "ReadChunk keeps returning Success without consuming (no progress)"
    if impl_out.startswith(("CRASH", "SANITIZER", "TERMINATE", "EXC", "FAULT")):
        return "FAIL", "reader did not return: %s" % impl_out
    f = impl_out.split(" ")
    if len(f) != 3:
        return "FAIL", "malformed answer %s" % impl_out
    results, out, ty = f[0], U.pl(f[1]), f[2]
    if not re.fullmatch(r"S*[ED]", results):
        return "FAIL", "result sequence %s is not Success* then EndFile/DecodeError" % results
    if results.count("S") > len(data):
        return "FAIL", "more successful chunks than bytes in the stream"
    e, has_bom, payload = classify_stream(data)
    if meta is not None:
        e, has_bom = meta
        if has_bom and data[:len(BOM[e])] != BOM[e]:
            return "UNKNOWN", "the stream was cut inside its BOM / something was inserted before it"
        payload = data[len(BOM[e]):] if has_bom else data
    if e is None:
        return "UNKNOWN", "no BOM and the generator did not say which scheme was meant"
    w = ENC[e][0]
    units, stray = units_of_bytes(e, payload)
    cps, used = strict_decode_all(w, units)
    whole_text = used == len(units) and stray == 0
    detectable = has_bom or (cps[:1] and 0 < cps[0] < 128)
    if not detectable:
        return "UNKNOWN", "BOM-less text that does not start with an ASCII character: outside the property"
    if stream_defect_bytes(e, has_bom, payload):
        return "UNKNOWN", "inside a listed detection defect class (known finding)"
    if ty != e and (whole_text or used > 0 or has_bom):
        if not has_bom and not whole_text and used == 0:
            return "UNKNOWN", "cut inside the first character of a BOM-less stream"
        return "FAIL", "source type reported as %s, the stream is %s" % (ty, e)
    if ty != e:
        return "UNKNOWN", "BOM-less stream that does not begin with a complete character: detection is outside the property"
    exp = expected_for(e, payload, tgt, pol)
    if exp is None:
        if w == tgt == 8:
            return "UNKNOWN", "UTF-8 into char is appended raw: a cut or ill-formed text passes through by design (F39)"
        if w == tgt:
            return judge_samewidth(e, payload, tgt, pol, results, out)
        return judge_illformed(e, payload, tgt, pol, results, out)
    rx, eout = exp
    if not re.fullmatch(rx, results):
        return "FAIL", "expected results %s, got %s" % (rx, results)
    if out != eout:
        return "FAIL", "expected output %s" % U.fl(eout)
    return "HOLD", "exact"


def judge_detect(case, impl_out, meta):
    """meta = (encoding, has_bom, text)"""
    e, has_bom, text = meta
    f = impl_out.split(" ")
    if len(f) != 2:
        return "FAIL", "malformed answer %s" % impl_out
    if has_bom or (text and 0 < text[0] < 128):
        if stream_defect(e, has_bom, text):
            return "UNKNOWN", "inside a listed detection defect class (known finding)"
        want = "%s %d" % (e, len(BOM[e]) if has_bom else 0)
        if impl_out != want:
            return "FAIL", "expected %s" % want
        return "HOLD", "exact"
    return "UNKNOWN", "BOM-less text that does not start with an ASCII character: outside the property"


def known_lines(vlib, prop, driver_for):
    """replay the known findings of this property that are written in this family's case syntax"""
    out = []
    kn = [k for k in vlib.load_known(prop) if k.get("status") == "known"]
    mine = [k for k in kn if k["case"].split(" ")[0] in ("is", "bsr", "blob", "detect", "detect.stream", "esr", "esw")]
    for k in mine:
        o = vlib.run_driver(driver_for(k["case"]), [k["case"]], jobs=1)[0]
        if o == k["implementation"]:
            out.append("%s: %s [case: %s -> %s]" % (k["id"], k["what"], k["case"][:160], o[:120]))
    return out, set(k["case"] for k in mine)


# ---------------------------------------------------------------- shrinking of failing inputs

def ddmin(items, still_fails, budget=120):
    """delta debugging on a list: smallest sub-list found (within the budget of tests) on which still_fails holds"""
    n = 2
    items = list(items)
    while len(items) >= 2 and budget > 0:
        chunk = max(1, len(items) // n)
        reduced = False
        for i in range(0, len(items), chunk):
            cand = items[:i] + items[i + chunk:]
            budget -= 1
            if cand and still_fails(cand):
                items = cand; n = max(n - 1, 2); reduced = True
                break
            if budget <= 0:
                break
        if not reduced:
            if chunk == 1:
                break
            n = min(len(items), n * 2)
    return items


def shrink_bsr(vlib, impl, model, case):
    """shorter operation list / data on which the in-memory reader still rejects the implementation's trace"""
    t = case.split(" ")
    if t[0] != "bsr" or t[4] == "-":
        return case
    k, kind = t[1], t[2]

    def fails(data, ops):
        c = "bsr %s %s %s %s" % (k, kind, hx(data), ",".join(ops))
        a = vlib.run_driver(impl, [c], jobs=1)[0]
        if a.startswith(("CRASH", "SANITIZER", "TERMINATE", "HANG")):
            return True
        if a.startswith(("EXC", "UNSUPPORTED")):
            return False
        return vlib.run_driver(model, ["bsrjudge %s %s %s %s" % (k, hx(data), ",".join(ops), a)], jobs=1)[0] != "ACCEPT"
    data, ops = unhx(t[3]), t[4].split(",")
    try:
        if not fails(data, ops):
            return case
        ops = ddmin(ops, lambda o: fails(data, o), 80)
        while len(data) > 1 and fails(data[:len(data) // 2], ops):
            data = data[:len(data) // 2]
        while len(data) > 0 and fails(data[:-1], ops) and len(data) > 0:
            data = data[:-1]
            if len(data) < 4:
                break
    except Exception:
        return case
    return "bsr %s %s %s %s" % (k, kind, hx(data), ",".join(ops))


def shrink_esr(vlib, impl, case, meta):
    """fewer code units on which the implementation's answer still fails the property"""
    t = case.split(" ")
    if t[0] != "esr" or meta is None:
        return case
    e, has_bom = meta
    data = unhx(t[5])
    bl = len(BOM[e]) if has_bom else 0
    if has_bom and data[:bl] != BOM[e]:
        return case
    n = ENC[e][0] // 8
    body = data[bl:]
    units = [body[i:i + n] for i in range(0, len(body), n)]

    def mk(us):
        return "esr %s %s %s %s %s" % (t[1], t[2], t[3], t[4], hx(data[:bl] + [b for u in us for b in u]))

    def fails(us):
        c = mk(us)
        a = vlib.run_driver(impl, [c], jobs=1, timeout=60)[0]
        return judge_esr(c, a, meta)[0] == "FAIL"
    try:
        if not fails(units):
            return case
        units = ddmin(units, fails, 100)
    except Exception:
        return case
    return mk(units)
