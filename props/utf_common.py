"""Shared pieces of the UTF checks (C11, C12): drivers, case construction, an independent executable
reading of the property predicates (used only to classify a disagreement as 'property fails on the
implementation' vs 'model and code differ but the property still holds')."""
import os

WIDTHS = (8, 16, 32)
CLASSES = ("8", "16", "16le", "16be", "32", "32le", "32be")
MAXLEN = {8: 6, 16: 2, 32: 1}
DEFAULT_MARK = {8: [0xE2, 0x98, 0x90], 16: [0x2610], 32: [0x2610]}


def drivers(vlib):
    impl = vlib.build_cpp("drv_utf", ["drv_utf.cpp"])
    model = vlib.build_model("utf")
    return impl, model


def fl(units):
    return ",".join("%x" % u for u in units) if units else "-"


def pl(s):
    return [] if s in ("-", "") else [int(x, 16) for x in s.split(",")]


def is_scalar(c):
    return 0 <= c < 0xD800 or 0xE000 <= c < 0x110000


def enc(w, c):
    if w == 32:
        return [c]
    if w == 16:
        return [c] if c < 0x10000 else [0xD800 + (c - 0x10000) // 1024, 0xDC00 + (c - 0x10000) % 1024]
    if c < 0x80:
        return [c]
    if c < 0x800:
        return [0xC0 + c // 64, 0x80 + c % 64]
    if c < 0x10000:
        return [0xE0 + c // 4096, 0x80 + (c // 64) % 64, 0x80 + c % 64]
    return [0xF0 + c // 262144, 0x80 + (c // 4096) % 64, 0x80 + (c // 64) % 64, 0x80 + c % 64]


def encs(w, cps):
    r = []
    for c in cps:
        r += enc(w, c)
    return r


def strict_decode_at(w, units, i):
    """the scalar whose well-formed encoding starts at units[i] (Unicode Table 3-7 / D91), or None"""
    n = len(units)
    if i >= n:
        return None
    u = units[i]
    if w == 32:
        return (u, 1) if is_scalar(u) else None
    if w == 16:
        if u < 0xD800 or 0xE000 <= u <= 0xFFFF:
            return (u, 1)
        if 0xD800 <= u <= 0xDBFF and i + 1 < n and 0xDC00 <= units[i + 1] <= 0xDFFF:
            return (0x10000 + (u - 0xD800) * 1024 + (units[i + 1] - 0xDC00), 2)
        return None
    if u < 0x80:
        return (u, 1)
    for c_len in (2, 3, 4):
        if i + c_len <= n:
            # try: decode and re-encode must reproduce (rejects overlong, surrogates, > 10FFFF)
            seq = units[i:i + c_len]
            lead = seq[0]
            if c_len == 2 and 0xC0 <= lead < 0xE0:
                v = lead & 0x1F
            elif c_len == 3 and 0xE0 <= lead < 0xF0:
                v = lead & 0x0F
            elif c_len == 4 and 0xF0 <= lead < 0xF8:
                v = lead & 0x07
            else:
                continue
            ok = True
            for t in seq[1:]:
                if not (0x80 <= t < 0xC0):
                    ok = False
                    break
                v = v * 64 + (t & 0x3F)
            if ok and is_scalar(v) and enc(8, v) == seq:
                return (v, c_len)
    return None


def is_wf(w, units):
    i = 0
    while i < len(units):
        d = strict_decode_at(w, units, i)
        if d is None:
            return False
        i += d[1]
    return True


def skip_spec_holds(sw, dw, mark, inp, out, cnt):
    """exists a segmentation of inp into well-formed sequences and ill-formed chunks (1..maxlen units,
    standing where no well-formed sequence starts) such that out = encodings / marks and cnt = #chunks"""
    from functools import lru_cache
    import sys
    sys.setrecursionlimit(100000)
    n, m = len(inp), len(out)
    inp_t, out_t, mark_t = tuple(inp), tuple(out), tuple(mark)

    seen = {}

    def go(i, j, k):
        key = (i, j, k)
        if key in seen:
            return seen[key]
        if i == n:
            r = (j == m and k == cnt)
        else:
            r = False
            d = strict_decode_at(sw, inp_t, i)
            if d is not None:
                e = tuple(enc(dw, d[0]))
                if out_t[j:j + len(e)] == e:
                    r = go(i + d[1], j + len(e), k)
            else:
                if out_t[j:j + len(mark_t)] == mark_t and k < cnt:
                    for L in range(1, MAXLEN[sw] + 1):
                        if i + L <= n and go(i + L, j + len(mark_t), k + 1):
                            r = True
                            break
        seen[key] = r
        return r

    return go(0, 0, 0)


def parse_case(line):
    t = line.split(" ")
    op, x, y, pol, mk, out0, inp = t[:7]
    if op == "tr":
        sw, dw = int(x), int(y)
        swapped_in = swapped_out = False
    elif op == "dec":
        sw = int(x.rstrip("leb")); dw = int(y)
        swapped_in = x.endswith("be"); swapped_out = False
    else:
        dw = int(x.rstrip("leb")); sw = int(y)
        swapped_in = False; swapped_out = x.endswith("be")
    mark = DEFAULT_MARK[dw] if mk == "d" else [] if mk == "n" else pl(mk)
    return dict(op=op, sw=sw, dw=dw, pol=pol, mark=mark, out0=pl(out0), inp=pl(inp),
                swapped_in=swapped_in, swapped_out=swapped_out)


def swap(w, u):
    if w == 16:
        return ((u & 0xFF) << 8) | (u >> 8)
    if w == 32:
        return ((u & 0xFF) << 24) | ((u & 0xFF00) << 8) | ((u >> 8) & 0xFF00) | (u >> 24)
    return u


def parse_out(s):
    t = s.split(" ")
    if len(t) != 4 or t[0] not in "SIU":
        return None
    return dict(code=t[0], pos=int(t[1]), cnt=int(t[2]), out=pl(t[3]))


def judge(line, impl_out):
    """does the implementation's observed behaviour on this case satisfy C11/C12 as stated?
    returns (verdict, why): verdict in FAIL / HOLD / UNKNOWN"""
    c = parse_case(line)
    o = parse_out(impl_out)
    if o is None:
        return "FAIL", "implementation did not return a result: %s" % impl_out
    sw, dw = c["sw"], c["dw"]
    inp = [swap(sw, u) for u in c["inp"]] if c["swapped_in"] else list(c["inp"])
    out = o["out"]
    if o["pos"] > len(inp):
        return "FAIL", "reported position %d is outside the input of %d units" % (o["pos"], len(inp))
    if out[:len(c["out0"])] != c["out0"]:
        return "FAIL", "prior output was modified"
    appended = out[len(c["out0"]):]
    if c["swapped_out"]:
        appended = [swap(dw, u) for u in appended]
    if is_wf(sw, inp):
        cps = []
        i = 0
        while i < len(inp):
            d = strict_decode_at(sw, inp, i); cps.append(d[0]); i += d[1]
        if o["code"] == "S" and o["pos"] == len(inp) and o["cnt"] == 0 and appended == encs(dw, cps):
            return "HOLD", "valid text transcoded exactly"
        return "FAIL", "valid text: expected S %d 0 %s" % (len(inp), fl(encs(dw, cps)))
    # ill-formed input
    if sw == dw:
        return "UNKNOWN", "same-width copy of ill-formed text (passed through unvalidated by design; outside C12)"
    if c["pol"] == "T":
        if o["code"] == "S":
            return "FAIL", "ill-formed input accepted under the fail policy"
        # position must be a synchronisation point after a well-formed prefix, output = that prefix
        pre = inp[:o["pos"]]
        if not is_wf(sw, pre):
            return "FAIL", "reported position does not follow a well-formed prefix"
        cps = []
        i = 0
        while i < len(pre):
            d = strict_decode_at(sw, pre, i); cps.append(d[0]); i += d[1]
        if appended != encs(dw, cps):
            return "FAIL", "output is not the transcoded well-formed prefix"
        if strict_decode_at(sw, inp, o["pos"]) is not None:
            return "FAIL", "reported position is the start of a well-formed sequence"
        return "HOLD", "failure reported at the start of the ill-formed sequence"
    # Skip
    if not is_wf(dw, c["mark"]) and c["mark"]:
        return "UNKNOWN", "custom mark is itself ill-formed"
    if o["code"] == "S":
        if not is_wf(dw, appended):
            return "FAIL", "output is not well-formed in the target encoding"
        if skip_spec_holds(sw, dw, c["mark"], inp, appended, o["cnt"]):
            return "HOLD", "replacement per skip_spec"
        return "FAIL", "output/count is not a replacement of the ill-formed sequences by the mark with the well-formed text preserved"
    if o["code"] == "U":
        pre = inp[:o["pos"]]
        rest = inp[o["pos"]:]
        if not rest or len(rest) >= MAXLEN[sw] or strict_decode_at(sw, inp, o["pos"]) is not None:
            return "FAIL", "UnexpectedEnd reported but the tail is not an incomplete sequence"
        if not is_wf(dw, appended):
            return "FAIL", "output is not well-formed in the target encoding"
        # count is reported as 0 by Utf16->32 (trunc_cnt); accept any n
        for n in range(0, len(pre) + 1):
            if skip_spec_holds(sw, dw, c["mark"], pre, appended, n):
                return "HOLD", "incomplete tail reported, prefix handled per skip_spec"
        return "FAIL", "prefix before the incomplete tail not handled per skip_spec"
    return "FAIL", "InvalidSequence returned under the skip policy"


A16 = [0x0, 0x41, 0x7F, 0x80, 0x7FF, 0x800, 0xD7FF, 0xD800, 0xD801, 0xDBFE, 0xDBFF, 0xDC00, 0xDC01, 0xDFFE, 0xDFFF, 0xE000, 0xFFFD, 0xFFFE, 0xFFFF]
A32 = [0x0, 0x41, 0x7F, 0x80, 0x7FF, 0x800, 0xD7FF, 0xD800, 0xDBFF, 0xDC00, 0xDFFF, 0xE000, 0xFFFF, 0x10000, 0x10FFFF, 0x110000, 0x1FFFFF, 0x200000, 0x7FFFFFFF, 0x80000000, 0xFFFFFFFF]


def op_src_width(op, x, y):
    if op == "tr":
        return int(x)
    if op == "dec":
        return int(x.rstrip("leb"))
    return int(y)


def sweep_case(tokens, i):
    """the explicit case line for element i of a sweep line"""
    kind, op, x, y, pol = tokens[:5]
    sw = op_src_width(op, x, y)
    if kind == "sweepcp":
        units = enc(sw, i)
    else:
        ln = int(tokens[5])
        units = [0] * ln
        v = i
        for k in range(ln - 1, -1, -1):
            if sw == 8:
                units[k] = v % 256; v //= 256
            elif sw == 16:
                units[k] = A16[v % len(A16)]; v //= len(A16)
            else:
                units[k] = A32[v % len(A32)]; v //= len(A32)
    if op == "dec" and x.endswith("be"):
        units = [swap(sw, u) for u in units]
    return "%s %s %s %s d - %s" % (op, x, y, pol, fl(units))


def sweep_line(tokens, lo, hi):
    kind = tokens[0]
    if kind == "sweepcp":
        return " ".join(tokens[:5]) + " %x %x" % (lo, hi)
    return " ".join(tokens[:6]) + " %x %x" % (lo, hi)


def sweep_count(tokens, lo, hi):
    if tokens[0] == "sweepcp":
        return sum(1 for _ in range(0)) + (hi - lo) - max(0, min(hi, 0xE000) - max(lo, 0xD800))
    return hi - lo


def run_sweeps(vlib, impl, model, sweeps, max_explicit=12):
    """sweeps: list of (tokens, lo, hi).  Both sides hash every answer over [lo,hi); on a hash
    mismatch the range is bisected down to explicit single cases.
    returns (evaluations, explicit_mismatch_cases)"""
    evals = 0
    nontriv = 0
    pending = []
    for tokens, lo, hi in sweeps:
        # split for parallelism
        step = max(1, (hi - lo + 15) // 16) if hi - lo > 4096 else hi - lo
        a = lo
        while a < hi:
            b = min(hi, a + step)
            pending.append((tokens, a, b))
            a = b
    explicit = []
    first = True
    while pending:
        lines = [sweep_line(t, a, b) for t, a, b in pending]
        oi = vlib.run_driver(impl, lines, chunk=1 if len(lines) <= 64 else None)
        om = vlib.run_driver(model, lines, chunk=1 if len(lines) <= 64 else None)
        if first:
            evals = sum(sweep_count(t, a, b) for t, a, b in pending)
            for y in om:
                f = y.split(" ")
                if len(f) == 4 and f[0] == "H":
                    nontriv += int(f[3])
            first = False
        nxt = []
        for (t, a, b), x, y in zip(pending, oi, om):
            if x == y and x.startswith("H "):
                continue
            if b - a <= 1:
                explicit.append(sweep_case(t, a))
            elif len(explicit) + len(nxt) < max_explicit * 4:
                step = max(1, (b - a + 7) // 8)
                c = a
                while c < b:
                    nxt.append((t, c, min(b, c + step)))
                    c += step
        # keep the work bounded: follow only the first few mismatching sub-ranges
        pending = nxt[:max_explicit * 4]
        if len(explicit) >= max_explicit:
            break
    return (evals, nontriv), explicit[:max_explicit]


def load_corpus(prop):
    import vlib
    p = os.path.join(vlib.VERIF, "corpus", prop + ".cases")
    if not os.path.exists(p):
        return []
    return [l.rstrip("\n") for l in open(p) if l.strip() and not l.startswith("#")]


def nontrivial(prop, line):
    c = parse_case(line)
    inp = [swap(c["sw"], u) for u in c["inp"]] if c["swapped_in"] else c["inp"]
    if prop == "C11":
        return any(u >= 0x80 for u in inp)
    return not is_wf(c["sw"], inp)


def assess(prop, vlib, cases, oi, om, sweep_evals, sws, valid_only, rule, exhaustive):
    failing, diffs = [], []
    seen = set()
    nt = 0
    classes = {}
    for line, a, b in zip(cases, oi, om):
        c = line.split(" ")
        key = "%s %s->%s %s" % (c[0], c[1], c[2], c[3])
        classes[key] = classes.get(key, 0) + 1
        if line not in seen:
            seen.add(line)
            if nontrivial(prop, line):
                nt += 1
        if a != b:
            verdict, why = judge(line, a)
            rec = dict(driver="utf", case=line, implementation=a, model=b, judge=verdict, why=why)
            if verdict == "FAIL" and len(failing) < 20:
                failing.append(rec)
            elif len(diffs) < 20:
                diffs.append(rec)
    # known findings for this property: replay the witnesses
    known_lines = []
    kn = [k for k in vlib.load_known(prop) if k.get("status") == "known"]
    if kn:
        impl, model = drivers(vlib)
        outs = vlib.run_driver(impl, [k["case"] for k in kn], jobs=1)
        for k, o in zip(kn, outs):
            if o == k["implementation"]:
                known_lines.append("%s: %s [case: %s -> %s]" % (k["id"], k["what"], k["case"], o))
    # failing inputs that are exactly a listed known finding are not new violations
    known_cases = set(k["case"] for k in kn)
    failing = [f for f in failing if f["case"] not in known_cases]
    for (t, lo, hi) in sws:
        key = "sweep " + " ".join(t[1:5])
        classes[key] = classes.get(key, 0) + sweep_count(t, lo, hi)
    samples = [dict(case=cases[i], implementation=oi[i], model=om[i]) for i in range(0, min(len(cases), 3))]
    samples += [dict(sweep=sweep_line(t, lo, hi)) for (t, lo, hi) in sws[:2]]
    sweep_evals, sweep_nt = sweep_evals
    return dict(evaluations=len(cases) + sweep_evals, distinct_nontrivial=nt + sweep_nt,
                samples=samples, classes=classes, failing=failing, diffs=diffs, known_lines=known_lines, rule=rule,
                exhaustive=exhaustive, broken="correspondence utf model vs convert_utf.h (drv_utf)")


def replay(rp, vlib):
    impl, model = drivers(vlib)
    line = rp["case"]
    a = vlib.run_driver(impl, [line], jobs=1)[0]
    b = vlib.run_driver(model, [line], jobs=1)[0]
    v, why = judge(line, a)
    return dict(case=line, implementation=a, model=b, judge=v, why=why)
