#!/bin/sh
# setup_cmd: build the Coq development (full .vo), extract the models, build the OCaml model drivers.
# Offline; nothing is fetched.  Implementation drivers are built by the checks from /repo's working tree.
set -e
cd "$(dirname "$0")"
mkdir -p ml/gen build/ml evidence replays
cd coq
coq_makefile -f _CoqProject -o Makefile > /dev/null
timeout 5400 make -j16 2>&1 | tail -5
cd ..
python3 - <<'PY'
import sys, os
sys.path.insert(0, "tools")
import vlib
for f in sorted(os.listdir("ml")):
    if f.endswith("_driver.ml"):
        print("model driver:", vlib.build_model(f[:-len("_driver.ml")]))
PY
