#!/bin/sh
# setup_cmd: build the Coq development (full .vo), extract the models, build the OCaml model drivers.
# Offline; nothing is fetched.  Implementation drivers are built by the checks from /repo's working tree.
# A family that does not build does not stop the others (each check re-makes exactly what it needs and
# reports a broken proof obligation itself).
cd "$(dirname "$0")"
mkdir -p ml/gen build/ml evidence replays
cd coq
# start from clean build metadata: a dependency file or a compiled file left half-written by an interrupted build
# (e.g. a snapshot of the directory taken while `make` was running) would otherwise be taken for up to date
rm -f .Makefile.d .Makefile.d.tmp Makefile Makefile.conf .lia.cache .nia.cache
find . -maxdepth 1 \( -name '*.vo' -o -name '*.vos' -o -name '*.vok' -o -name '*.glob' \) -size 0 -delete
coq_makefile -f _CoqProject -o Makefile > /dev/null
( ulimit -v 14000000; timeout 5400 make -k -j16 ) 2>&1 | grep -v "^Closed under\|^COQC\|^COQDEP" | tail -15
cd ..
python3 - <<'PY'
import sys, os
sys.path.insert(0, "tools")
import vlib
for f in sorted(os.listdir("ml")):
    if f.endswith("_driver.ml"):
        try:
            print("model driver:", vlib.build_model(f[:-len("_driver.ml")]))
        except Exception as e:
            print("model driver %s NOT built: %s" % (f, str(e)[:300]))
PY
exit 0
