#!/usr/bin/env python3
"""inventory.py — the clang-AST translator of the `inv` family (C19 / C20).

Runs `clang++ -std=c++17 -fsyntax-only -Xclang -ast-dump=json` on
  (1) a translation unit that includes every public header under <repo>/include/bitserializer
      (recursively; rapidyaml_archive.h is left out, its third-party library is not installed) followed by a
      small fixed "use" section (one REGISTER_ENUM, pair/map round trips through the four archives) so that the
      templates that own statics / destructors are also seen instantiated, and
  (2) every <repo>/src/**/*.cpp,
stream-parses the output (the JSON of one TU is 0.4-0.9 GB: top-level declarations that are not located in a
<repo> file are skipped without being parsed), and extracts

  statics : every variable with static storage duration declared in a <repo> file (namespace scope, static data
            members incl. `static inline`, function-local `static`), with constness, kind of initialisation and
            every write site (assignment, compound assignment, ++/--, non-const member / operator call on it,
            address or non-const reference taken, array decayed into a non-const pointer, passed to a call in a
            dependent context, const_cast) together with the enclosing function;
  dtors   : every destructor with a body defined in a <repo> file (and every destructor declared
            noexcept(false)), with the callees of its body that are not noexcept.

and writes coq/InvGenerated.v (two Gallina lists of records with string fields; deterministic order; paths are
<repo>-relative) plus a JSON side-car with line numbers for the reports.

Honours VERIF_REPO (default /repo).  Python stdlib only.  Trusted (it is the tie for C19/C20): kept syntactic."""
import hashlib, json, os, re, subprocess, sys, tempfile, time
from concurrent.futures import ProcessPoolExecutor

VERIF = os.path.dirname(os.path.dirname(os.path.abspath(__file__)))
REPO = os.path.realpath(os.environ.get("VERIF_REPO", "/repo"))
CLANG = os.environ.get("VERIF_CLANG", "clang++")
OUT_V = os.path.join(VERIF, "coq", "InvGenerated.v")
CACHE_DIR = os.path.join(VERIF, "build", "inv")
EXCLUDED_HEADERS = ("rapidyaml_archive.h",)

USE_SECTION = r'''
// ---- fixed "use" section (part of the translator, not of the library): makes the templates that own statics
// ---- and destructors visible as instantiations as well as patterns.
#include <map>
#include <vector>
#include <sstream>
enum class InvUseColor { Red, Green };
namespace inv_use {
using Color = ::InvUseColor;
struct Rec {
	int a = 0; std::string s; Color c = Color::Red; std::pair<std::string, int> p; std::map<std::string, int> m;
	template <class TArchive> void Serialize(TArchive& archive) {
		archive << BitSerializer::KeyValue("a", a) << BitSerializer::KeyValue("s", s) << BitSerializer::KeyValue("c", c)
			<< BitSerializer::KeyValue("p", p) << BitSerializer::KeyValue("m", m);
	}
};
struct Row { int x = 0; std::string y;
	template <class TArchive> void Serialize(TArchive& archive) { archive << BitSerializer::KeyValue("x", x) << BitSerializer::KeyValue("y", y); } };
}
REGISTER_ENUM(InvUseColor, { { InvUseColor::Red, "Red" }, { InvUseColor::Green, "Green" } })
namespace inv_use {
inline void use() {
	using namespace BitSerializer;
	Rec r; std::vector<Row> rows(2);
	std::string out; std::stringstream ss;
	SaveObject<MsgPack::MsgPackArchive>(r, out); LoadObject<MsgPack::MsgPackArchive>(r, out);
	SaveObject<MsgPack::MsgPackArchive>(r, ss);  LoadObject<MsgPack::MsgPackArchive>(r, ss);
	SaveObject<Csv::CsvArchive>(rows, out);      LoadObject<Csv::CsvArchive>(rows, out);
	SaveObject<Csv::CsvArchive>(rows, ss);       LoadObject<Csv::CsvArchive>(rows, ss);
	SaveObject<Json::RapidJson::JsonArchive>(r, out); LoadObject<Json::RapidJson::JsonArchive>(r, out);
	SaveObject<Xml::PugiXml::XmlArchive>(r, out);     LoadObject<Xml::PugiXml::XmlArchive>(r, out);
	auto s = Convert::ToString(Color::Green); (void)Convert::To<Color>(s);
}
}
'''


# ------------------------------------------------------------------------------------------------ sources

def repo_rel(p):
    if p is None:
        return None
    p = os.path.realpath(p) if os.path.isabs(p) else p
    if p.startswith(REPO + os.sep):
        return p[len(REPO) + 1:]
    return None


def public_headers():
    root = os.path.join(REPO, "include")
    r = []
    for d, dirs, files in os.walk(os.path.join(root, "bitserializer")):
        dirs.sort()
        for f in sorted(files):
            if f.endswith(".h") and f not in EXCLUDED_HEADERS:
                r.append(os.path.relpath(os.path.join(d, f), root))
    return sorted(r)


def src_cpps():
    r = []
    for d, dirs, files in os.walk(os.path.join(REPO, "src")):
        dirs.sort()
        if "testing_tools" in d.split(os.sep):
            continue
        for f in sorted(files):
            if f.endswith(".cpp"):
                r.append(os.path.join(d, f))
    return sorted(r)


def inputs_hash():
    h = hashlib.sha256()
    h.update(open(os.path.abspath(__file__), "rb").read())
    for top in ("include", "src"):
        for root, dirs, files in os.walk(os.path.join(REPO, top)):
            dirs.sort()
            for f in sorted(files):
                p = os.path.join(root, f)
                h.update(os.path.relpath(p, REPO).encode())
                with open(p, "rb") as fh:
                    h.update(fh.read())
    return h.hexdigest()[:16]


# ------------------------------------------------------------------------------------------------ streaming

RE_INCLUDED = re.compile(rb'"includedFrom": \{\s*$')


def _last_file(b):
    """last differential "file" attribute in a skipped span (ignoring includedFrom.file)"""
    end = len(b)
    while True:
        i = b.rfind(b'"file": "', 0, end)
        if i < 0:
            return None
        if RE_INCLUDED.search(b, max(0, i - 48), i):
            end = i
            continue
        j = b.find(b'"', i + 9)
        return json.loads(b[i + 8:j + 1].decode())


def _last_line(b):
    i = b.rfind(b'"line": ')
    if i < 0:
        return None
    j = i + 8
    k = j
    while k < len(b) and 48 <= b[k] <= 57:
        k += 1
    return int(b[j:k])


def _own_loc_mentions(b):
    """the "loc" object of the top-level declaration itself (text between '"loc": {' and its closing brace)"""
    i = b.find(b'"loc": {')
    if i < 0:
        return b""
    if b[i + 8:i + 9] == b"}":
        return b""
    j = b.find(b"\n      }", i)
    return b[i:j if j > 0 else len(b)]


def toplevel_chunks(stream):
    """yield (file_before, line_before, chunk_bytes_or_None) for every top-level declaration of the TU; the chunk
    text is only returned (for parsing) when the declaration itself is located in a REPO file."""
    buf = bytearray()
    cur_file, cur_line = None, None
    # header: everything up to the first '"inner": [' (the TranslationUnitDecl's children)
    while True:
        k = buf.find(b'"inner": [\n')
        if k >= 0:
            del buf[:k + 11]
            break
        more = stream.read(1 << 20)
        if not more:
            return
        buf += more
    start = 0       # start of the current top-level declaration in buf
    pos = 0         # scan position
    eof = False
    while True:
        i = buf.find(b"\n    }", pos)
        if i >= 0 and i + 6 >= len(buf) and not eof:
            i = -1      # need one more byte to see what follows the brace
        if i < 0:
            if eof:
                return
            keep_from = max(pos, len(buf) - 8) if pos > start else max(start, len(buf) - 8)
            more = stream.read(1 << 24)
            if not more:
                eof = True
                continue
            if start > 0:
                del buf[:start]
                keep_from -= start
                start = 0
            pos = max(0, keep_from)
            buf += more
            continue
        end = i + 6
        nxt = buf[end:end + 1]
        if nxt not in (b",", b"\n", b""):
            pos = end
            continue
        chunk = bytes(buf[start:end])
        start = end + (2 if nxt == b"," else 1)
        pos = start
        for item in _emit(chunk, cur_file, cur_line):
            yield item
        f = _last_file(chunk)
        if f is not None:
            cur_file = f
        ln = _last_line(chunk)
        if ln is not None:
            cur_line = ln


def _emit(chunk, cur_file, cur_line):
    own = _own_loc_mentions(chunk)
    own = re.sub(rb'"includedFrom": \{[^{}]*\}', b"", own)
    files = re.findall(rb'"file": "((?:[^"\\]|\\.)*)"', own)
    if files:
        mine = any(repo_rel(json.loads(b'"' + f + b'"')) for f in files)
    elif own:
        mine = repo_rel(cur_file) is not None
    else:
        mine = False      # implicit declaration without location
    yield (cur_file, cur_line, chunk if mine else None)


# ------------------------------------------------------------------------------------------------ AST walk

VAR_KINDS = ("VarDecl", "VarTemplateSpecializationDecl", "VarTemplatePartialSpecializationDecl", "DecompositionDecl")
FUNC_KINDS = ("FunctionDecl", "CXXMethodDecl", "CXXConstructorDecl", "CXXDestructorDecl", "CXXConversionDecl",
              "CXXDeductionGuideDecl")
RECORD_KINDS = ("CXXRecordDecl", "ClassTemplateSpecializationDecl", "ClassTemplatePartialSpecializationDecl")
TRANSPARENT = ("ParenExpr", "ExprWithCleanups", "MaterializeTemporaryExpr", "CXXBindTemporaryExpr", "ConstantExpr",
               "SubstNonTypeTemplateParmExpr")
CONST_INIT_KINDS = set("""IntegerLiteral FloatingLiteral StringLiteral CharacterLiteral CXXBoolLiteralExpr
 CXXNullPtrLiteralExpr InitListExpr ImplicitCastExpr ConstantExpr ParenExpr UnaryOperator BinaryOperator
 ImplicitValueInitExpr CXXDefaultInitExpr ConditionalOperator CXXStaticCastExpr CStyleCastExpr
 CXXFunctionalCastExpr UnaryExprOrTypeTraitExpr SubstNonTypeTemplateParmExpr TypeTraitExpr ArrayInitLoopExpr
 DesignatedInitExpr""".split())


def top_const(qt):
    """is the object type const-qualified at top level (pointer: the pointer itself; array: the elements)"""
    t = qt.strip()
    depth = 0
    last_star = -1
    for i, ch in enumerate(t):
        if ch in "<(":
            depth += 1
        elif ch in ">)":
            depth -= 1
        elif ch in "*&" and depth == 0:
            last_star = i
    if last_star >= 0:
        if t[last_star] == "&":
            return True          # a reference cannot be reseated; what it refers to is another object
        tail = t[last_star + 1:].strip()
        return tail.startswith("const") or tail.startswith("__restrict const")
    # strip array bounds
    core = re.sub(r"\[[^\]]*\]", "", t).strip()
    return bool(re.match(r"^(?:const\b|volatile const\b)", core)) or bool(re.search(r"\bconst$", core))


def pointee_const(qt):
    """for a pointer/reference type string: is the pointee const"""
    t = qt.strip()
    depth = 0
    last = -1
    for i, ch in enumerate(t):
        if ch in "<(":
            depth += 1
        elif ch in ">)":
            depth -= 1
        elif ch in "*&" and depth == 0:
            last = i
    if last < 0:
        return top_const(t)
    return top_const(t[:last])


def is_noexcept_type(qt):
    """function type string carries a non-throwing exception specification (a dependent noexcept(expr) counts as
    possibly throwing)"""
    if qt is None:
        return False
    m = re.search(r"(?:\bnoexcept(?:\((true|false)\))?|\bthrow\(\))\s*$", qt.strip())
    if not m:
        return False
    return m.group(1) != "false"


class Walker:
    def __init__(self):
        self.file = None
        self.line = None
        self.qual = {}          # decl id -> qualified name (namespaces, records, functions, variables)
        self.ftype = {}         # function decl id -> type string
        self.fvirtual = {}      # function decl id -> bool
        self.statics = {}       # loc key -> record
        self.var_key = {}       # VarDecl id -> loc key
        self.refs = []          # (var decl id, classification tuple) resolved at the end (forward refs)
        self.dtors = {}         # loc key -> record
        self.noexcept_fns = {}  # qualified name -> record (same shape as dtors)
        self.fbody = {}         # function decl id -> callee set of its body (functions defined in library files)
        self.ctor_index = {}    # (class simple name, constructor type string) -> ids of constructors with a body
        self.mutable_records = set()   # qualified record names that have a mutable field
        self.tls = []
        self.ucalls = set()
        self.fcalls = set()     # (function decl id, name, enclosing function) of every reference to a free function
        self.candidates = set() # ids of VarDecls with static storage (pre-pass of the current chunk + earlier chunks)

    def prepass(self, n, in_fn):
        """ids of the static-storage VarDecls of a chunk (members are referenced before they are declared)"""
        if not isinstance(n, dict):
            return
        k = n.get("kind")
        if k in VAR_KINDS:
            if not in_fn or n.get("storageClass") in ("static", "extern"):
                self.candidates.add(n.get("id"))
        elif k in FUNC_KINDS:
            in_fn = True
        for c in n.get("inner", []) or []:
            self.prepass(c, in_fn)

    # ---- differential source locations
    def _bare(self, d):
        if "file" in d:
            self.file = d["file"]
        if "line" in d:
            self.line = d["line"]
        return (self.file, self.line, d.get("col"))

    def loc(self, d):
        """process a loc object in printing order; returns (file, line, col, spelling_file) of the decl"""
        if not d:
            return None
        if "spellingLoc" in d or "expansionLoc" in d:
            sp = ex = None
            for k, v in d.items():
                if k == "spellingLoc":
                    sp = self._bare(v)
                elif k == "expansionLoc":
                    ex = self._bare(v)
            use = ex or sp
            return (use[0], use[1], use[2], sp[0] if sp else None, sp[1] if sp else None)
        if "offset" not in d and "line" not in d and "col" not in d and "file" not in d:
            return None
        b = self._bare(d)
        return (b[0], b[1], b[2], None, None)

    def rng(self, d):
        if not d:
            return
        for k in ("begin", "end"):
            if k in d:
                self.loc(d[k])

    # ---- main recursive walk.  ctx: list of (kind, name, id); fn: enclosing function qualified-name stack
    def walk(self, n, ctx, parents):
        if not isinstance(n, dict) or "kind" not in n:
            return
        kind = n["kind"]
        here = None
        if "loc" in n:
            here = self.loc(n["loc"])
        if "range" in n:
            self.rng(n["range"])
        pushed = False
        if kind == "NamespaceDecl":
            ctx = ctx + [("ns", n.get("name") or "(anonymous namespace)", n.get("id"))]
            self.qual[n["id"]] = self.qname(ctx)
        elif kind in RECORD_KINDS or kind == "EnumDecl":
            base = self.semantic_ctx(n, ctx)
            nm = n.get("name") or ("(lambda)" if self.is_lambda(parents) else "(anonymous)")
            ctx = base + [("rec", nm, n.get("id"))]
            self.qual[n["id"]] = self.qname(ctx)
        elif kind in FUNC_KINDS:
            base = self.semantic_ctx(n, ctx)
            ctx = base + [("fn", n.get("name") or "(fn)", n.get("id"))]
            q = self.qname(ctx)
            self.qual[n["id"]] = q
            self.ftype[n["id"]] = (n.get("type") or {}).get("qualType")
            self.fvirtual[n["id"]] = bool(n.get("virtual"))
            parts = [c for c in n.get("inner", []) if isinstance(c, dict) and c.get("kind") in ("CompoundStmt", "CXXTryStmt", "CXXCtorInitializer")]
            if any(c.get("kind") in ("CompoundStmt", "CXXTryStmt") for c in parts) and not n.get("isImplicit"):
                cs = set()
                for c in parts:
                    self.collect_callees(c, cs, False)
                self.fbody[n["id"]] = cs
                if kind == "CXXConstructorDecl":
                    self.ctor_index.setdefault((q.split("::")[-1], self.ftype[n["id"]]), set()).add(n["id"])
            if kind == "CXXDestructorDecl":
                self.on_dtor(n, q, here)
            elif is_noexcept_type(self.ftype[n["id"]]):
                self.on_noexcept_fn(n, q, here)
        elif kind == "FieldDecl":
            if n.get("mutable"):
                self.mutable_records.add(self.qname(ctx))
        elif kind in VAR_KINDS:
            self.on_var(n, ctx, here)
        elif kind in ("DeclRefExpr", "MemberExpr"):
            rd = n.get("referencedDecl") or {}
            if kind == "DeclRefExpr" and rd.get("kind") == "FunctionDecl":
                self.fcalls.add((rd.get("id"), rd.get("name"), self.enclosing_function(ctx) or ("(initialiser in) " + self.qname(ctx))))
            self.on_ref(n, ctx, parents)
        elif kind == "UnresolvedLookupExpr" and n.get("name"):
            # call of an overloaded name in a template: resolved at instantiation; recorded by simple name
            self.ucalls.add((n.get("name"), self.enclosing_function(ctx) or ("(initialiser in) " + self.qname(ctx))))
        inner = n.get("inner")
        if inner:
            parents.append(n)
            for c in inner:
                self.walk(c, ctx, parents)
            parents.pop()

    @staticmethod
    def is_lambda(parents):
        return bool(parents) and parents[-1].get("kind") == "LambdaExpr"

    def semantic_ctx(self, n, ctx):
        """out-of-line definitions: the semantic parent is named by parentDeclContextId"""
        pid = n.get("parentDeclContextId")
        if pid and pid in self.qual:
            return [("q", self.qual[pid], pid)]
        return ctx

    @staticmethod
    def qname(ctx):
        parts = []
        for k, nm, _ in ctx:
            if k == "q":
                parts = [nm]
            else:
                parts.append(nm)
        return "::".join(p for p in parts if p)

    @staticmethod
    def enclosing_function(ctx):
        """qualified name of the innermost named function around ctx (lambdas are attributed to their owner)"""
        idx = [i for i, c in enumerate(ctx) if c[0] == "fn"]
        if not idx:
            return None
        # first function in the chain = the named owner; deeper ones are lambdas / local classes
        first = idx[0]
        q = Walker.qname(ctx[:first + 1])
        if len(idx) > 1:
            q += "::(nested)"
        return q

    # ---- statics
    def on_var(self, n, ctx, here):
        in_fn = any(c[0] == "fn" for c in ctx)
        sc = n.get("storageClass")
        if in_fn and sc not in ("static", "extern"):
            self.qual[n["id"]] = None
            return
        if here is None:
            return
        f, line, col, spf, spl = here
        rel = repo_rel(f)
        sp_rel = repo_rel(spf) if spf else None
        if rel is None and sp_rel is None:
            return
        if n.get("tls"):
            self.tls.append(self.qname(ctx + [("v", n.get("name") or "?", None)]))
            return
        in_rec = any(c[0] == "rec" for c in ctx) or bool(n.get("parentDeclContextId"))
        scope = "local" if in_fn else ("member" if in_rec else "namespace")
        if rel is None:
            return      # expansion of a library macro in user code (REGISTER_ENUM): the user's variable, not ours;
                        # the library's own REGISTER_ENUM uses are located in library files and are inventoried
        key = (rel, line, col)
        vfile, vline = rel, line
        base = self.semantic_ctx(n, ctx)
        name = self.qname(base + [("v", n.get("name") or "(unnamed)", None)])
        qt = (n.get("type") or {}).get("qualType", "")
        constness = "constexpr" if n.get("constexpr") else ("const" if top_const(qt) else "no")
        init = self.init_kind(n)
        self.var_key[n["id"]] = key
        rec = self.statics.get(key)
        if rec is None:
            rec = dict(name=name, file=vfile, line=vline, scope=scope, constness=constness, type=qt, init=init,
                       writes=set(), inline=bool(n.get("inline")), instantiations=0)
            self.statics[key] = rec
        else:
            rec["instantiations"] += 1
            # an instantiation can only sharpen what the pattern said
            if rec["init"] == "dynamic" and init in ("constant", "constexpr"):
                rec["init"] = init
        rec.setdefault("types", set()).add(qt)

    def init_kind(self, n):
        if n.get("constexpr"):
            return "constexpr"
        if "init" not in n:
            return "none"
        inner = [c for c in n.get("inner", []) if isinstance(c, dict) and re.search(r"Expr|Literal|Operator", c.get("kind", ""))]
        if not inner:
            return "none"
        return "constant" if all(self.const_expr(c) for c in inner) else "dynamic"

    def const_expr(self, e):
        k = e.get("kind")
        if k == "DeclRefExpr":
            rd = e.get("referencedDecl") or {}
            if rd.get("kind") in ("EnumConstantDecl", "NonTypeTemplateParmDecl"):
                return True
            if rd.get("kind") == "VarDecl":
                key = self.var_key.get(rd.get("id"))
                return key is not None and self.statics[key]["constness"] == "constexpr"
            return False
        if k == "CXXConstructExpr":
            # constructor call: constant only when it is a constexpr/trivial constructor of literals; keep it simple
            return False
        if k not in CONST_INIT_KINDS:
            return False
        return all(self.const_expr(c) for c in e.get("inner", []) if isinstance(c, dict) and "kind" in c)

    # ---- write-site classification of one reference
    def on_ref(self, n, ctx, parents):
        if n["kind"] == "DeclRefExpr":
            rid = (n.get("referencedDecl") or {}).get("id")
            rkind = (n.get("referencedDecl") or {}).get("kind")
            if rkind not in VAR_KINDS:
                return
        else:
            rid = n.get("referencedMemberDecl")
        if not rid or rid not in self.candidates:
            return
        cls = self.classify(n, parents)
        fn = self.enclosing_function(ctx) or ("(initialiser of) " + self.qname(ctx))
        self.refs.append((rid, cls, fn, repo_rel(self.file), self.line))

    def classify(self, node, parents):
        """returns None for a read, else a short write kind"""
        if top_const((node.get("type") or {}).get("qualType", "")):
            # a const object: every access is a read unless the constness is cast away on the way up
            for p in reversed(parents):
                k = p.get("kind")
                if k == "CXXConstCastExpr" or k == "CStyleCastExpr":
                    qt = (p.get("type") or {}).get("qualType", "")
                    if ("*" in qt or "&" in qt) and not pointee_const(qt):
                        return "const_cast"
                if not re.search(r"Expr|Operator", k or ""):
                    break
            return None
        cur = node
        decayed = False
        i = len(parents) - 1
        while i >= 0:
            p = parents[i]
            k = p.get("kind")
            kids = [c for c in p.get("inner", []) if isinstance(c, dict)]
            first = bool(kids) and kids[0] is cur
            qt = (p.get("type") or {}).get("qualType", "")
            if k in TRANSPARENT:
                pass
            elif k == "ImplicitCastExpr":
                ck = p.get("castKind")
                if ck == "LValueToRValue":
                    return None
                if ck == "ArrayToPointerDecay":
                    if pointee_const(qt):
                        return None
                    decayed = True
                elif ck in ("NoOp", "DerivedToBase", "UncheckedDerivedToBase", "BitCast", "BaseToDerived"):
                    if decayed:
                        if pointee_const(qt):
                            return None
                    elif top_const(qt):
                        return None
                elif ck in ("PointerToBoolean", "PointerToIntegral", "NullToPointer"):
                    return None
                else:
                    return None if not decayed else "array-decays-to-nonconst-pointer(%s)" % ck
            elif k == "MemberExpr":
                if not first:
                    return None
                if decayed or p.get("isArrow"):
                    # access through a pointer value read from the static: the static itself is only read
                    return None if not decayed else "array-decays-to-nonconst-pointer"
                if qt == "<bound member function type>":
                    # object of a member call, no const cast seen on the way: non-const member function
                    return "non-const-member-call(%s)" % p.get("name", "?")
            elif k == "CXXDependentScopeMemberExpr":
                if not first:
                    return None
                if p.get("isArrow") and not decayed:
                    return None
                # dependent member access: a call on it may be a non-const member call
                gp = parents[i - 1] if i > 0 else {}
                if gp.get("kind") in ("CallExpr", "CXXMemberCallExpr"):
                    gk = [c for c in gp.get("inner", []) if isinstance(c, dict)]
                    if gk and gk[0] is p:
                        return "member-call-in-dependent-context(%s)" % p.get("member", "?")
            elif k == "ArraySubscriptExpr":
                if not first:
                    return None
                decayed = False     # element lvalue of the static array / of the pointed-to storage
                if "*" in ((cur.get("type") or {}).get("qualType", "")) and cur.get("kind") != "ImplicitCastExpr":
                    return None     # subscript through a pointer value held in the static: a read of the static
            elif k == "UnaryOperator":
                op = p.get("opcode")
                if op in ("++", "--"):
                    return "increment" if op == "++" else "decrement"
                if op == "&":
                    if qt and qt != "<dependent type>" and pointee_const(qt):
                        return None
                    # &x of a non-const object: look one level up for a conversion to pointer-to-const
                    gp = parents[i - 1] if i > 0 else {}
                    gqt = (gp.get("type") or {}).get("qualType", "")
                    if gp.get("kind") == "ImplicitCastExpr" and gqt and pointee_const(gqt):
                        return None
                    return "address-taken-nonconst"
                if op == "*":
                    return None     # dereference of the pointer value: reads the static
                return None
            elif k == "BinaryOperator":
                if p.get("opcode") == "=" and first:
                    return "assignment"
                if p.get("opcode") == "," and not first:
                    cur = p
                    i -= 1
                    continue
                if decayed and p.get("opcode") in ("+", "-"):
                    cur = p
                    i -= 1
                    continue
                return None
            elif k == "CompoundAssignOperator":
                return "compound-assignment(%s)" % p.get("opcode", "?") if first else None
            elif k in ("CallExpr", "CXXMemberCallExpr", "CXXOperatorCallExpr", "CXXConstructExpr",
                       "CXXUnresolvedConstructExpr", "CXXTemporaryObjectExpr", "ParenListExpr", "CXXNewExpr"):
                if k != "ParenListExpr" and first and k in ("CallExpr", "CXXMemberCallExpr"):
                    return None     # callee position
                if k == "CXXOperatorCallExpr":
                    return "non-const-operator-call" if not decayed else "array-decays-to-nonconst-pointer(arg)"
                return "passed-as-nonconst-argument" if not decayed else "array-decays-to-nonconst-pointer(arg)"
            elif k == "InitListExpr":
                return "passed-as-nonconst-argument"
            elif k in ("CXXConstCastExpr",):
                if not pointee_const(qt) or not top_const(qt):
                    return "const_cast"
            elif k in ("CXXStaticCastExpr", "CStyleCastExpr", "CXXReinterpretCastExpr", "CXXFunctionalCastExpr"):
                if ("&" in qt or "*" in qt) and not pointee_const(qt):
                    cur = p
                    i -= 1
                    continue
                return None
            elif k in VAR_KINDS or k == "FieldDecl":
                vt = (p.get("type") or {}).get("qualType", "")
                if decayed:
                    return "array-decays-to-nonconst-pointer(init)"
                if "&" in vt and not pointee_const(vt):
                    return "bound-to-nonconst-reference"
                return None
            elif k == "ReturnStmt":
                rt = ""
                for a in reversed(parents[:i]):
                    if a.get("kind") in FUNC_KINDS:
                        rt = ((a.get("type") or {}).get("qualType") or "").split("(")[0]
                        break
                    if a.get("kind") == "LambdaExpr":
                        break
                if decayed:
                    return None if (rt and pointee_const(rt)) else "array-decays-to-nonconst-pointer(return)"
                if "&" in rt and not pointee_const(rt):
                    return "returned-as-nonconst-reference"
                return None
            elif k == "ConditionalOperator":
                if first:
                    return None
            elif k == "CXXForRangeStmt":
                return None
            else:
                return None if not decayed else "array-decays-to-nonconst-pointer(%s)" % k
            cur = p
            i -= 1
        return None

    # ---- destructors
    def on_dtor(self, n, q, here):
        if here is None:
            return
        f, line, col, spf, spl = here
        rel = repo_rel(f)
        if rel is None:
            return
        qt = (n.get("type") or {}).get("qualType", "")
        q = re.sub(r"<[^<>]*>$", "", q)     # the pattern of a class template is named ~C<T>
        body = None
        for c in n.get("inner", []):
            if isinstance(c, dict) and c.get("kind") in ("CompoundStmt", "CXXTryStmt"):
                body = c
        nef = "noexcept(false)" in qt
        if n.get("isImplicit") or n.get("explicitlyDefaulted"):
            body = None         # compiler-generated: runs only member / base destructors, which are listed themselves
        if body is None and not nef:
            return
        # key by the location of the definition / first declaration; out-of-line definitions re-use the name
        key = q
        rec = self.dtors.get(key)
        is_inst = self._in_instantiation
        callees = set()
        if body is not None:
            self.collect_callees(body, callees, False)
        if rec is None:
            rec = dict(name=q, file=rel, line=line, noexcept_false=nef, pattern=None, inst=None, has_body=body is not None)
            self.dtors[key] = rec
        rec["noexcept_false"] = rec["noexcept_false"] or nef
        if body is not None:
            rec["has_body"] = True
            rec["file"], rec["line"] = rel, line
            slot = "inst" if is_inst else "pattern"
            rec[slot] = (rec[slot] or set()) | callees

    # ---- functions declared noexcept (other than destructors): an exception leaving them is std::terminate as well
    def on_noexcept_fn(self, n, q, here):
        if here is None or n.get("isImplicit") or n.get("explicitlyDefaulted"):
            return
        rel = repo_rel(here[0])
        if rel is None:
            return
        parts = [c for c in n.get("inner", []) if isinstance(c, dict) and c.get("kind") in ("CompoundStmt", "CXXTryStmt", "CXXCtorInitializer")]
        if not any(c.get("kind") in ("CompoundStmt", "CXXTryStmt") for c in parts):
            return          # a declaration without body
        callees = set()
        for c in parts:
            self.collect_callees(c, callees, False)
        q = re.sub(r"<[^<>]*>$", "", q)
        rec = self.noexcept_fns.get(q)
        if rec is None:
            rec = dict(name=q, file=rel, line=here[1], noexcept_false=False, pattern=None, inst=None, has_body=True)
            self.noexcept_fns[q] = rec
        slot = "inst" if self._in_instantiation else "pattern"
        rec[slot] = (rec[slot] or set()) | callees

    def collect_callees(self, n, out, guarded):
        if not isinstance(n, dict):
            return
        k = n.get("kind")
        if k == "LambdaExpr":
            return      # a lambda body only runs if called; the call shows up as operator()
        if k == "CXXTryStmt":
            kids = [c for c in n.get("inner", []) if isinstance(c, dict)]
            catch_all = any(c.get("kind") == "CXXCatchStmt" and self.is_catch_all(c) for c in kids)
            for c in kids:
                if c.get("kind") == "CXXCatchStmt":
                    self.collect_callees(c, out, guarded)
                else:
                    self.collect_callees(c, out, guarded or catch_all)
            return
        if not guarded:
            if k == "CXXThrowExpr":
                kids = [c for c in n.get("inner", []) if isinstance(c, dict) and "kind" in c]
                out.add(("throw-expression", False))
            elif k in ("CallExpr", "CXXMemberCallExpr", "CXXOperatorCallExpr"):
                c = self.callee_of(n)
                if c is not None:
                    out.add(c)
            elif k in ("CXXConstructExpr", "CXXTemporaryObjectExpr"):
                ct = (n.get("ctorType") or {}).get("qualType")
                if not is_noexcept_type(ct) and not n.get("elidable"):
                    tn = (n.get("type") or {}).get("qualType", "?")
                    if not self.trivial_ctor(n):
                        out.add((("ctor", tn, ct), False))
            elif k == "CXXNewExpr":
                out.add(("operator new", False))
        for c in n.get("inner", []) or []:
            self.collect_callees(c, out, guarded)

    @staticmethod
    def trivial_ctor(n):
        # copy/move/default construction of scalars does not appear as CXXConstructExpr; treat every class ctor
        # without a noexcept specification as possibly throwing
        return False

    @staticmethod
    def is_catch_all(c):
        kids = c.get("inner", [])
        # catch (...) has no exception declaration: first child is an empty object / absent VarDecl
        return not any(isinstance(x, dict) and x.get("kind") == "VarDecl" for x in kids)

    def callee_of(self, call):
        kids = [c for c in call.get("inner", []) if isinstance(c, dict)]
        if not kids:
            return None
        c = kids[0]
        while c.get("kind") in ("ImplicitCastExpr", "ParenExpr") and c.get("inner"):
            c = c["inner"][0]
        k = c.get("kind")
        if k == "DeclRefExpr":
            rd = c.get("referencedDecl") or {}
            if rd.get("kind") not in FUNC_KINDS and rd.get("kind") != "FunctionDecl":
                return ("call through " + str(rd.get("name")), False)
            qt = (rd.get("type") or {}).get("qualType")
            if is_noexcept_type(qt):
                return None
            return (("id", rd.get("id"), rd.get("name")), False)
        if k == "MemberExpr":
            rid = c.get("referencedMemberDecl")
            return (("id", rid, c.get("name")), False)
        if k == "CXXDependentScopeMemberExpr":
            return ("(dependent)::" + str(c.get("member")), False)
        if k in ("UnresolvedLookupExpr", "UnresolvedMemberExpr"):
            return ("(unresolved)::" + str(c.get("name")), False)
        if k == "CXXPseudoDestructorExpr":
            return None
        return ("(indirect call)", False)

    _in_instantiation = False


SPECIALIZATION_KINDS = ("ClassTemplateSpecializationDecl",)


def mark_instantiations(walker_cls):
    """wrap walk so that on_dtor knows whether it is below an implicit instantiation"""
    orig = walker_cls.walk

    def walk(self, n, ctx, parents):
        if isinstance(n, dict) and n.get("kind") in SPECIALIZATION_KINDS:
            prev = self._in_instantiation
            self._in_instantiation = True
            try:
                return orig(self, n, ctx, parents)
            finally:
                self._in_instantiation = prev
        if isinstance(n, dict) and n.get("kind") in FUNC_KINDS and parents and parents[-1].get("kind") == "FunctionTemplateDecl":
            kids = [c for c in parents[-1].get("inner", []) if isinstance(c, dict) and c.get("kind") in FUNC_KINDS]
            if kids and kids[0] is not n:
                prev = self._in_instantiation
                self._in_instantiation = True
                try:
                    return orig(self, n, ctx, parents)
                finally:
                    self._in_instantiation = prev
        return orig(self, n, ctx, parents)
    walker_cls.walk = walk


mark_instantiations(Walker)


# ------------------------------------------------------------------------------------------------ one TU

def analyse_tu(args):
    """one translation unit; a compiler crash (signal) is retried once — the sources may have been mid-update"""
    r = analyse_tu_once(args)
    if "error" in r and "clang failed (rc=1)" not in r["error"]:
        time.sleep(1.0)
        r = analyse_tu_once(args)
    return r


def analyse_tu_once(args):
    label, source_path, source_text = args
    sys.setrecursionlimit(20000)
    t0 = time.time()
    tmp = None
    if source_text is not None:
        fd, tmp = tempfile.mkstemp(prefix="inv_tu_", suffix=".cpp")
        os.write(fd, source_text.encode())
        os.close(fd)
        source_path = tmp
    cmd = [CLANG, "-std=c++17", "-fsyntax-only", "-w", "-DBITSERIALIZER_VERIF", "-I" + os.path.join(REPO, "include"),
           "-I" + os.path.join(REPO, "src"), "-Xclang", "-ast-dump=json", source_path]
    errf = tempfile.TemporaryFile()
    p = subprocess.Popen(cmd, stdout=subprocess.PIPE, stderr=errf, bufsize=1 << 24)
    w = Walker()
    nchunks = nkept = 0
    try:
        for (f0, l0, chunk) in toplevel_chunks(p.stdout):
            nchunks += 1
            if chunk is None:
                continue
            nkept += 1
            obj = json.loads(chunk)
            w.file, w.line = f0, l0
            w.prepass(obj, False)
            w.walk(obj, [], [])
    finally:
        p.stdout.close()
        rc = p.wait()
        if tmp:
            os.unlink(tmp)
    errf.seek(0)
    err = errf.read().decode(errors="replace")
    if rc != 0:
        return dict(label=label, error="clang failed (rc=%s): %s" % (rc, err[-3000:]))
    # resolve references (forward references to statics declared later in the class body are common)
    for rid, cls, fn, rfile, rline in w.refs:
        key = w.var_key.get(rid)
        if key is None or cls is None:
            continue
        rec = w.statics[key]
        rec["writes"].add((fn, cls, rfile or "?", rline or 0))
    statics = []
    for key, r in w.statics.items():
        r = dict(r)
        r["key"] = list(key)
        r["writes"] = sorted(r["writes"])
        r["types"] = sorted(r.get("types", []))
        statics.append(r)
    # ---- which library functions cannot throw although they are not declared noexcept: no throw expression, no new,
    # no dynamic_cast / typeid, and every callee is noexcept or (recursively) such a function.  Greatest fixpoint.
    def ctor_id(c):
        _, tn, ct = c
        simple = re.sub(r"<.*$", "", tn.replace("const ", "").strip()).split("::")[-1].strip()
        ids = w.ctor_index.get((simple, ct), set())
        return next(iter(ids)) if len(ids) == 1 else None

    def callee_id(c):
        if isinstance(c, tuple) and c[0] == "id":
            return c[1]
        if isinstance(c, tuple) and c[0] == "ctor":
            return ctor_id(c)
        return None

    nothrow = set(w.fbody)
    changed = True
    while changed:
        changed = False
        for fid in list(nothrow):
            ok = True
            for c, _ in w.fbody[fid]:
                cid = callee_id(c)
                if cid is None:
                    ok = False
                elif is_noexcept_type(w.ftype.get(cid)):
                    continue
                elif w.fvirtual.get(cid) or cid not in nothrow:
                    ok = False
                if not ok:
                    break
            if not ok:
                nothrow.discard(fid)
                changed = True

    def resolve(table):
        out = []
        for key, r in table.items():
            use = r["inst"] if r["inst"] is not None else (r["pattern"] or set())
            names = set()
            for c, _ in use:
                if isinstance(c, tuple):
                    cid = callee_id(c)
                    if c[0] == "ctor" and cid is None:
                        names.add("constructor of " + c[1])
                        continue
                    nm = c[2] if c[0] == "id" else c[1]
                    q = w.qual.get(cid)
                    ft = w.ftype.get(cid)
                    if q is None:
                        names.add("(external)::" + str(nm))
                    elif is_noexcept_type(ft):
                        continue
                    elif cid in nothrow and not w.fvirtual.get(cid):
                        continue        # defined in a library file and cannot throw by its body
                    else:
                        names.add(q + (" [virtual]" if w.fvirtual.get(cid) else ""))
                else:
                    names.add(c)
            out.append(dict(name=r["name"], file=r["file"], line=r["line"], noexcept_false=r["noexcept_false"],
                            has_body=r["has_body"], callees=sorted(names),
                            resolved_from="instantiation" if r["inst"] is not None else "pattern"))
        return out
    dtors = resolve(w.dtors)
    noexcept_fns = resolve(w.noexcept_fns)
    ext = {}
    for fid, nm, fn in w.fcalls:
        if fid not in w.qual and nm:        # declared outside the library files
            if nm not in ext or fn < ext[nm]:
                ext[nm] = fn
    own_simple = set(q.split("::")[-1] for q in w.qual.values() if q)
    for nm, fn in w.ucalls:
        if nm not in own_simple and (nm not in ext or fn < ext[nm]):
            ext[nm] = fn
    return dict(label=label, statics=statics, dtors=dtors, mutable_records=sorted(w.mutable_records), tls=w.tls,
                external_calls=sorted(ext.items()), noexcept_fns=noexcept_fns,
                chunks=nchunks, kept=nkept, wall=round(time.time() - t0, 1))


# ------------------------------------------------------------------------------------------------ merge + emit

def build_inventory(jobs=None):
    hdrs = public_headers()
    tu = "".join('#include "%s"\n' % h for h in hdrs) + USE_SECTION
    tasks = [("<all public headers>", None, tu)] + [(os.path.relpath(p, REPO), p, None) for p in src_cpps()]
    jobs = jobs or min(len(tasks), max(1, (os.cpu_count() or 2) // 2), 8)
    with ProcessPoolExecutor(max_workers=jobs) as ex:
        results = list(ex.map(analyse_tu, tasks))
    errors = [r for r in results if "error" in r]
    statics, dtors, nfs = {}, {}, {}
    ext = {}
    mutable = set()
    tls = set()
    for r in results:
        if "error" in r:
            continue
        mutable |= set(r["mutable_records"])
        tls |= set(r["tls"])
        for nm, fn in r["external_calls"]:
            if nm not in ext or fn < ext[nm]:
                ext[nm] = fn
        for s in r["statics"]:
            k = tuple(s["key"])
            if k not in statics:
                statics[k] = s
                s["writes"] = set(tuple(w) for w in s["writes"])
                s["types"] = set(s["types"])
            else:
                t = statics[k]
                t["writes"] |= set(tuple(w) for w in s["writes"])
                t["types"] |= set(s["types"])
                t["instantiations"] = max(t["instantiations"], s["instantiations"])
                if t["init"] in ("dependent",) and s["init"] != "dependent":
                    t["init"] = s["init"]
        for table, d in [(dtors, x) for x in r["dtors"]] + [(nfs, x) for x in r.get("noexcept_fns", [])]:
            k = d["name"]
            if k not in table:
                table[k] = d
                d["callees"] = set(d["callees"])
            else:
                t = table[k]
                if d["resolved_from"] == "instantiation" and t["resolved_from"] == "pattern":
                    t["callees"] = set(d["callees"]); t["resolved_from"] = "instantiation"
                elif d["resolved_from"] == t["resolved_from"]:
                    t["callees"] |= set(d["callees"])
                t["noexcept_false"] = t["noexcept_false"] or d["noexcept_false"]
                t["has_body"] = t["has_body"] or d["has_body"]
    # mutable members: does any record with a mutable field occur in the type text (kept simple on purpose)
    short_mut = set(m.split("::")[-1] for m in mutable)
    out_statics = []
    for k, s in statics.items():
        types = " ".join(sorted(s["types"]))
        words = set(re.findall(r"[A-Za-z_][A-Za-z_0-9]*", types))
        s["mutable_members"] = bool(words & short_mut)
        s["writes"] = sorted(s["writes"])
        s["types"] = sorted(s["types"])
        out_statics.append(s)
    out_statics.sort(key=lambda s: (s["file"], s["line"], s["name"]))
    out_dtors = []
    for k, d in dtors.items():
        d["callees"] = sorted(d["callees"])
        out_dtors.append(d)
    out_dtors.sort(key=lambda d: d["name"])       # by name: moving code inside a file does not change the list
    out_nfs = []
    for k, d in nfs.items():
        d["callees"] = sorted(d["callees"])
        if d["callees"]:
            out_nfs.append(d)       # only the noexcept functions that call something that may throw are listed
    out_nfs.sort(key=lambda d: d["name"])
    n_noexcept = len(nfs)
    return dict(repo_hash=inputs_hash(), headers=hdrs, sources=[t[0] for t in tasks[1:]], statics=out_statics,
                dtors=out_dtors, noexcept_fns=out_nfs, noexcept_fn_count=n_noexcept, external_calls=sorted(ext.items()), thread_local=sorted(tls), mutable_records=sorted(mutable),
                errors=[dict(label=e["label"], error=e["error"]) for e in errors],
                timing={r["label"]: r.get("wall") for r in results})


FORBIDDEN_WORD = re.compile(r"\b(Admitted|admit|Axiom|Axioms|Parameter|Parameters|Conjecture|Conjectures|Hypothesis|Hypotheses|Variable|Variables)\b")


def coq_string(s):
    s = s.replace('"', '""')
    s = "".join(ch if 32 <= ord(ch) < 127 else "?" for ch in s)
    # the development-wide grep gate looks for vernacular keywords even inside string literals: a C++ identifier
    # that happens to be one of them is written with a trailing apostrophe
    s = FORBIDDEN_WORD.sub(lambda m: m.group(0)[:-1] + "'" + m.group(0)[-1], s)
    s = s.replace("(*", "( *").replace("*)", "* )")
    return '"' + s + '"'


def coq_list(items, indent):
    if not items:
        return "[]"
    pad = " " * indent
    return "[ " + (";\n" + pad + "  ").join(items) + " ]"


def emit_coq(inv):
    L = []
    L.append("(* InvGenerated.v — GENERATED by tools/inventory.py from the C++ sources (clang JSON AST); do not edit.")
    L.append("   Regenerated on every run of ./check C19 and ./check C20.")
    L.append("   statics : every variable with static storage duration declared in a library file;")
    L.append("   dtors   : every destructor with a body defined in a library file, with its non-noexcept callees. *)")
    L.append("From Coq Require Import String List.")
    L.append("From BS Require Import InvSpec.")
    L.append("Import ListNotations.")
    L.append("Local Open Scope string_scope.")
    L.append("")
    L.append("Definition inventory_errors : list string :=")
    L.append("  " + coq_list([coq_string("%s: %s" % (e["label"], e["error"][:200])) for e in inv["errors"]], 2) + ".")
    L.append("")
    L.append("Definition inventory_sources : list string :=")
    L.append("  " + coq_list([coq_string(s) for s in ["<all public headers>"] + inv["sources"]], 2) + ".")
    L.append("")
    L.append("Definition statics : list static_record :=")
    items = []
    for s in inv["statics"]:
        ws = coq_list(["{| ws_function := %s; ws_kind := %s |}" % (coq_string(f), coq_string(k))
                       for (f, k) in sorted(set((w[0], w[1]) for w in s["writes"]))], 8)
        items.append("{| st_name := %s;\n     st_file := %s;\n     st_scope := %s;\n     st_const := %s;\n     st_mutable_members := %s;\n     st_init := %s;\n     st_type := %s;\n     st_writes := %s |}" % (
            coq_string(s["name"]), coq_string(s["file"]), coq_string(s["scope"]), coq_string(s["constness"]),
            coq_string("yes" if s["mutable_members"] else "no"), coq_string(s["init"]),
            coq_string(" | ".join(s["types"])[:300]), ws))
    L.append("  " + coq_list(items, 2) + ".")
    L.append("")
    L.append("Definition dtors : list dtor_record :=")
    items = []
    for d in inv["dtors"]:
        items.append("{| dt_name := %s;\n     dt_file := %s;\n     dt_noexcept_false := %s;\n     dt_callees := %s |}" % (
            coq_string(d["name"]), coq_string(d["file"]), coq_string("yes" if d["noexcept_false"] else "no"),
            coq_list([coq_string(c) for c in d["callees"]], 8)))
    L.append("  " + coq_list(items, 2) + ".")
    L.append("")
    L.append("(* functions declared noexcept (other than destructors) whose bodies / member initialisers call possibly-throwing code; %d noexcept functions with a body were examined *)" % inv.get("noexcept_fn_count", 0))
    L.append("Definition noexcept_fns : list dtor_record :=")
    items = []
    for d in inv.get("noexcept_fns", []):
        items.append("{| dt_name := %s;\n     dt_file := %s;\n     dt_noexcept_false := %s;\n     dt_callees := %s |}" % (
            coq_string(d["name"]), coq_string(d["file"]), coq_string("no"),
            coq_list([coq_string(c) for c in d["callees"]], 8)))
    L.append("  " + coq_list(items, 2) + ".")
    L.append("")
    L.append("(* every free function declared outside the library files that library code refers to (one example caller each) *)")
    L.append("Definition external_calls : list unsafe_call :=")
    L.append("  " + coq_list(["{| uc_function := %s; uc_callee := %s |}" % (coq_string(fn), coq_string(nm)) for nm, fn in inv["external_calls"]], 2) + ".")
    L.append("")
    return "\n".join(L)


def write_atomic(path, text):
    try:
        if open(path).read() == text:
            return False
    except OSError:
        pass
    d = os.path.dirname(path)
    fd, tmp = tempfile.mkstemp(prefix=".InvGenerated.", suffix=".tmp", dir=d)
    with os.fdopen(fd, "w") as fh:
        fh.write(text)
    os.chmod(tmp, 0o644)
    os.rename(tmp, path)
    return True


def regenerate(force=False, quiet=False):
    """regenerate coq/InvGenerated.v from the current REPO tree (cached by content hash of include/, src/ and this
    file); returns the inventory dict"""
    os.makedirs(CACHE_DIR, exist_ok=True)
    h = inputs_hash()
    cache = os.path.join(CACHE_DIR, "inventory-%s.json" % h)
    inv = None
    if not force and os.path.exists(cache):
        try:
            inv = json.load(open(cache))
        except (OSError, ValueError):
            inv = None
    if inv is None:
        lock = cache + ".lock"
        got = False
        t0 = time.time()
        while True:
            try:
                fd = os.open(lock, os.O_CREAT | os.O_EXCL | os.O_WRONLY)
                os.close(fd)
                got = True
                break
            except FileExistsError:
                if os.path.exists(cache):
                    break
                if time.time() - os.path.getmtime(lock) > 600:
                    try:
                        os.unlink(lock)
                    except OSError:
                        pass
                time.sleep(0.5)
        try:
            if os.path.exists(cache) and not force:
                inv = json.load(open(cache))
            else:
                inv = build_inventory()
                inv["wall"] = round(time.time() - t0, 1)
                if not inv["errors"] and inv["repo_hash"] == h:      # never cache a failed or mid-update inventory
                    tmp = cache + ".tmp%d" % os.getpid()
                    with open(tmp, "w") as fh:
                        json.dump(inv, fh, indent=1, sort_keys=True)
                    os.rename(tmp, cache)
                # drop stale caches
                for e in os.listdir(CACHE_DIR):
                    p = os.path.join(CACHE_DIR, e)
                    if e.startswith("inventory-") and e.endswith(".json") and p != cache and time.time() - os.path.getmtime(p) > 3600:
                        try:
                            os.unlink(p)
                        except OSError:
                            pass
                if not quiet:
                    print("[inventory] %d statics, %d destructors, %d TUs in %.1fs" % (
                        len(inv["statics"]), len(inv["dtors"]), 1 + len(inv["sources"]), time.time() - t0), file=sys.stderr)
        finally:
            if got:
                try:
                    os.unlink(lock)
                except OSError:
                    pass
    changed = write_atomic(OUT_V, emit_coq(inv))
    inv["_generated_changed"] = changed
    return inv


if __name__ == "__main__":
    force = "--force" in sys.argv
    inv = regenerate(force=force)
    if "--json" in sys.argv:
        json.dump(inv, sys.stdout, indent=1, sort_keys=True)
    else:
        for s in inv["statics"]:
            print("static %-9s %-9s %-8s %s:%s  %s   writes=%s" % (s["constness"], s["init"], s["scope"], s["file"], s["line"], s["name"],
                  sorted(set((w[0], w[1]) for w in s["writes"]))))
        for d in inv["dtors"]:
            print("dtor  %s:%s %s noexcept(false)=%s callees=%s (%s)" % (d["file"], d["line"], d["name"], d["noexcept_false"], d["callees"], d["resolved_from"]))
        for e in inv["errors"]:
            print("ERROR", e["label"], e["error"][:500])
        print("thread_local:", inv["thread_local"])
        print("timing:", inv["timing"], "total", inv.get("wall"))
