#!/usr/bin/env python3
"""Regenerates the generated blocks of DESIGN.md from MANIFEST.json, known_findings.jsonl and seeded/*/meta.json, so that the
prose cannot drift from what is registered:  <!-- BEGIN GENERATED:<name> --> ... <!-- END GENERATED:<name> -->"""
import glob, json, os, re

VERIF = os.path.dirname(os.path.dirname(os.path.abspath(__file__)))


def known_block():
    rows_known, fixed = [], {}
    for l in open(os.path.join(VERIF, "known_findings.jsonl")):
        l = l.strip()
        if not l.startswith("{"):
            continue
        d = json.loads(l)
        if d.get("status") == "known":
            rows_known.append(d)
        else:
            fixed.setdefault(d.get("id"), []).append(d)
    out = ["| Id | Property | What fails (witness in `known_findings.jsonl`, replayed on every run) |", "|---|---|---|"]
    for d in sorted(rows_known, key=lambda d: (d["property"], d["id"])):
        out.append("| %s | %s | %s |" % (d["id"], d["property"], d.get("what", "").replace("|", "\\|")[:400]))
    out.append("")
    out.append("Repaired defects (`fixed` entries, each naming its `fix:` commit in /repo): " +
               ", ".join("%s (%s; %s)" % (i, "/".join(sorted(set(x["property"] for x in v))), " ".join(sorted(set(x.get("commit", "?") for x in v))))
                         for i, v in sorted(fixed.items())) + ".")
    return "\n".join(out)


def asbuilt_block():
    m = json.load(open(os.path.join(VERIF, "MANIFEST.json")))
    out = ["| Property | Level claimed | What the check decides, as built (MANIFEST `level_claimed.text`) | Not covered / trusted (`level_note`) |", "|---|---|---|---|"]
    for c in m["checks"]:
        out.append("| %s | %s | %s | %s |" % (c["property_id"], c["level_claimed"]["category"],
                                             c["level_claimed"]["text"].replace("|", "\\|"), c["level_note"].replace("|", "\\|")))
    for n in m.get("not_applicable", []):
        out.append("| %s | not claimed | %s | |" % (n["property_id"], n["reason"]))
    return "\n".join(out)


def seeded_block():
    out = ["| Seeded change | Property | What it needs to manifest | Caught by | How / what was strengthened |", "|---|---|---|---|---|"]
    for p in sorted(glob.glob(os.path.join(VERIF, "seeded", "*", "meta.json"))):
        m = json.load(open(p))
        c = m.get("confirmed", {})
        out.append("| %s: %s | %s | %s | %s | %s |" % (
            os.path.basename(os.path.dirname(p)), str(m.get("summary", ""))[:260].replace("|", "\\|"), m.get("property", ""),
            str(m.get("needs", ""))[:260].replace("|", "\\|"), ", ".join(c.get("caught_by", [])) or "?",
            str(c.get("how", c.get("checks_run", "")))[:420].replace("|", "\\|")))
    return "\n".join(out)


def main():
    p = os.path.join(VERIF, "DESIGN.md")
    s = open(p).read()
    for name, fn in (("open-known-findings", known_block), ("as-built", asbuilt_block), ("seeded", seeded_block)):
        a, b = "<!-- BEGIN GENERATED:%s -->" % name, "<!-- END GENERATED:%s -->" % name
        if a in s and b in s:
            s = s[:s.index(a) + len(a)] + "\n" + fn() + "\n" + s[s.index(b):]
    open(p, "w").write(s)


if __name__ == "__main__":
    main()
