#!/usr/bin/env python3
"""Regenerates /verif/MANIFEST.json from the table below (keeps it schema-valid at all times)."""
import json, os, subprocess

VERIF = os.path.dirname(os.path.dirname(os.path.abspath(__file__)))

CLAIMED = {
    "C08": dict(
        category="proof",
        text="PARTIAL, two halves. Proved (coq/Properties_C08.v, 14, closed under the global context): a reference syntax written from RFC 8259 and XML 1.0 with json_parse (json_print d) = d and xml_parse (xml_print x) = x for every well-formed DOM, JSON white-space invariance, totality of both parsers; and theorems about a model of the adapter logic of rapidjson_archive.h / pugixml_archive.h (which DOM is built for a value, how a DOM is read back into typed targets, writer failure is raised, loading is invariant under member order and under spellings the reader types alike; the integer-with-fraction spelling is refuted with its exact class, J43). Validated per document on every run, not proved: RapidJSON and pugixml themselves - every document the implementation produces is decoded per the configured encoding, parsed by the EXTRACTED VERIFIED reference parser and its DOM compared with the model's DOM of the value; every load compared with the model; every valid document re-rendered by independent emitters (white space, escapes, character references, CDATA, member/attribute order, numeric spelling, encoding, BOM) must load like the original; reference parsers cross-checked against Python json / expat. Defects F26 F27 F28 F29 F29a F29w F40 F42 found here were repaired; J41 J43 J44 J46 J47 are known findings.",
        design_ref="DESIGN.md 4 (C08)",
        note="RapidJSON 1.1.0 / pugixml 1.13 writers, parsers, number<->text and encoding streams are third party: neither modelled nor trusted, validated document by document (translation-validation style) with the verified parser as the independent standard reader. Not proved: soundness of the reference parsers in the accept=>standard direction (cross-checked only), load invariance for std::map targets, options pass-through, stream/encoding behaviour at load time. XML is run with paddingCharNum >= 1 (documented precondition of the options).",
        technique="Coq proof (verified reference JSON/XML parsers + adapter model) with per-document validation of the implementation's output by the extracted parser and model-vs-implementation correspondence"),
    "C09": dict(
        category="proof",
        text="Coq theorems T_C09_* (coq/Properties_C09.v, 29, closed under the global context): an RFC 4180 reference parser accepts exactly the renderings of a table and returns it; the writer model's output is such a rendering for any byte-string fields and every allowed separator, quoting exactly when needed, stream output identical; both reader models (memory, and the stream reader for every chunk size) load EVERY RFC rendering (optional quoting, LF/CRLF, optional final break) to exactly its rows for any requested column order, reject records of another width, agree with each other (stream = memory), and are total on arbitrary text. Refuted with exact classes: ragged save => terminate (F18), zero rows => empty text the loader rejects (F22) — known findings. Tied to /repo by correspondence (tables x separators x renderings from an independent RFC writer, malformed stream, fields straddling the stream buffer); defects F21 F23 F24 F25 found here were repaired by fix: commits.",
        design_ref="DESIGN.md 4 (C09)",
        note="UTF-16/32 CSV streams are the composition with C13 and are not in this model; only K=256 is run against the code for the CSV stream reader; cells are strings (numbers/dates are C16/C14).",
        technique="Coq proof (reference RFC 4180 parser, writer/reader models, induction over tables and renderings) with extracted-model vs implementation correspondence"),
    "C10": dict(
        category="proof",
        text="Coq theorems T_C10_bsr_* (coq/Properties_C10.v): for every chunk size K > 0, every data and every sequence of the nine CBinaryStreamReader operations on a seekable stream, the stream reader model answers what the trivial in-memory reader accepts (refinement by a window invariant); never reads outside its window on any stream; the callers' ReadByChunks loop returns exactly the requested slice. Non-seekable streams: refuted with the exact class (a SetPosition leaving the cached window, known finding F16b) and proved outside it. CSV: T_C09_stream_eq_mem (stream = memory for every chunk size). Tied to /repo by correspondence with K in {8,16,32,64,256} (hook BITSERIALIZER_VERIF_CHUNK_SIZE) on three stream kinds (istringstream, short-read seekable, non-seekable), every implementation trace re-checked by the extracted reference reader; document level: MsgPack read sequences through the string reader and the stream reader (chunk 256 and 8) must agree with each other and with the MsgPack model (C07), documents shifted across the chunk boundary at every offset.",
        design_ref="DESIGN.md 4 (C10)",
        note="std::istream is a MODELLED component (StreamIStream.v) validated on every run against libstdc++. The MsgPack stream reader has no separate Coq model: it is tied to the string-reader model by correspondence (partial there). JSON/XML memory-vs-stream are third-party on both sides and are only exercised by C01/C08 runs. Defects F15 F16 F37 F43 found here were repaired.",
        technique="Coq proof (refinement of the chunked stream reader to an in-memory reader) with extracted-model vs implementation correspondence"),
    "C13": dict(
        category="proof",
        text="Coq theorems T_C13_* (coq/Properties_C13.v, 21): DetectEncoding recognises every BOM with its length and every BOM-less text starting with an ASCII non-NUL character outside two exactly characterised classes (refuted/outside pairs; known findings F06a-c); for every chunk size K (multiple of 4, >= 32), encoding, BOM choice, target width, policy and scalar text CEncodedStreamReader's concatenated chunks are exactly the target encoding of the text (stream_lossless); on EVERY byte stream the read loop ends with EndFile or DecodeError after at most length-many chunks (progress: no hang); a stream cut inside a character gives prefix+mark or DecodeError (for different source/target widths); the writer emits BOM and pieces exactly in the configured scheme. Tied to /repo by correspondence: every cut point, K in {32,64,256}, 5 encodings x BOM x 3 targets x policies; detection on all short texts over a 12-character alphabet.",
        design_ref="DESIGN.md 4 (C13)",
        note="T_C13_truncated is proved for different source/target widths only (same-width cases by example + correspondence; UTF-8 into char passes a partial character through: known finding F39). Lossless/truncated theorems assume well-formed text (ill-formed text: progress + correspondence). Defects F05 F06(single unit) F37 F38 F42 found here were repaired.",
        technique="Coq proof (carry-over invariant of the chunked decoder over the UTF model, for every chunk size) with extracted-model vs implementation correspondence"),
    "C01": dict(
        category="proof",
        text="PARTIAL. Proved (42 obligations: coq/Properties_C01.v 19, Properties_C01mp.v 15, Properties_C01jx.v 8; all closed under the global context): MsgPack - T_C01_mp_load_save: for every typed value tree (scalars of every kind, strings, byte containers, vectors, classes with named members, any nesting) the typed LOAD model applied to the bytes the SAVE model emitted returns the value, under every policy setting; the request program the generic layer issues evaluates on the association-list spec to exactly the loaded tokens and is transported by T_C03_mp_refines to the scope model on the bytes (ends at the end of the document, close flag clear); loading ignores undeclared members and the member order; value level for every writer overload / integer target / float bit pattern. CSV - any table, separator and requested key list, memory and stream reader of every chunk size. Encoded text streams - writer then reader = the text for every encoding / BOM / chunk size / width (outside the C13 detection classes). JSON - T_C01_json_roundtrip_adapter: for every type (any nesting of vector, map, class) and well-typed value the adapter model returns the value or the save raises (only for non-finite doubles). Decided on the real implementation on every run with the property as its own oracle: SaveObject then LoadObject into a fresh object through the public API for ~55 catalogue types x MsgPack/JSON/XML/CSV x memory/stream x 5 encodings x BOM x formatting x separators under ASan+UBSan; non-finite floats (JSON must throw); load-save-load on the library's own documents re-rendered by independent writers; extracted MsgPack load model vs LoadObject on saved / re-encoded / perturbed documents. Defects found by this check and repaired: F07 F26 F27 F28 F29 F29w F42 F47 F48 F49 F51 (+ follow-ups); known findings: XML null/empty ambiguity F29n F53, XML CR F52, BOM-less JSON scalar root F50, CSV empty table F22.",
        design_ref="DESIGN.md 0a (C01 as built), 4 (C01)",
        note="partial: std::map targets, vector<bool>, fixed arrays, tuples, enums and chrono are not in the MsgPack load model; there is no Coq model of the generic load layer over JSON/XML/CSV beyond the jx adapter model (XML round trip refuted by J41 only; `_outside` not proved) and C18's container model; RapidJSON and pugixml are third party. For those the quantified statement rests on the end-to-end exploration, which samples values and configurations. The models are tied to /repo by the correspondences of C06/C07/C03/C09/C13/C11/C16/C08 and by the mpload correspondence run here.",
        technique="Coq proof (typed load/save models composed through the scope refinement; writer/reader model compositions) with extracted-model vs implementation correspondence + end-to-end round-trip exploration with the property as oracle"),
    "C03": dict(
        category="proof",
        text="PARTIAL (MsgPack only). Coq theorems T_C03_* (coq/Properties_C03.v, 28, closed under the global context) over a model of CMsgPackReadObjectScope / ArrayScope / BinaryScope (FindValueByKey with its cursor and wrap-around, ReadKey for every key format, CVariableKey equality, ResetKey, the guarded destructors with their tail skip, the close-failure flag reported by Finalize): for every well-formed object document, any trailing data and EVERY error-free history of requests (any order, repeats, absent keys, unrequested members, nested objects / arrays / byte arrays left partly read) the answers are those of the association list the reference decoder assigns to the document and the reader ends exactly behind the object (T_C03_mp_refines, full strength since the repairs of F14 and F17); the cursor invariant is kept by every request; an unsuccessful full cycle returns to its start; the destructors are total on any input and a failed close is reported as ParsingError by Finalize; array scopes count exactly the elements consumed (T_C05_array_scope_counts*). Tied to /repo by correspondence of the extracted model with the real scopes over the string reader, the stream reader and MsgPackReadRootScope on generated histories (documents from an independent encoder, all key kinds and widths, ill-formed documents for the error paths).",
        design_ref="DESIGN.md 4 (C03)",
        note="JSON / XML / CSV object scopes are not modelled here (JSON and XML lookups are by name in third-party DOMs: covered by T_C08_load_member_order and the C01/C17/C18 runs; CSV column lookup is T_C09_reader_any_header). Not proved: histories ending in an error (spec vs model compared on every run), fuel sufficiency of the find/visit loops on ill-formed input; the stream reader under the scopes is tied by correspondence only. Defects F12 F13 F14 F17 F54 found here were repaired.",
        technique="Coq proof (refinement of the cursor-based key search to an association list, invariant over request histories) with extracted-model vs implementation correspondence"),
    "C04": dict(
        category="proof",
        text="Coq theorems T_C04_* (coq/Properties_C04.v, 24): for every pair of the 13 integer kinds (and any widths) and every in-range source value, the model of Convert's integer-to-integer path and of ConvertByPolicy/SafeNumberCast returns the same value iff it fits the target and OutOfRange otherwise, never an altered value; the policy layer turns that into throw / keep-old-value exactly as configured, for any non-convertible pair into MismatchedTypes; integer->float/double accepts exactly the integers the target represents exactly and is total (no cast UB); double->float accepts exactly the doubles that are floats (Flocq binary32/binary64), float->double is exact; floating->integer is refused. Tied to /repo by correspondence: all type pairs x boundary neighbourhoods of every width, exact-rational oracle for the floating cases, built with -fsanitize=float-cast-overflow. Defects F44 (cast UB) and F45 (lost MismatchedTypes) found here were repaired (30e94fb, 76c37b6).",
        design_ref="DESIGN.md 4 (C04)",
        note="The floating-point theorems use Flocq and therefore the standard library's real-number axioms (named in the evidence trusted base). Only the conversion core (Convert / SafeNumberCast / ConvertByPolicy) is modelled; that every archive funnels numbers through it is checked by the archive families (C07, C08, C09).",
        technique="Coq proof (integer range arithmetic with lia; Flocq binary32/binary64 for the floating cases) with extracted-model vs implementation correspondence"),
    "C16": dict(
        category="proof",
        text="PARTIAL (floating-point text is correspondence only). Coq theorems T_C16_* (coq/Properties_C16.v, 20): for every integer type and string width, printing then parsing returns the same value (to_chars buffer always sufficient); parsing is total on every unit string and classifies it exactly as value / invalid / out of range against the literal grammar and the target range, never wrapping; results are independent of the code-unit width; bool literals likewise. Refuted with exact classes and proved outside them: '-' digits into unsigned targets is invalid instead of out-of-range (F46, known finding: the repair breaks a pinned test), fractional-and-out-of-range ordering, std::isdigit domain. Tied to /repo by correspondence: all 8/16-bit values x 4 widths x 5 types, grammar-generated literals, from_chars/to_chars model validated against libstdc++ on every run; floating text: exact-rational oracle on boundary and random patterns, thorough tier all 2^32 float patterns.",
        design_ref="DESIGN.md 4 (C16)",
        note="std::from_chars/to_chars for integers are MODELLED from [charconv] and validated per run; floating-point to_chars/from_chars (third party) are not modelled in Coq: that half of the property is decided by correspondence against an exact-rational oracle only.",
        technique="Coq proof (digit-string arithmetic by induction, range classification with lia) with extracted-model vs implementation correspondence; floating-point text by exact-rational differential oracle"),
    "C17": dict(
        category="proof",
        text="Coq theorems T_C17_* (coq/Properties_C17.v, closed under the global context) over a model of KeyValueProxy::VisitArgs / SerializationContext::AddValidationError / the built-in validators for arbitrary classes (any fields, any validator lists, any documents): a load throws ValidationException iff some validator fails; with maxValidationErrors = 0 the exception carries exactly the failing paths with exactly their failing messages in declaration order (repeated keys accumulate); Required/Range/MinSize/MaxSize follow the documented semantics with inclusive bounds; validation never changes loaded values. The capped statement is refuted with its exact class (F32, known finding) and proved outside it. Tied to /repo by correspondence through the real JSON, MsgPack and CSV archives on a catalogue of validated classes (flat, nested, in arrays/maps) with every field state (valid, at/inside/outside each bound, absent, null, mismatched-and-skipped) and max in {0,1,2,3,100}.",
        design_ref="DESIGN.md 4 (C17)",
        note="Email/PhoneNumber validators are mirrored for the correspondence only and opaque in the theorems; XML paths not covered; the object state after an early (capped) throw is not modelled (T_C17_passing_fields_loaded_partial).",
        technique="Coq proof (invariant over load steps of the validation bookkeeping) with extracted-model vs implementation correspondence"),
    "C18": dict(
        category="proof",
        text="Coq theorems T_C18_* (coq/Properties_C18.v): SerializeContainer and its relatives (forward_list, fixed-size arrays, vector<bool>, valarray, sets, multimaps, the three MapLoadModes, optional/unique_ptr/shared_ptr) modelled for ANY element type, loader, prior content and estimated size: the result equals loading into a fresh target whenever the element loader is prior-independent, the hypothesis is re-established one level up (nesting), OnlyExistKeys never adds a key, UpdateKeys never removes one. Over the type universe the full statement is refuted with the exact residual class (elements of fixed arrays / pair members / class fields / root that are not loaded: F36 remainder, F29 for XML — known findings) and proved outside it. Tied to /repo by correspondence through JSON, MsgPack and CSV for 44 container types with all (prior size, data size) in {0..5}^2. Two defects found here were repaired (772314c stale items, cf5d8dc uninitialised set element).",
        design_ref="DESIGN.md 4 (C18)",
        note="std::tuple, map keys other than int/string, duplicate document keys and XML correspondence are not covered; the tightness converse of the _outside classes is not proved.",
        technique="Coq proof (induction over data and type descriptors of the container loading algorithms) with extracted-model vs implementation correspondence"),
    "C02": dict(
        category="proof",
        text="PARTIAL. Proved (coq/Properties_C02.v, closed under the global context): on the executable models every UTF transcoding and every MsgPack read/skip terminates within a fuel linear in the input, never leaves its input buffer and ends in an ordinary outcome, for every byte string. Observed on every run (not proved): the real C++ under ASan+UBSan with watchdog and allocation cap, fed structure-aware mutations / all truncations / arbitrary bytes / boundary families through LoadObject<MsgPack|CSV|JSON|XML> (memory and stream, 10 target shapes, 4 policy settings) and Convert::To (20 target kinds); the property itself is the oracle (anything but OK or an exception derived from std::exception is a violation). Three genuine defect classes of the unchanged tree are KNOWN FINDINGS (F17 terminate, F19 stack overflow by nesting, F20 allocation from declared count); eight others found on the way were repaired by fix: commits.",
        design_ref="DESIGN.md 4 (C02)",
        note="C++ lifetime/memory safety, stack depth and allocation are runtime behaviour outside any Gallina model; known-finding classes are decidable predicates on (archive, input, outcome) stated in props/C02.py; any abnormal outcome outside them is reported.",
        technique="Coq proof of termination/in-bounds on the models + sanitizer-built robustness exploration of the implementation"),
    "C05": dict(
        category="proof",
        text="Coq theorems T_C05_* (coq/Properties_C05.v): for every byte string, whenever the MsgPack reader skips a value (mismatched kind under the Skip policy, nil, or an integer out of the target's range) it consumes exactly the bytes the reference decoder (MpSpec.v, written from the MessagePack spec) assigns to that one value, whatever its kind, format width and nesting depth; SkipValue never runs out of fuel. Tied to /repo by correspondence of the extracted model with both reader classes (string and stream) on all first bytes x tails and random nested documents from an independent encoder followed by further data.",
        design_ref="DESIGN.md 4 (C05)",
        note="partial: reader level only. The scope classes' element counters (array/object/tuple scopes: findings F12-F14) and the JSON/XML/CSV archives are not modelled; those parts of the property are not decided by this check.",
        technique="Coq proof (agreement of SkipValueImpl with a reference decoder by induction on fuel + first-byte classification) with extracted-model vs implementation correspondence"),
    "C06": dict(
        category="proof",
        text="Coq theorems T_C06_* (coq/Properties_C06.v): every WriteValue/Begin* overload of the writer model emits bytes that the reference decoder reads back as exactly the value (all 2^64 integers per type, all float/double bit patterns, any string, array/map/bin header counts), in the most compact format (thresholds proved, >= 2^32 refused), timestamp 32/64 per spec. Where the code is not compliant the full statement is refuted with the exact defect class: F09 (signed types never use the uint family) and F08 (timestamp-96 field order) — both KNOWN FINDINGS replayed on every run. Tied to /repo by byte-for-byte correspondence on both writer classes.",
        design_ref="DESIGN.md 4 (C06)",
        note="partial w.r.t. the property's typed layer: which overload and which declared count the archive layer uses for classes/containers/maps is not modelled yet. Memory::NativeToBigEndian is modelled as big-endian bytes (16/32-bit Reverse proved in C11; 64-bit by correspondence).",
        technique="Coq proof (writer model vs reference decoder, arithmetic over N/Z with lia, bit-mask lemmas) with extracted-model vs implementation correspondence"),
    "C07": dict(
        category="proof",
        text="Coq theorems T_C07_* (coq/Properties_C07.v): for every byte string, SkipValue and each ReadValue overload of the reader model (all integer targets incl. bool/char, nil, float, double, string, array/map/bin sizes, type probe) deliver exactly what the reference decoder reads from the same bytes — every legal format width and integer family accepted, nil and other kinds handled per the mismatch policy, out-of-range per the overflow policy — and return an error whenever the reference decoder rejects the input (truncation, 0xC1). Tied to /repo by correspondence on both reader classes: all 256 first bytes x tails x ops x policies, documents from an independent random-width encoder, truncations and single-byte corruptions; disagreements are judged by an independent Python decoder.",
        design_ref="DESIGN.md 4 (C07)",
        note="NOT PROVED: the agreement statement for ReadValue(CBinTimestamp&) (correspondence only; F08 known finding for timestamp 96); loading into classes/containers/maps (scope classes) is not modelled yet. Defects F10 F11 F15 found by this check were repaired by fix: commits 3e23685 91cba85 5e5e098.",
        technique="Coq proof (reader model vs reference decoder: 41-way first-byte classification, induction on fuel) with extracted-model vs implementation correspondence"),
    "C11": dict(
        category="proof",
        text="Coq theorems T_C11_* (coq/Properties_C11.v, closed under the global context): for every list of scalar values, every ordered pair of code-unit widths, both policies, any mark and prior output the model of Transcode emits exactly the standard encoding form with zero errors and the iterator at the end; round trip; Memory::Reverse = byte swap for all 2^16 / 2^32 values; LE/BE classes emit/consume the Unicode encoding schemes. The hand-written model is tied to /repo on every run by an exhaustive correspondence: every one of the 1,112,064 scalar values through Transcode (6 width pairs x 2 policies + copy paths) and through the LE/BE Decode/Encode classes, plus random texts with prior output/marks.",
        design_ref="DESIGN.md 4 (C11)",
        note="trusted: Coq kernel + vm_compute; hand model UtfModel.v (tie = correspondence, exhaustive on single scalars); ExtrOcamlBasic extraction; driver glue. Convert::To<string> and archive string paths are covered only through Transcode (they call it) - not separately modelled yet.",
        technique="Coq proof (induction over code points + kernel sweep of byte classes + bit-arithmetic lemmas) with extracted-model vs implementation correspondence"),
    "C12": dict(
        category="proof",
        text="Coq theorems T_C12_* (coq/Properties_C12.v): for every unit sequence the model of Transcode terminates inside its input; under Skip the output is exactly the input with each ill-formed sequence replaced by the mark (relation skip_spec), count = replacements, output well-formed; under ThrowError success iff well-formed, otherwise the well-formed prefix is transcoded exactly and the reported position starts the offending sequence; the decoders accept nothing but standard forms. Tied to /repo by hashed exhaustive sweeps (all UTF-8 strings of length <=2, lead E0..F4 x all tails (quick) / all length-3 (thorough), boundary alphabets for UTF-16/32) and random ill-formed texts; disagreements are judged against an independent executable reading of the property.",
        design_ref="DESIGN.md 4 (C12)",
        note="trusted: as C11. Four genuine defects (F01-F04) were found by this check and repaired by fix: commits e8e3ba7 1981b2e 48ef24b; the model is the repaired behaviour.",
        technique="Coq proof (characterisation of the transcoding loop by induction on fuel) with extracted-model vs implementation correspondence"),
    "C19": dict(
        category="proof",
        text="PARTIAL (data-race freedom under real interleavings is runtime behaviour and is observed, not proved). Proved (coq/Properties_C19.v, 11, closed under the global context): every fair interleaving of per-thread operation lists whose operations do not write the shared store gives every thread the results and private state of its sequential run (T_C19_interleaving_eq_sequential, T_C19_schedule_independent, T_C19_steps_commute) and the hypothesis is necessary (T_C19_writer_breaks_it). The tie to the code is a TRANSLATOR: on every run tools/inventory.py rebuilds coq/InvGenerated.v from the clang JSON AST of all public headers and every src/**/*.cpp and the kernel re-checks that every object with static storage duration is const with thread-safe initialisation, or written only inside EnumRegistry<T>::Register, or never written by the library (T_C19_statics_benign over 97 statics, T_C19_inventory_complete) and that no non-reentrant C function is called. Observed on every run: ThreadSanitizer runs of 2/4/8 threads x seeded random mixes of 18 operation kinds, each compared with a sequential golden run. A new mutable static breaks the theorem; the check then searches for a TSan report or result mismatch as the failing schedule.",
        design_ref="DESIGN.md 4 (C19)",
        note="no executable model of the C++ memory model: the link between `reader` in the theorem and the library's operations is the syntactic inventory (write-site classification is heuristic, conservative in dependent contexts); third-party statics (RapidJSON, pugixml, libstdc++) are covered by the TSan runs only.",
        technique="Coq proof (interleaving = sequential for reader-only operations) over an inventory regenerated from the source by a clang-AST translator + ThreadSanitizer exploration"),
    "C20": dict(
        category="proof",
        text="PARTIAL. Proved (coq/Properties_C20.v, 21, closed under the global context): in the exception/scope semantics of C++ (destructors innermost first; an exception leaving an implicitly-noexcept destructor = std::terminate) an exception thrown by any action at any nesting depth reaches the caller as that exception and the process never terminates, provided no destructor on the way can throw (T_C20_propagation, T_C20_never_terminate); for the MsgPack map load and the CSV save this holds at full strength for every input since F17 and F18 were repaired (T_C20_msgpack_never_terminates, T_C20_msgpack_propagates, T_C20_csv_never_terminates, T_C20_csv_width_error_surfaces), the unguarded old destructors are shown to violate it. The translator (clang AST, regenerated every run) pins the set of destructors and noexcept functions whose bodies call possibly-throwing code (T_C20_throwing_dtors, T_C20_noexcept_callers), so a destructor that starts calling throwing code breaks an obligation before a failing input is known. Observed, exhaustively in the fault position: allocation failure at every operator new, stream failure at every byte, truncation at every length for 35 scenarios in all four archives under ASan+LSan in child processes; any TERMINATE / HANG / LEAK / CRASH is a violation. Defects F17 F18 I37 I38 I39 (+ the silent failing-ostream save) found here were repaired.",
        design_ref="DESIGN.md 4 (C20)",
        note="the heap is not modelled (leak freedom and allocation failure are observations over the scenario catalogue); only two scope models (MsgPack map load on the memory reader, CSV string writer) are tied by correspondence; callees declared outside the library are conservatively treated as possibly throwing.",
        technique="Coq proof (exception propagation through scopes; scope models) over a destructor/noexcept inventory regenerated from the source by a clang-AST translator + exhaustive fault-position enumeration under sanitizers"),
}

NOT_YET = "not yet built (stage order in DESIGN.md section 6); will be claimed once its model, theorems and correspondence exist"


def main():
    props = [json.loads(l)["id"] for l in open(os.path.join(VERIF, "properties.jsonl"))]
    hooks_commits = []
    hp = os.path.join(VERIF, "hooks_commits.txt")
    if os.path.exists(hp):
        hooks_commits = [l.split()[0] for l in open(hp) if l.strip() and not l.startswith("#")]
    m = dict(
        version=1,
        setup_cmd="./setup.sh",
        hooks=dict(guard="BITSERIALIZER_VERIF",
                   enable="-DBITSERIALIZER_VERIF on the driver compile line (tools/vlib.py CXXFLAGS); drivers are built from /repo's working tree into /verif/build/impl-<hash>/",
                   baseline_off_cmd="cmake --build /repo/_build && ctest --test-dir /repo/_build -j8 --timeout 900",
                   source_commits=hooks_commits, add_only=True),
        engines=[dict(name="coq-model-correspondence", path="check",
                      serves_properties=sorted(CLAIMED),
                      kind_free_text="Coq 8.16 theorems over hand-written Gallina models + extracted OCaml model driver vs C++ driver built from /repo (differential), python orchestration")],
        checks=[], not_applicable=[],
        notes="Known findings / fixed defects: known_findings.jsonl. Replays: replays/<id>/*.json (./check <id> --replay <file>).")
    for p in props:
        if p in CLAIMED:
            c = CLAIMED[p]
            m["checks"].append(dict(
                property_id=p, quick_cmd="./check %s --tier quick" % p, thorough_cmd="./check %s --tier thorough" % p,
                evidence_file="evidence/%s.json" % p, replay_cmd_template="./check %s --replay {path}" % p,
                engine="coq-model-correspondence",
                level_claimed=dict(category=c["category"], text=c["text"], design_ref=c["design_ref"]),
                level_note=c["note"], technique=c["technique"]))
        else:
            m["not_applicable"].append(dict(property_id=p, reason=NOT_YET))
    with open(os.path.join(VERIF, "MANIFEST.json"), "w") as fh:
        json.dump(m, fh, indent=1)
        fh.write("\n")
    # validate
    try:
        import jsonschema
        jsonschema.validate(m, json.load(open("/root/.vp/MANIFEST.schema.json")))
        print("MANIFEST.json valid;", len(m["checks"]), "checks")
    except ImportError:
        print("MANIFEST.json written (jsonschema not available for validation)")


if __name__ == "__main__":
    main()
