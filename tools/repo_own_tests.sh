#!/bin/bash
# Builds and runs the repository's OWN archive tests that the pinned configuration does not compile
# (BUILD_CSV_ARCHIVE / BUILD_MSGPACK_ARCHIVE / BUILD_RAPIDJSON_ARCHIVE / BUILD_PUGIXML_ARCHIVE are OFF there):
# used after every fix: commit that touches those archives.  Scratch in a mktemp dir, removed at the end.
R=${VERIF_REPO:-/repo}; T=$(mktemp -d); rc=0
GT="-I/root/miniconda/include -L/root/miniconda/lib -Wl,-rpath,/root/miniconda/lib -lgtest -lgtest_main -lpthread"
SRC="$R/src/common/*.cpp $R/src/msgpack/*.cpp $R/src/csv/*.cpp"
for t in integration_tests/csv_archive_tests integration_tests/msgpack_archive_tests integration_tests/rapidjson_archive_tests \
         integration_tests/pugixml_archive_tests unit_tests/csv_tests unit_tests/msgpack_tests; do
  ( g++ -std=c++17 -O0 -I$R/include -I$R/tests -I$R/src $R/tests/$t/*.cpp $SRC $GT -lpugixml -o $T/$(basename $t) > $T/$(basename $t).log 2>&1 ) &
done; wait
for t in csv_archive_tests msgpack_archive_tests rapidjson_archive_tests pugixml_archive_tests csv_tests msgpack_tests; do
  if [ -x $T/$t ]; then r=$($T/$t 2>&1 | tail -1); echo "$t: $r"; case "$r" in *PASSED*) ;; *) rc=1;; esac
  else echo "$t: BUILD FAILED"; tail -5 $T/$t.log; rc=1; fi
done
rm -rf $T; exit $rc
