#!/bin/bash
# tools/seedtest.sh <seeded/Sxx dir> <check ids...> : apply the seeded change to /repo, confirm (suite passes, demo fails),
# run the named checks, undo.  Prints a summary; leaves logs in /tmp/seedtest_<id>/ (scratch).
set -u
D=$(realpath "$1"); shift
ID=$(basename "$D"); L=/tmp/seedtest_$ID; mkdir -p $L
cd /repo || exit 2
if ! git diff --quiet; then echo "/repo has uncommitted changes"; exit 2; fi
DEMO_BUILD=$(python3 -c "import json;print(json.load(open('$D/meta.json'))['demo_build'])")
# demo on the original tree
W=$(python3 -c "import json,re;m=json.load(open('$D/meta.json'));print(re.search(r'/tmp/seed_[A-Za-z0-9_]+',m['demo_build']).group(0))")
DB=$(echo "$DEMO_BUILD" | sed "s#$W/out/demo.cpp#$D/demo.cpp#g; s#$W/out/demo\b#$L/demo#g; s#$W#/repo#g")
echo "demo build: $DB" > $L/summary
( eval "$DB" ) > $L/demo_build0.log 2>&1; $L/demo > $L/demo0.log 2>&1; echo "demo on original tree: exit $?" >> $L/summary
git apply "$D/patch.diff" || { echo "patch does not apply" >> $L/summary; cat $L/summary; exit 2; }
( cmake --build _build -j12 > $L/build.log 2>&1 && ctest --test-dir _build -j8 --timeout 900 > $L/ctest.log 2>&1 ); echo "suite with change: $(grep 'tests passed' $L/ctest.log)" >> $L/summary
( eval "$DB" ) > $L/demo_build1.log 2>&1; $L/demo > $L/demo1.log 2>&1; echo "demo with change: exit $?" >> $L/summary
cd /verif
rm -rf $L/evidence.keep; cp -r /verif/evidence $L/evidence.keep      # runs against the mutated tree must not leave their evidence behind
for c in "$@"; do
  ./check $c > $L/check_$c.log 2>&1; rc=$?
  echo "check $c: exit $rc; $(grep -c '^VIOLATION' $L/check_$c.log) VIOLATION lines; $(grep -c 'no-failing-input-found' $L/check_$c.log) without failing input" >> $L/summary
  grep '^VIOLATION' $L/check_$c.log | head -3 >> $L/summary
done
rm -rf /verif/evidence; cp -r $L/evidence.keep /verif/evidence
git -C /repo checkout -- . ; (cd /repo && cmake --build _build -j12 > /dev/null 2>&1)
for c in "$@"; do for f in $(grep -o 'replay=[^ ]*' $L/check_$c.log | cut -d= -f2 | sort -u); do rm -f "$f"; done; done   # only what these runs wrote
cat $L/summary
