#!/bin/bash
# tools/seedtest2.sh <seeded/Sxx dir> <check ids...> : like seedtest.sh, but on a SCRATCH worktree of /repo
# (/tmp/seedrepo, created on first use with its own build of the pinned suite; remove it with
#  `git -C /repo worktree remove --force /tmp/seedrepo` when the round is over), so that /repo itself and the
# checks other sessions run against it are never disturbed.  The checks are run with VERIF_REPO=/tmp/seedrepo.
set -u
D=$(realpath "$1"); shift
ID=$(basename "$D"); L=/tmp/seedtest_$ID; mkdir -p $L
R=${SEEDREPO:-/tmp/seedrepo}
if [ ! -d $R ]; then
  git -C /repo worktree add -q --detach $R HEAD || exit 2
  cmake -S $R -B $R/_build -G Ninja -DBUILD_TESTS=ON -DCMAKE_BUILD_TYPE=RelWithDebInfo -DCMAKE_CXX_FLAGS=-Wno-error > $L/configure.log 2>&1 || { echo "configure failed"; exit 2; }
  cmake --build $R/_build -j12 > $L/build0.log 2>&1 || { echo "base build failed"; exit 2; }
fi
cd $R || exit 2
git checkout -q --detach $(git -C /repo rev-parse HEAD) 2>/dev/null
if ! git diff --quiet; then echo "$R has uncommitted changes"; exit 2; fi
DEMO_BUILD=$(python3 -c "import json;print(json.load(open('$D/meta.json'))['demo_build'])")
W=$(python3 -c "import json,re;m=json.load(open('$D/meta.json'));print(re.search(r'/tmp/seed_[A-Za-z0-9_]+',m['demo_build']).group(0))")
DB=$(echo "$DEMO_BUILD" | sed "s#$W/out/demo.cpp#$D/demo.cpp#g; s#$W/out/demo\b#$L/demo#g; s#$W#$R#g")
echo "demo build: $DB" > $L/summary
( eval "$DB" ) > $L/demo_build0.log 2>&1; timeout 300 $L/demo > $L/demo0.log 2>&1; echo "demo on original tree: exit $?" >> $L/summary
git apply "$D/patch.diff" || { echo "patch does not apply" >> $L/summary; cat $L/summary; exit 2; }
( cmake --build _build -j12 > $L/build.log 2>&1 && ctest --test-dir _build -j8 --timeout 900 > $L/ctest.log 2>&1 ); echo "suite with change: $(grep 'tests passed' $L/ctest.log)" >> $L/summary
( eval "$DB" ) > $L/demo_build1.log 2>&1; timeout 300 $L/demo > $L/demo1.log 2>&1; echo "demo with change: exit $?" >> $L/summary
cd /verif
rm -rf $L/evidence.keep; cp -r /verif/evidence $L/evidence.keep      # runs against the mutated tree must not leave their evidence behind
for c in "$@"; do
  VERIF_REPO=$R ./check $c > $L/check_$c.log 2>&1; rc=$?
  echo "check $c: exit $rc; $(grep -c '^VIOLATION' $L/check_$c.log) VIOLATION lines; $(grep -c 'no-failing-input-found' $L/check_$c.log) without failing input" >> $L/summary
  grep '^VIOLATION' $L/check_$c.log | head -3 >> $L/summary
  mkdir -p $L/replays_$c; n=0; for f in $(grep -o 'replay=[^ ]*' $L/check_$c.log | cut -d= -f2 | sort -u); do n=$((n+1)); [ $n -le 5 ] && cp "$f" $L/replays_$c/ 2>/dev/null; rm -f "$f"; done
done
for e in /verif/evidence/*.json; do b=$(basename $e); for c in "$@"; do [ "$b" = "$c.json" ] && cp $L/evidence.keep/$b $e; done; done
git -C $R checkout -- . ; (cd $R && cmake --build _build -j12 > /dev/null 2>&1)
cat $L/summary
