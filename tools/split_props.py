#!/usr/bin/env python3
"""split_props.py Properties_Cxx.v NewProofs.v : moves every proof of the properties file that is more than `exact <term>`
into NewProofs.v (same header / imports, lemma named <theorem>_proof) and leaves `Proof. exact <theorem>_proof. Qed.`"""
import re, sys, os
src_p, new_name = sys.argv[1], sys.argv[2]
s = open(src_p).read()
# header = everything before the first Theorem/Example/Corollary
m0 = re.search(r"^(Theorem|Example|Corollary)\s", s, re.M)
header = s[:m0.start()]
pat = re.compile(r"^(Theorem|Example|Corollary)\s+([A-Za-z0-9_']+)(.*?)\nProof\.(.*?)\bQed\.", re.S | re.M)
moved, out, pos = [], [], 0
for m in pat.finditer(s):
    kind, name, stmt, body = m.group(1), m.group(2), m.group(3), m.group(4)
    b = body.strip()
    simple = re.fullmatch(r"exact\s+[^.;]*(\([^()]*\)[^.;]*)*\.", b) is not None and "\n" not in b
    if simple:
        continue
    moved.append("Lemma %s_proof%s\nProof.%sQed.\n" % (name, stmt, body))
    out.append((m.start(), m.end(), "%s %s%s\nProof. exact %s_proof. Qed." % (kind, name, stmt, name)))
if not moved:
    print("nothing to move"); sys.exit(0)
new = s
for a, b, t in reversed(out):
    new = new[:a] + t + new[b:]
base = os.path.splitext(new_name)[0]
# the properties file must import the new proof file: add after the first From ... Import line block
imp = "From BS Require Import %s.\n" % base
hm = re.search(r"^(From BS Require Import[^.]*\.\n)", new, re.M)
new = new[:hm.end()] + imp + new[hm.end():]
hdr = re.sub(r"\(\*.*?\*\)", "", header, flags=re.S)      # imports / scopes only
open(os.path.join(os.path.dirname(src_p), new_name), "w").write(
    "(* %s - proofs moved out of %s (the properties file keeps statements closed by `exact`). *)\n" % (new_name, os.path.basename(src_p))
    + hdr.strip() + "\n\n" + "\n".join(moved))
open(src_p, "w").write(new)
print("moved", len(moved), "proofs")
