"""vlib.py — shared machinery of /verif/check: builds (Coq, extracted OCaml model drivers, C++
implementation drivers from /repo's working tree), proof-obligation accounting, correspondence
runs, known findings, verdict lines, evidence files.  Python stdlib only."""
import hashlib, json, os, re, shutil, subprocess, sys, time, random
from concurrent.futures import ThreadPoolExecutor

VERIF = os.path.dirname(os.path.dirname(os.path.abspath(__file__)))
REPO = os.environ.get("VERIF_REPO", "/repo")
COQ = os.path.join(VERIF, "coq")
BUILD = os.path.join(VERIF, "build")
NCPU = max(1, min(16, os.cpu_count() or 1))
COQ_MEM_KB = 14000000      # address-space cap per coqc process (kB)

CXXFLAGS = ["-std=c++17", "-O1", "-g", "-fsanitize=address,undefined", "-fno-sanitize-recover=all",
            "-DBITSERIALIZER_VERIF", "-I" + os.path.join(REPO, "include"), "-I" + os.path.join(REPO, "src"),
            "-I" + os.path.join(VERIF, "harness")]

FORBIDDEN = re.compile(r"\b(Admitted|admit|give_up|Abort|Axiom|Axioms|Parameter|Parameters|Conjecture|Conjectures|Hypothesis|Hypotheses|Variable|Variables|Context)\b|Unset\s+Guard|bypass_check|type-in-type|impredicative-set|Admit\s+Obligations|Unset\s+Positivity|Unset\s+Universe")

# Per property: the standard-library axioms its theorems may depend on (named in DESIGN.md 2.5 and in the property's trusted
# base).  Only C04 uses any: Flocq's binary32/binary64 are built on the standard library's real numbers.  Every other
# property's theorems must print "Closed under the global context".
REALS_AXIOMS = {
    "Coq.Logic.FunctionalExtensionality.functional_extensionality_dep",
    "Coq.Logic.Classical_Prop.classic",
    "Coq.Reals.ClassicalDedekindReals.sig_forall_dec",
    "Coq.Reals.ClassicalDedekindReals.sig_not_dec",
}
ALLOWED_AXIOMS_BY_PROP = {"C04": REALS_AXIOMS}
ALLOWED_AXIOMS = set()        # set by coq_properties(prop) for the property being checked


def axiom_allowed(a):
    """Print Assumptions prints the shortest unambiguous name of an axiom"""
    return any(full == a or full.endswith("." + a) for full in ALLOWED_AXIOMS)


def log(*a):
    print(*a, file=sys.stderr, flush=True)


# ---------------------------------------------------------------- repo hash / build cache

def repo_hash():
    h = hashlib.sha256()
    for top in ("include", "src"):
        for root, dirs, files in os.walk(os.path.join(REPO, top)):
            dirs.sort()
            for f in sorted(files):
                p = os.path.join(root, f)
                h.update(p.encode())
                with open(p, "rb") as fh:
                    h.update(fh.read())
    return h.hexdigest()[:16]


def _files_hash(paths, extra=()):
    h = hashlib.sha256()
    for p in paths:
        h.update(p.encode())
        with open(p, "rb") as fh:
            h.update(fh.read())
    for e in extra:
        h.update(str(e).encode())
    return h.hexdigest()[:10]


_RH = None


def build_dir():
    """build/<hash of /repo/include, /repo/src and harness>/ ; stale hashes are deleted"""
    global _RH
    if _RH is None:
        _RH = repo_hash()
    d = os.path.join(BUILD, "impl-" + _RH)
    if not os.path.isdir(d):
        os.makedirs(d, exist_ok=True)
        # drop other impl-* dirs older than an hour (other checks may be using fresh ones concurrently)
        now = time.time()
        for e in os.listdir(BUILD):
            p = os.path.join(BUILD, e)
            if e.startswith("impl-") and p != d and now - os.path.getmtime(p) > 3600:
                shutil.rmtree(p, ignore_errors=True)
    return d


class BuildError(Exception):
    pass


def build_cpp(name, sources, extra=(), libs=(), sanitize=True):
    """compile harness/<sources> (+ listed /repo sources) into build/impl-<hash>/<name>"""
    d = build_dir()
    hs = [x if os.path.isabs(x) else os.path.join(VERIF, "harness", x) for x in sources]
    hs = [x for x in hs if x.startswith(os.path.join(VERIF, "harness"))] + [os.path.join(VERIF, "harness", "common.h")]
    out = os.path.join(d, "%s-%s" % (name, _files_hash(hs, list(extra) + list(libs) + [sanitize])))
    if os.path.exists(out):
        return out
    lock = out + ".lock"
    # simple cross-process lock
    while True:
        try:
            fd = os.open(lock, os.O_CREAT | os.O_EXCL | os.O_WRONLY)
            os.close(fd)
            break
        except FileExistsError:
            if os.path.exists(out):
                return out
            if time.time() - os.path.getmtime(lock) > 900:
                os.unlink(lock)
            time.sleep(0.5)
    try:
        if os.path.exists(out):
            return out
        flags = list(CXXFLAGS)
        if not sanitize:
            flags = [f for f in flags if not f.startswith("-fsanitize") and not f.startswith("-fno-sanitize")]
        srcs = []
        for s in sources:
            srcs.append(s if os.path.isabs(s) else os.path.join(VERIF, "harness", s))
        tmp = out + ".tmp%d" % os.getpid()
        cmd = ["g++"] + flags + list(extra) + srcs + ["-o", tmp] + list(libs)
        t0 = time.time()
        p = subprocess.run(cmd, capture_output=True, text=True, timeout=1200)
        if p.returncode != 0:
            raise BuildError("compile of %s failed:\n%s\n%s" % (name, " ".join(cmd), p.stderr[-6000:]))
        os.rename(tmp, out)
        log("[build] %s in %.1fs" % (name, time.time() - t0))
        return out
    finally:
        try:
            os.unlink(lock)
        except OSError:
            pass


def repo_sources(*globs):
    import glob
    r = []
    for g in globs:
        r += sorted(glob.glob(os.path.join(REPO, g)))
    return r


# ---------------------------------------------------------------- Coq

def coq_make(targets, timeout=3000):
    """full .vo build of the given targets (never -vos); returns (ok, log)"""
    if not os.path.exists(os.path.join(COQ, "Makefile")) or \
            os.path.getmtime(os.path.join(COQ, "Makefile")) < os.path.getmtime(os.path.join(COQ, "_CoqProject")):
        subprocess.run(["coq_makefile", "-f", "_CoqProject", "-o", "Makefile"], cwd=COQ, check=True,
                       capture_output=True)
    # a dependency file left incomplete by an interrupted build would be taken for up to date: it must name every listed file
    dep = os.path.join(COQ, ".Makefile.d")
    if os.path.exists(dep):
        dtxt = open(dep, errors="replace").read()
        listed = [l.strip() for l in open(os.path.join(COQ, "_CoqProject")) if l.strip().endswith(".v")]
        if any((f[:-2] + ".vo") not in dtxt for f in listed):
            os.remove(dep)
    # every coqc under a memory cap (a runaway proof must fail the obligation, not take the machine down)
    p = subprocess.run(["timeout", str(timeout), "bash", "-c", "ulimit -v %d; exec make -k -j%d %s" % (COQ_MEM_KB, NCPU, " ".join(targets))], cwd=COQ,
                       capture_output=True, text=True)
    return p.returncode == 0, p.stdout + p.stderr


def grep_gate():
    """no Admitted/admit/Axiom/Parameter/... anywhere in the development"""
    bad = []
    # the development = the files listed in _CoqProject (what `make` compiles and what the property files can import);
    # a .v file lying in coq/ that is not listed is not part of it (drafts of family builders) and is ignored
    listed = set(l.strip() for l in open(os.path.join(COQ, "_CoqProject")) if l.strip().endswith(".v"))
    for f in sorted(os.listdir(COQ)):
        if not f.endswith(".v") or f not in listed:
            continue
        txt = open(os.path.join(COQ, f)).read()
        # strip comments (non-nested is enough for our files; nested handled by loop)
        prev = None
        while prev != txt:
            prev = txt
            txt = re.sub(r"\(\*[^*(]*(?:\*(?!\))[^*(]*|\((?!\*)[^*(]*)*\*\)", " ", txt)
        sections = []           # names of the open Sections (an `End X` of a Module does not close a Section)
        for i, line in enumerate(txt.split("\n"), 1):
            ms = re.match(r"\s*Section\s+([A-Za-z0-9_']+)", line)
            if ms:
                sections.append(ms.group(1))
            me = re.match(r"\s*End\s+([A-Za-z0-9_']+)", line)
            if me and sections and sections[-1] == me.group(1):
                sections.pop()
            in_section = len(sections)
            m = FORBIDDEN.search(line)
            if m:
                w = m.group(0)
                if w in ("Variable", "Variables", "Hypothesis", "Hypotheses", "Context") and in_section:
                    continue  # Section-local, discharged at End
                bad.append("%s:%d: %s" % (f, i, line.strip()[:120]))
    return bad


def coq_properties(prop):
    """(re)compile Properties_<prop>.v and account for its theorems.
    returns dict(ok, obligations, discharged, theorems=[(name, assumptions)], bad_axioms, log)"""
    fn = "Properties_%s.v" % prop
    src = open(os.path.join(COQ, fn)).read()
    names = re.findall(r"^\s*Print Assumptions\s+([A-Za-z0-9_']+)\s*\.", src, re.M)
    thms = re.findall(r"^\s*(?:Theorem|Example|Corollary|Lemma|Fact|Remark|Proposition)\s+([A-Za-z0-9_']+)", src, re.M)
    global ALLOWED_AXIOMS
    ALLOWED_AXIOMS = set(ALLOWED_AXIOMS_BY_PROP.get(prop[:3], set()))
    ok_make, mlog = coq_make(["Properties_%s.vo" % prop])
    p = subprocess.run(["timeout", "1800", "bash", "-c", "ulimit -v %d; exec coqc -Q . BS %s" % (COQ_MEM_KB, fn)], cwd=COQ, capture_output=True, text=True)
    out = p.stdout
    blocks = re.split(r"^(?=Closed under the global context|Axioms:)", out, flags=re.M)
    blocks = [b for b in blocks if b.startswith("Closed under") or b.startswith("Axioms:")]
    theorems = []
    bad_axioms = []
    for i, b in enumerate(blocks):
        nm = names[i] if i < len(names) else "?"
        if b.startswith("Closed under"):
            theorems.append((nm, []))
        else:
            ax = [a for a in re.findall(r"^([A-Za-z0-9_.']+)\s*:", b, re.M) if a != "Axioms"]
            theorems.append((nm, ax))
            for a in ax:
                if not axiom_allowed(a):
                    bad_axioms.append((nm, a))
    missing = [t for t in thms if t not in names]
    ok = (p.returncode == 0 and len(blocks) == len(names) and not bad_axioms and not missing and len(names) > 0)
    return dict(ok=ok, obligations=len(names), discharged=len([t for t in theorems if all(axiom_allowed(a) for a in t[1])]) if p.returncode == 0 else min(len(blocks), len(names)),
                theorems=theorems, bad_axioms=bad_axioms, unprinted=missing,
                log=(mlog[-3000:] if not ok_make else "") + p.stdout[-2000:] + p.stderr[-4000:],
                checker_cmd="cd /verif/coq && make -k Properties_%s.vo && coqc -Q . BS %s  (Print Assumptions under every theorem)" % (prop, fn))


# ---------------------------------------------------------------- OCaml model drivers

def build_model(fam):
    """extract (via make Extract<Fam>.vo) and build build/ml/<fam>_model_driver"""
    ok, mlog = coq_make(["Extract%s.vo" % fam.capitalize()])
    gen = os.path.join(VERIF, "ml", "gen", "%s_model.ml" % fam)
    if not ok or not os.path.exists(gen):
        raise BuildError("extraction of %s model failed:\n%s" % (fam, mlog[-4000:]))
    d = os.path.join(BUILD, "ml")
    os.makedirs(d, exist_ok=True)
    out = os.path.join(d, "%s_model_driver" % fam)
    parts = [gen, os.path.join(VERIF, "ml", "glue.ml")]
    gz = os.path.join(VERIF, "ml", "glue_%s.ml" % fam)
    if os.path.exists(gz):
        parts.append(gz)
    parts.append(os.path.join(VERIF, "ml", "%s_driver.ml" % fam))
    newest = max(os.path.getmtime(p) for p in parts)
    if os.path.exists(out) and os.path.getmtime(out) >= newest:
        return out
    allml = os.path.join(d, "%s_all_%d.ml" % (fam, os.getpid()))
    with open(allml, "w") as fh:
        for p in parts:
            fh.write("# 1 \"%s\"\n" % p)
            fh.write(open(p).read())
            fh.write("\n")
    tmp = out + ".tmp%d" % os.getpid()
    p = subprocess.run(["ocamlfind", "ocamlopt", "-O3", "-w", "-a", allml, "-o", tmp], cwd=d, capture_output=True, text=True)
    for ext in (".ml", ".cmi", ".cmx", ".o"):
        try:
            os.unlink(allml[:-3] + ext)
        except OSError:
            pass
    if p.returncode != 0:
        raise BuildError("ocamlopt %s failed:\n%s" % (fam, p.stderr[-4000:]))
    os.rename(tmp, out)
    return out


# ---------------------------------------------------------------- running drivers

def _run_chunk(binary, lines, timeout, env):
    """run a line-protocol driver over lines; on abnormal exit record the outcome for the case that
    killed it and continue with the rest"""
    outs = []
    i = 0
    while i < len(lines):
        inp = "\n".join(lines[i:]) + "\n"
        try:
            p = subprocess.run([binary], input=inp, capture_output=True, text=True, timeout=timeout, env=env)
            got = p.stdout.split("\n")
            if got and got[-1] == "":
                got.pop()
            rc = p.returncode
            err = p.stderr
        except subprocess.TimeoutExpired as e:
            so = e.stdout.decode() if isinstance(e.stdout, bytes) else (e.stdout or "")
            got = so.split("\n")
            if got and got[-1] == "":
                got.pop()
            # last line may be partial
            rc = "HANG"
            err = ""
        if rc == 0 and len(got) >= len(lines) - i:
            outs += got[:len(lines) - i]
            break
        ndone = min(len(got), len(lines) - i - 1) if rc != 0 else len(got)
        outs += got[:ndone]
        i += ndone
        if i >= len(lines):
            break
        if rc == "HANG":
            outs.append("HANG")
        else:
            kind = "CRASH(rc=%s)" % rc
            if rc == 3 and "TERMINATE" in err:
                kind = "TERMINATE"
            elif rc == 4 and "HANG" in err:
                kind = "HANG"
            elif "AddressSanitizer" in err:
                m = re.search(r"AddressSanitizer: ([a-zA-Z-]+)", err)
                kind = "SANITIZER(asan:%s)" % (m.group(1) if m else "?")
            elif "runtime error:" in err:
                m = re.search(r"runtime error: ([^\n]{0,80})", err)
                kind = "SANITIZER(ubsan:%s)" % (m.group(1) if m else "?")
            elif "terminate called" in err or "TERMINATE" in err:
                kind = "TERMINATE"
            elif "HANG" in err and rc == 4:
                kind = "HANG"
            outs.append(kind)
        i += 1
    return outs


def run_driver(binary, lines, timeout=600, jobs=None, chunk=None, asan_options=None):
    if not lines:
        return []
    env = dict(os.environ)
    env["ASAN_OPTIONS"] = asan_options or "detect_leaks=1:abort_on_error=0:allocator_may_return_null=1:malloc_context_size=5"
    env["UBSAN_OPTIONS"] = "print_stacktrace=0"
    jobs = jobs or NCPU
    if chunk is None:
        chunk = max(1, (len(lines) + jobs - 1) // jobs)
    parts = [lines[k:k + chunk] for k in range(0, len(lines), chunk)]
    with ThreadPoolExecutor(max_workers=jobs) as ex:
        res = list(ex.map(lambda part: _run_chunk(binary, part, timeout, env), parts))
    out = []
    for r in res:
        out += r
    return out


# ---------------------------------------------------------------- findings / verdicts / evidence

def load_known(prop):
    p = os.path.join(VERIF, "known_findings.jsonl")
    r = []
    if os.path.exists(p):
        for l in open(p):
            l = l.strip()
            if l and not l.startswith("#"):
                d = json.loads(l)
                if d.get("property") == prop:
                    r.append(d)
    return r


def write_replay(prop, payload):
    d = os.path.join(VERIF, "replays", prop)
    os.makedirs(d, exist_ok=True)
    s = json.dumps(payload, indent=1, sort_keys=True)
    name = hashlib.sha256(s.encode()).hexdigest()[:12] + ".json"
    p = os.path.join(d, name)
    with open(p, "w") as fh:
        fh.write(s + "\n")
    return p


def write_evidence(prop, tier, seed, level, coverage, wall_s, violations, assumptions):
    d = os.path.join(VERIF, "evidence")
    os.makedirs(d, exist_ok=True)
    ev = dict(property_id=prop, tier=tier, seed=seed, level=level, coverage=coverage, wall_s=round(wall_s, 2),
              violations=violations, assumptions=assumptions)
    with open(os.path.join(d, prop + ".json"), "w") as fh:
        json.dump(ev, fh, indent=1)
        fh.write("\n")


class Rng(random.Random):
    pass
